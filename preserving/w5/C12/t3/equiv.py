"""Differential harness for the CFG analysis functions of pyformlang.

Run with PYTHONPATH pointing at the tree under test and PYTHONHASHSEED=0.
It builds several hundred small random grammars (useless symbols, epsilon
bodies, repeated symbols, cycles, undeclared / unused symbols, explicit
Epsilon objects, missing start symbols) and prints, canonically sorted, the
results of

    get_generating_symbols, get_nullable_symbols,
    _get_generating_or_nullable, _set_impacts_and_remaining_lists,
    get_reachable_symbols, is_empty, __bool__, is_finite, get_words

under several call orders (to exercise the caches and the restore of the
shared counters).  The output must be byte-identical on two trees that are
behaviourally equivalent.  Exit status 0 on success.
"""
import itertools
import random
import sys

from pyformlang.cfg import CFG, Variable, Terminal, Production, Epsilon

SEED = 20260927
N_GRAMMARS = 400
BOUNDS = (0, 1, 2, 3, 4, 5)
CAP = 4000  # safety cap on the number of words pulled from a generator

VAR_POOL = ["S", "A", "B", "C", "D", "E"]
TER_POOL = ["a", "b", "c", "epsilon"]


def canon_symbol(symbol):
    if symbol is None:
        return ("None", "")
    return (type(symbol).__name__, str(symbol.value))


def canon_symbols(symbols):
    items = [canon_symbol(x) for x in symbols]
    return "{" + ", ".join("%s:%s" % x for x in sorted(items)) + "}" + \
        "#%d" % len(items)


def canon_words(words):
    items = sorted(tuple(canon_symbol(x) for x in word) for word in words)
    text = " | ".join(".".join(v for _, v in word) or "<eps>"
                      for word in items)
    kinds = sorted({k for word in items for k, _ in word})
    return "[%s] n=%d kinds=%s" % (text, len(items), ",".join(kinds))


def guarded(function):
    """Run function; return a canonical text, also for an exception."""
    try:
        return function()
    except RecursionError:
        return "EXC:RecursionError"
    except Exception as exc:  # pylint: disable=broad-except
        return "EXC:" + type(exc).__name__


def words_of(cfg, bound):
    def run():
        generator = cfg.get_words(bound) if bound is not None \
            else cfg.get_words()
        words = list(itertools.islice(generator, CAP))
        for word in words:
            assert isinstance(word, list)
        return canon_words(words)
    return guarded(run)


def internal_state(cfg):
    """Canonical, order independent view of the shared impact tables."""
    def run():
        # pylint: disable=protected-access
        cfg._set_impacts_and_remaining_lists()
        remaining = cfg._remaining_lists
        rem = sorted((canon_symbol(head), tuple(sorted(counts)))
                     for head, counts in remaining.items())
        imp = sorted((canon_symbol(symbol), canon_symbol(head),
                      remaining[head][index])
                     for symbol, pairs in cfg._impacts.items()
                     for head, index in pairs)
        added = sorted(canon_symbol(x) for x in cfg._added_impacts)
        return "rem=%r imp=%r added=%r" % (rem, imp, added)
    return guarded(run)


def random_grammar(rng):
    """Return a zero-argument factory building a fresh, identical CFG."""
    n_var = rng.randint(1, 6)
    n_ter = rng.randint(1, 4)
    variables = VAR_POOL[:n_var]
    terminals = TER_POOL[:n_ter] if rng.random() < 0.15 \
        else TER_POOL[:min(n_ter, 3)]
    n_prod = rng.randint(0, 9)
    prods = []
    for _ in range(n_prod):
        head = rng.choice(variables)
        shape = rng.random()
        if shape < 0.18:
            length = 0
        elif shape < 0.50:
            length = 1
        elif shape < 0.85:
            length = 2
        else:
            length = rng.randint(3, 4)
        body = []
        for _ in range(length):
            roll = rng.random()
            if roll < 0.42:
                body.append(("V", rng.choice(variables)))
            elif roll < 0.95:
                body.append(("T", rng.choice(terminals)))
            else:
                body.append(("E", ""))
        if body and rng.random() < 0.2:           # repeated symbols
            body = body + [body[-1]]
        if rng.random() < 0.1:                    # plain cycle X -> X
            body = [("V", head)]
        filtering = rng.random() < 0.85
        prods.append((head, body, filtering))
    if rng.random() < 0.5:                        # mostly productive grammar
        for variable in variables:
            if rng.random() < 0.7:
                body = [("T", rng.choice(terminals))] \
                    if rng.random() < 0.75 else []
                prods.append((variable, body, True))
        rng.shuffle(prods)
    if prods and rng.random() < 0.3:              # duplicated production
        prods.append(prods[rng.randrange(len(prods))])
    declared_vars = [v for v in VAR_POOL if rng.random() < 0.3]
    declared_ters = [t for t in TER_POOL[:3] if rng.random() < 0.3]
    start_roll = rng.random()
    if start_roll < 0.80:
        start = "S"
    elif start_roll < 0.95:
        start = rng.choice(VAR_POOL)
    else:
        start = None
    as_set = rng.random() < 0.5
    declare = rng.random() < 0.6

    def make_symbol(kind, value):
        if kind == "V":
            return Variable(value)
        if kind == "T":
            return Terminal(value)
        return Epsilon()

    def factory():
        productions = [
            Production(Variable(head),
                       [make_symbol(k, v) for k, v in body],
                       filtering)
            for head, body, filtering in prods]
        if as_set:
            productions = set(productions)
        if declare:
            return CFG(set(declared_vars), set(declared_ters),
                       Variable(start) if start is not None else None,
                       productions)
        return CFG(start_symbol=start, productions=productions)

    description = "start=%s decl=%s vars=%s ters=%s set=%s :: %s" % (
        start, declare, declared_vars, declared_ters, as_set,
        " ; ".join("%s->%s%s" % (h, " ".join(k + v for k, v in b),
                                 "" if f else "!")
                   for h, b, f in prods))
    return factory, description


def report_basic(cfg, out):
    out.append("  generating " + guarded(
        lambda: canon_symbols(cfg.get_generating_symbols())))
    out.append("  nullable   " + guarded(
        lambda: canon_symbols(cfg.get_nullable_symbols())))
    out.append("  reachable  " + guarded(
        lambda: canon_symbols(cfg.get_reachable_symbols())))
    out.append("  is_empty   " + guarded(lambda: repr(cfg.is_empty())))
    out.append("  bool       " + guarded(lambda: repr(bool(cfg))))
    out.append("  is_finite  " + guarded(lambda: repr(cfg.is_finite())))


def report_words(cfg, out, bounds):
    for bound in bounds:
        out.append("  words(%s) %s" % (bound, words_of(cfg, bound)))
    finite = guarded(cfg.is_finite)
    empty = guarded(cfg.is_empty)
    if finite is True or empty is True:
        out.append("  words(-1) " + words_of(cfg, -1))
        out.append("  words()   " + words_of(cfg, None))


def report(index, factory, description):
    out = ["G%03d %s" % (index, description)]

    # Order 1: symbol classes first, then the words, then everything again.
    cfg = guarded(factory)
    if isinstance(cfg, str):
        out.append("  construction " + cfg)
        return out
    out.append(" order1")
    out.append("  state0     " + internal_state(cfg))
    report_basic(cfg, out)
    out.append("  state1     " + internal_state(cfg))
    report_words(cfg, out, BOUNDS)
    report_basic(cfg, out)
    out.append("  state2     " + internal_state(cfg))

    # Order 2: the private worker called directly, several times,
    # interleaved, on a fresh object.
    cfg = factory()
    out.append(" order2")
    # pylint: disable=protected-access
    for flag in (True, False, False, True):
        out.append("  worker(%s) %s" % (flag, guarded(
            lambda flag=flag: canon_symbols(
                cfg._get_generating_or_nullable(flag)))))
        out.append("  state      " + internal_state(cfg))
    report_basic(cfg, out)

    # Order 3: words first (descending bounds), partially consumed
    # generators, then the classes.
    cfg = factory()
    out.append(" order3")
    partial = guarded(lambda: canon_words(
        list(itertools.islice(cfg.get_words(4), 3))[:0]))
    out.append("  partial    " + partial)
    report_words(cfg, out, tuple(reversed(BOUNDS)))
    out.append("  is_finite  " + guarded(lambda: repr(cfg.is_finite())))
    out.append("  bool       " + guarded(lambda: repr(bool(cfg))))
    out.append("  reachable  " + guarded(
        lambda: canon_symbols(cfg.get_reachable_symbols())))
    out.append("  nullable   " + guarded(
        lambda: canon_symbols(cfg.get_nullable_symbols())))
    out.append("  generating " + guarded(
        lambda: canon_symbols(cfg.get_generating_symbols())))
    out.append("  state      " + internal_state(cfg))

    # Order 4: the returned sets are the cached objects; identity and
    # stability across calls.
    cfg = factory()
    out.append(" order4")

    def identity():
        first = cfg.get_generating_symbols()
        second = cfg.get_generating_symbols()
        third = cfg.get_nullable_symbols()
        fourth = cfg.get_nullable_symbols()
        fifth = cfg.get_reachable_symbols()
        sixth = cfg.get_reachable_symbols()
        return repr((first is second, third is fourth, fifth is sixth,
                     fifth == sixth, first is third))
    out.append("  identity   " + guarded(identity))
    return out


def handwritten():
    """A few fixed grammars with known shapes."""
    texts = [
        "S -> a S b | a b",
        "S -> A B\nA -> a | epsilon\nB -> b | epsilon",
        "S -> S S | a | epsilon",
        "S -> A\nA -> B\nB -> A",
        "S -> a\nA -> b\nB -> B c",
        "S -> A A A\nA -> a | b",
        "S -> epsilon",
        "",
        "S -> A b\nA -> A a",
        "S -> A B C\nA -> a A | epsilon\nB -> b\nC -> c C c | epsilon",
        "S -> a S | B\nB -> b B | epsilon\nU -> S u",
    ]
    result = []
    for text in texts:
        result.append((lambda text=text: CFG.from_text(text),
                       "text=%r" % text))
    return result


def main():
    rng = random.Random(SEED)
    grammars = handwritten()
    for _ in range(N_GRAMMARS):
        grammars.append(random_grammar(rng))
    lines = []
    for index, (factory, description) in enumerate(grammars):
        lines.extend(report(index, factory, description))
    sys.stdout.write("\n".join(lines) + "\n")
    sys.stdout.write("TOTAL %d grammars\n" % len(grammars))
    return 0


if __name__ == "__main__":
    sys.exit(main())
