""" Differential oracle for the changes made to pyformlang/cfg/cfg.py.

Stand-alone and deterministic: run it as

    PYTHONHASHSEED=0 PYTHONPATH=<tree> python equiv.py > out.txt
    (optionally: equiv.py <seed> <number of random grammars>)

on the pristine tree and on the patched tree; the two outputs have to be
byte-identical. Exit status 0 when the run completes.

A few hundred small grammars are built from a fixed random seed (useless
symbols, epsilon bodies, raw Epsilon() symbols kept in the bodies with
Production(..., filtering=False), a plain terminal named "epsilon", repeated
symbols, repeated productions, unit cycles, ambiguous grammars, CNF shaped
grammars with and without useless symbols, grammars without production or
without start symbol, productions given as a list or as a set). On every
grammar several call sequences are run, each one on a fresh CFG object, and
everything that is returned or yielded is printed in a canonical (sorted)
form: get_generating_symbols, get_nullable_symbols, get_reachable_symbols,
is_empty / bool, is_finite, get_words for several bounds, and a summary of
to_normal_form().
"""
import random
import sys
from itertools import islice, permutations

from pyformlang.cfg import CFG, Variable, Terminal, Production, Epsilon

SEED = 20260927
NB_RANDOM = 420
MAX_WORDS = 3000

VARIABLES = [Variable(x) for x in ["S", "A", "B", "C", "D"]]
TERMINALS = [Terminal(x) for x in ["a", "b", "c"]]


# --------------------------------------------------------------------------
# Canonical printing
# --------------------------------------------------------------------------

def show_symbol(symbol):
    """ A symbol, with its kind """
    if symbol is None:
        return "None"
    if isinstance(symbol, Epsilon):
        return "E:" + str(symbol.value)
    if isinstance(symbol, Terminal):
        return "T:" + str(symbol.value)
    if isinstance(symbol, Variable):
        return "V:" + str(symbol.value)
    return "?:" + repr(symbol)


def show_symbols(symbols):
    """ A collection of symbols, sorted """
    return "{" + ", ".join(sorted(show_symbol(x) for x in symbols)) + "}"


def show_production(production):
    """ A production """
    return show_symbol(production.head) + " -> " + \
        " ".join(show_symbol(x) for x in production.body)


def show_productions(productions):
    """ A collection of productions, sorted, repetitions kept """
    return "[" + " ; ".join(sorted(show_production(x)
                                   for x in productions)) + "]"


def show_words(words):
    """ The words that were yielded, sorted, repetitions kept """
    res = sorted(tuple(str(x.value) for x in word) for word in words)
    return "[" + ", ".join("<" + " ".join(word) + ">" for word in res) + "]"


def guarded(function):
    """ Result of a call, or the name of the exception """
    try:
        return function()
    # pylint: disable=broad-except
    except Exception as exception:
        return "!" + type(exception).__name__


# --------------------------------------------------------------------------
# Observations on one CFG object
# --------------------------------------------------------------------------

def o_gen(cfg):
    """ get_generating_symbols """
    return "gen=" + guarded(
        lambda: show_symbols(cfg.get_generating_symbols()))


def o_null(cfg):
    """ get_nullable_symbols """
    return "null=" + guarded(
        lambda: show_symbols(cfg.get_nullable_symbols()))


def o_reach(cfg):
    """ get_reachable_symbols """
    return "reach=" + guarded(
        lambda: show_symbols(cfg.get_reachable_symbols()))


def o_empty(cfg):
    """ is_empty """
    return "empty=" + str(guarded(cfg.is_empty))


def o_bool(cfg):
    """ bool """
    return "bool=" + str(guarded(lambda: bool(cfg)))


def o_finite(cfg):
    """ is_finite """
    return "finite=" + str(guarded(cfg.is_finite))


def o_words(bound):
    """ get_words with a bound """
    def observe(cfg):
        return "words(%d)=" % bound + guarded(
            lambda: show_words(islice(cfg.get_words(bound), MAX_WORDS)))
    return observe


def o_all_words(cfg):
    """ get_words without bound, when the language is said to be finite """
    def get():
        if cfg.is_finite() is not True:
            return "skipped"
        return show_words(islice(cfg.get_words(), MAX_WORDS))
    return "words(-1)=" + guarded(get)


def o_normal(cfg):
    """ Summary of to_normal_form """
    def get():
        normal = cfg.to_normal_form()
        return "same=%s again=%s cnf=%s start=%s prods(%s)=%s vars=%s " \
               "ters=%s" % (
                   normal is cfg,
                   cfg.to_normal_form() is normal,
                   normal.is_normal_form(),
                   show_symbol(normal.start_symbol),
                   type(normal.productions).__name__,
                   show_productions(normal.productions),
                   show_symbols(normal.variables),
                   show_symbols(normal.terminals))
    return "normal: " + guarded(get)


def o_normal_queries(cfg):
    """ The same questions, asked to the normal form """
    def get():
        normal = cfg.to_normal_form()
        return " | ".join([o_empty(normal), o_finite(normal), o_gen(normal),
                           o_reach(normal), o_null(normal),
                           o_words(3)(normal), o_empty(normal)])
    return "on normal: " + guarded(get)


SEQUENCES = [
    ("A", [o_gen, o_null, o_reach, o_empty, o_finite, o_words(0),
           o_words(1), o_words(2), o_words(3), o_words(4), o_gen, o_empty]),
    ("B", [o_empty, o_empty, o_gen, o_empty, o_null, o_words(3), o_finite,
           o_reach, o_empty]),
    ("C", [o_finite, o_words(4), o_words(2), o_empty, o_gen, o_null,
           o_finite, o_normal, o_empty]),
    ("D", [o_words(1), o_empty, o_words(3), o_normal, o_finite, o_reach,
           o_null, o_gen, o_all_words, o_finite]),
    ("E", [o_bool, o_null, o_empty, o_normal, o_normal_queries, o_finite,
           o_words(5), o_gen, o_bool]),
    ("F", [o_normal, o_finite, o_empty, o_reach, o_words(2), o_finite]),
]


# --------------------------------------------------------------------------
# Grammars
# --------------------------------------------------------------------------

class Spec:
    """ What is needed to build the same CFG again and again """

    def __init__(self, name, productions, start="S", as_set=False,
                 variables=None, terminals=None):
        self.name = name
        self.productions = productions
        self.start = start
        self.as_set = as_set
        self.variables = variables
        self.terminals = terminals

    def build(self):
        """ A fresh CFG object """
        if self.as_set:
            productions = set(self.productions)
        else:
            productions = list(self.productions)
        variables = None if self.variables is None else set(self.variables)
        terminals = None if self.terminals is None else set(self.terminals)
        return CFG(variables=variables, terminals=terminals,
                   start_symbol=self.start, productions=productions)

    def describe(self):
        """ One line of description """
        return "%s start=%s %s vars=%s ters=%s : %s" % (
            self.name, self.start, "set" if self.as_set else "list",
            self.variables, self.terminals,
            " ; ".join(show_production(x) for x in self.productions))


def parse(text):
    """ Ordered productions of a text (capital first letter: variable, $:
    a raw epsilon symbol kept in the body) """
    res = []
    for line in text.split(";"):
        head, bodies = line.split("->")
        for body in bodies.split("|"):
            symbols = []
            raw = False
            for name in body.split():
                if name == "$":
                    symbols.append(Epsilon())
                    raw = True
                elif name[0].isupper():
                    symbols.append(Variable(name))
                else:
                    symbols.append(Terminal(name))
            res.append(Production(Variable(head.strip()), symbols,
                                  filtering=not raw))
    return res


FIXED = [
    "S -> a S b | a b",
    "S -> a S | a",
    "S -> A B ; A -> a ; B -> b",
    "S -> A A ; A -> a b",
    "S -> A S | c ; A -> a b",
    "S -> S A | c ; A -> a b",
    # a cycle-free non-leaf variable used several times by a cyclic head
    "S -> A S | A c ; A -> a b",
    "S -> A A | S c ; A -> a b",
    "S -> A B ; B -> A c | A B ; A -> a a",
    "S -> A A A ; A -> a b | b",
    "S -> A B A B ; A -> a a ; B -> A A | b",
    # CNF shaped, with and without useless symbols
    "S -> A S | a ; A -> a",
    "S -> A B ; A -> a ; B -> b ; C -> C C | c",
    "S -> A N | a ; A -> a ; N -> N N",
    "S -> A N | a ; A -> a ; N -> N A",
    "S -> S S",
    "S -> S S | a",
    "S -> a",
    "A -> a",
    "S -> A b ; A -> a ; C -> C C | c",
    # cycles through unit productions, order dependent searches
    "S -> Y X ; Y -> X z | a ; X -> Y",
    "S -> X Y ; Y -> X z | a ; X -> Y",
    "S -> A B ; A -> B a | C ; B -> A ; C -> c",
    "S -> A B | b ; A -> B a ; B -> A",
    "S -> A B ; A -> a ; B -> B b",
    "S -> A ; A -> B ; B -> S | b",
    "S -> A ; A -> B ; B -> S",
    # epsilon bodies
    "S -> | a S",
    "S -> A B ; A -> | a ; B -> | b",
    "S -> A A A ; A -> | a",
    "S -> A ; A -> ",
    # raw epsilon symbols
    "S -> $ X",
    "S -> $ X X",
    "S -> $ $ X X X",
    "S -> X $ ; X -> X a",
    "S -> $",
    "S -> $ a | $ S b",
    "S -> A $ B ; A -> a | $ ; B -> B b | $ C",
    "S -> A B ; A -> $ N ; B -> b ; N -> N N",
    "S -> a S | $ N ; N -> N",
    # a plain terminal that is called epsilon
    "S -> epsilon X",
    "S -> epsilon a | b S",
]


def fixed_specs():
    """ Hand-written grammars, in several production orders """
    res = []
    for idx, text in enumerate(FIXED):
        productions = parse(text)
        name = "fixed%02d" % idx
        res.append(Spec(name + "/list", productions))
        res.append(Spec(name + "/rev", productions[::-1]))
        res.append(Spec(name + "/set", productions, as_set=True))
        if len(productions) <= 4:
            for jdx, order in enumerate(permutations(productions)):
                if 0 < jdx < 23:
                    res.append(Spec("%s/perm%d" % (name, jdx), list(order)))
    res.append(Spec("empty/none", [], start=None))
    res.append(Spec("empty/S", []))
    res.append(Spec("empty/ter", [], start=None, terminals=["a"]))
    res.append(Spec("empty/var", [], variables=["A"], terminals=["a"]))
    res.append(Spec("nostart", parse("S -> a S | b"), start=None))
    res.append(Spec("otherstart", parse("S -> a S | b ; A -> A A"),
                    start="Q"))
    return res


def random_body(rng, heads, style):
    """ A random body, and whether a raw epsilon symbol is in it """
    if style == "cnf":
        if rng.random() < 0.5:
            return [rng.choice(heads), rng.choice(heads)], False
        return [rng.choice(TERMINALS)], False
    length = rng.choice([0, 1, 1, 1, 2, 2, 2, 2, 3, 3, 4])
    body = []
    for _ in range(length):
        if style == "units" and length == 1:
            body.append(rng.choice(heads))
        elif rng.random() < 0.55:
            body.append(rng.choice(heads))
        else:
            body.append(rng.choice(TERMINALS))
    if body and rng.random() < 0.3:
        # repeated symbol
        body[rng.randrange(len(body))] = body[0]
    raw = False
    if style == "raw" and rng.random() < 0.5:
        for _ in range(rng.choice([1, 1, 2])):
            body.insert(rng.randrange(len(body) + 1), Epsilon())
        raw = True
    if style == "raw" and rng.random() < 0.1:
        body.insert(rng.randrange(len(body) + 1), Terminal("epsilon"))
    return body, raw


def random_spec(rng, idx):
    """ A random small grammar """
    style = rng.choice(["plain", "plain", "plain", "cnf", "cnf", "units",
                        "raw", "raw"])
    nb_heads = rng.randint(1, 5)
    # the variables that may be used; some of them may never be a head
    heads = VARIABLES[:nb_heads]
    nb_productions = rng.randint(1, 9)
    productions = []
    for _ in range(nb_productions):
        if rng.random() < 0.8:
            head = rng.choice(heads[:max(1, nb_heads - 1)])
        else:
            head = rng.choice(heads)
        body, raw = random_body(rng, heads, style)
        productions.append(Production(head, body, filtering=not raw))
    if rng.random() < 0.25:
        # the same production twice
        productions.insert(rng.randrange(len(productions) + 1),
                           rng.choice(productions))
    as_set = rng.random() < 0.35
    variables = None
    terminals = None
    if rng.random() < 0.2:
        variables = ["S", "Z"]
        terminals = ["a", "z"]
    elif rng.random() < 0.1:
        terminals = ["z"]
    start = "S"
    toss = rng.random()
    if toss < 0.04:
        start = None
    elif toss < 0.08:
        start = "Q"
    elif toss < 0.2:
        start = str(rng.choice(heads).value)
    return Spec("rand%03d/%s" % (idx, style), productions, start=start,
                as_set=as_set, variables=variables, terminals=terminals)


def main():
    """ Prints all the observations """
    # optional arguments (other seed, other number of random grammars) for
    # longer runs; the reference run takes none
    seed = int(sys.argv[1]) if len(sys.argv) > 1 else SEED
    nb_random = int(sys.argv[2]) if len(sys.argv) > 2 else NB_RANDOM
    rng = random.Random(seed)
    specs = fixed_specs()
    specs += [random_spec(rng, idx) for idx in range(nb_random)]
    nb_lines = 0
    for spec in specs:
        print("== " + spec.describe())
        for name, sequence in SEQUENCES:
            cfg = spec.build()
            for observe in sequence:
                print("  %s %s" % (name, observe(cfg)))
                nb_lines += 1
    print("done: %d grammars, %d observations" % (len(specs), nb_lines))


if __name__ == "__main__":
    main()
    sys.exit(0)
