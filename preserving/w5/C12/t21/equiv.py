"""Differential fingerprint of the symbol classes / word enumeration of CFG.

Deterministic (fixed seed, run with PYTHONHASHSEED=0 and PYTHONPATH pointing at
the tree to fingerprint).  Builds a few hundred small random grammars - with
useless symbols, epsilon bodies, raw Epsilon() symbols (filtering=False),
Terminal("epsilon"), repeated symbols in a body, cycles, ambiguity, grammars
written in CNF shape, productions given as a set or as a list with duplicates,
extra unused variables / terminals, a start symbol without production - and
prints, canonically sorted, the results of

    get_generating_symbols, get_nullable_symbols, get_reachable_symbols,
    is_empty, is_finite, generate_epsilon, get_words(n) (n = 0, 1, 2, 3, 5 and
    unbounded, capped)

in several call orders on the same object (repeated calls included, and a
get_words generator abandoned half way).  Two trees are behaviourally
equivalent on this corpus when the outputs are byte-identical.

Usage: PYTHONHASHSEED=0 PYTHONPATH=<tree> python equiv.py > out.txt
"""
import itertools
import random
import sys

from pyformlang.cfg import CFG, Variable, Terminal, Production, Epsilon

# fixed corpus; "equiv.py <seed> <count>" fingerprints another one
SEED = int(sys.argv[1]) if len(sys.argv) > 1 else 20260927
N_RANDOM = int(sys.argv[2]) if len(sys.argv) > 2 else 420
VARS = ["S", "A", "B", "C", "D", "N"]
TERMS = ["a", "b", "c"]
RAW_EPS = "<eps>"          # stands for a raw Epsilon() object in a body
CAP = 300                  # cap of the unbounded enumeration


# --------------------------------------------------------------------------
# grammar specifications (pure data, so that each order gets a fresh object)
# --------------------------------------------------------------------------

def random_body(rng, variables, terminals, mode):
    if mode == "cnf":
        if rng.random() < 0.45:
            return [rng.choice(terminals)]
        if rng.random() < 0.35:
            var = rng.choice(variables)
            return [var, var]
        return [rng.choice(variables), rng.choice(variables)]
    if rng.random() < 0.15:
        return []
    length = rng.choice([1, 1, 2, 2, 2, 3, 3, 3, 4, 4, 5])
    body = []
    for _ in range(length):
        draw = rng.random()
        if body and draw < 0.30:
            body.append(rng.choice(body))        # a repeated symbol
        elif draw < 0.68:
            body.append(rng.choice(variables))
        else:
            body.append(rng.choice(terminals))
    return body


def random_spec(rng, idx):
    mode = rng.choice(["free", "free", "free", "cnf", "eps"])
    variables = ["S"] + rng.sample(VARS[1:], rng.randint(0, 4))
    terminals = rng.sample(TERMS, rng.randint(1, 3))
    rules = []
    for _ in range(rng.randint(1, 9)):
        head = rng.choice(variables)
        body = random_body(rng, variables, terminals, mode)
        if mode == "eps" or (mode == "free" and rng.random() < 0.08):
            draw = rng.random()
            if draw < 0.55:
                for _ in range(rng.choice([1, 1, 2])):
                    body.insert(rng.randint(0, len(body)), RAW_EPS)
            elif draw < 0.75:
                body.insert(rng.randint(0, len(body)), "epsilon")
        rules.append((head, body))
    if rng.random() < 0.6:
        # make a good share of the variables generating
        for var in variables:
            if rng.random() < 0.6:
                rules.append((var, [rng.choice(terminals)]))
    if mode == "cnf" and rng.random() < 0.5:
        # a useless recursive variable next to CNF-shaped productions
        extra = rng.choice(["N", "D"])
        rules.append((extra, [extra, extra]))
        if rng.random() < 0.5:
            rules.append((extra, [rng.choice(terminals)]))
        if rng.random() < 0.5:
            rules.append(("S", [rng.choice(variables), extra]))
    if rng.random() < 0.15:
        rules.append(rng.choice(rules))           # a duplicate production
    start = "S"
    draw = rng.random()
    if draw < 0.04:
        start = "Z"                               # no production at all
    elif draw < 0.06:
        start = None
    extra_vars = ["U"] if rng.random() < 0.10 else []
    extra_terms = ["u"] if rng.random() < 0.10 else []
    if rng.random() < 0.03:
        extra_terms.append(RAW_EPS)
    return {"name": "r%03d" % idx,
            "rules": rules,
            "start": start,
            "as_list": rng.random() < 0.4,
            "extra_vars": extra_vars,
            "extra_terms": extra_terms}


def fixed_specs():
    grammars = [
        [("S", ["a", "S", "b"]), ("S", [])],
        [("S", ["A", "B"]), ("A", ["a"]), ("B", ["b"])],
        [("S", ["A", "A"]), ("A", [])],
        [("S", ["A", "N"]), ("A", ["a"]), ("N", ["N", "a"])],
        [("S", ["A", "b", "A"]), ("A", []), ("A", ["a"])],
        [("S", ["A", "N", "A"]), ("A", ["a"]), ("N", ["N", "a"])],
        [("S", ["T"]), ("S", ["T", "c"]), ("T", ["A", "N", "A"]),
         ("A", ["a"]), ("N", ["a", "N"])],
        [("S", ["a", "N", "a"]), ("N", ["N"])],
        [("S", ["A", "A", "A"]), ("A", ["a"]), ("A", [])],
        [("S", ["S", "S"]), ("S", ["a"])],
        [("S", ["S", "S"])],
        [("S", ["a"]), ("N", ["N", "N"])],
        [("S", ["A", "N"]), ("S", ["a"]), ("A", ["a"]), ("N", ["N", "N"])],
        [("S", ["A", "B"]), ("A", ["a"]), ("B", ["b"]),
         ("C", ["C", "C"]), ("C", ["c"])],
        [("S", ["A", "S"]), ("S", ["a"]), ("A", ["a"])],
        [("S", ["A", "B"]), ("S", ["C", "D"]), ("A", ["a"]), ("B", ["b"]),
         ("C", ["a"]), ("D", ["b"]), ("D", ["d"])],
        [("S", ["a", "S"]), ("S", ["S", "a"]), ("S", ["a"])],
        [("S", ["T", "c"]), ("T", ["A", "B"]), ("T", ["C", "D"]),
         ("A", ["a"]), ("B", ["b"]), ("C", ["a"]), ("D", ["b"])],
        [("S", ["i", "S"]), ("S", ["i", "S", "e", "S"]), ("S", ["x"])],
        [("S", ["A", "A"]), ("A", ["a"]), ("A", ["a", "a"])],
        # raw epsilons
        [("S", [RAW_EPS])],
        [("S", [RAW_EPS, "N"]), ("N", ["N", "a"])],
        [("S", [RAW_EPS, "N", "N", "N"]), ("N", ["N", "a"])],
        [("S", [RAW_EPS, RAW_EPS, "N", "N"]), ("N", ["N", "a"])],
        [("S", [RAW_EPS, "A"]), ("A", ["a"]), ("A", [])],
        [("S", ["A", RAW_EPS, "b", "A"]), ("A", [RAW_EPS]), ("A", ["a"])],
        [("S", ["epsilon", "N"]), ("N", ["N", "a"])],
        [("S", ["epsilon", "a"]), ("S", ["S", "S"])],
        [("S", ["A", "B"]), ("A", [RAW_EPS]), ("B", ["b"])],
        [("S", ["A", "B"]), ("A", ["epsilon"]), ("B", ["b"])],
    ]
    specs = []
    for idx, rules in enumerate(grammars):
        for as_list in (False, True):
            specs.append({"name": "f%02d%s" % (idx, "l" if as_list else "s"),
                          "rules": rules, "start": "S", "as_list": as_list,
                          "extra_vars": [], "extra_terms": []})
    return specs


def to_symbol(name):
    if name == RAW_EPS:
        return Epsilon()
    if name[0].isupper():
        return Variable(name)
    return Terminal(name)


def build(spec):
    """A fresh CFG (fresh symbol and production objects) from the spec."""
    productions = []
    for head, body in spec["rules"]:
        symbols = [to_symbol(x) for x in body]
        if RAW_EPS in body:
            productions.append(Production(Variable(head), symbols,
                                          filtering=False))
        else:
            productions.append(Production(Variable(head), symbols))
    if not spec["as_list"]:
        productions = set(productions)
    variables = {Variable(x) for x in spec["extra_vars"]} or None
    terminals = {to_symbol(x) for x in spec["extra_terms"]} or None
    return CFG(variables=variables, terminals=terminals,
               start_symbol=spec["start"], productions=productions)


# --------------------------------------------------------------------------
# canonical rendering
# --------------------------------------------------------------------------

def show_symbols(symbols):
    return "{" + ", ".join(sorted(
        "%s:%r" % (type(x).__name__, getattr(x, "value", x))
        for x in symbols)) + "}"


def show_words(words):
    rendered = []
    for word in words:
        assert isinstance(word, list)
        rendered.append(" ".join("%s:%r" % (type(x).__name__, x.value)
                                 for x in word))
    return "[" + " | ".join(sorted(rendered)) + "]"


def op_words(bound):
    return lambda cfg: show_words(list(cfg.get_words(bound)))


def op_all_words(cfg):
    if not cfg.is_finite():
        return "skipped"
    words = list(itertools.islice(cfg.get_words(), CAP))
    if len(words) >= CAP:
        return "many"
    return show_words(words)


def op_abandoned(cfg):
    generator = cfg.get_words(5)
    taken = list(itertools.islice(generator, 2))
    generator.close()
    return str(len(taken))


OPS = {
    "gen": lambda cfg: show_symbols(cfg.get_generating_symbols()),
    "null": lambda cfg: show_symbols(cfg.get_nullable_symbols()),
    "reach": lambda cfg: show_symbols(cfg.get_reachable_symbols()),
    "empty": lambda cfg: str(cfg.is_empty()),
    "finite": lambda cfg: str(cfg.is_finite()),
    "eps": lambda cfg: str(cfg.generate_epsilon()),
    "w0": op_words(0),
    "w1": op_words(1),
    "w2": op_words(2),
    "w3": op_words(3),
    "w5": op_words(5),
    "wall": op_all_words,
    "wcut": op_abandoned,
}

ORDERS = [
    ["gen", "null", "reach", "empty", "finite", "eps", "w0", "w2", "w5",
     "gen", "null"],
    ["null", "gen", "w3", "finite", "empty", "reach", "w3", "eps", "null"],
    ["w5", "finite", "null", "gen", "empty", "w1"],
    ["finite", "w1", "wall", "reach", "gen", "null", "finite"],
    ["empty", "eps", "null", "eps", "gen", "w2", "finite", "wall"],
    ["wcut", "gen", "null", "w3", "wcut", "empty", "reach"],
    ["reach", "w0", "gen", "gen", "null", "null", "finite", "w2"],
]


def run(spec, out):
    out.write("== %s start=%r list=%r extra=%r/%r\n" % (
        spec["name"], spec["start"], spec["as_list"], spec["extra_vars"],
        spec["extra_terms"]))
    for head, body in spec["rules"]:
        out.write("   %s -> %s\n" % (head, " ".join(body)))
    for number, order in enumerate(ORDERS):
        cfg = build(spec)
        for name in order:
            try:
                result = OPS[name](cfg)
            except Exception as exc:  # pylint: disable=broad-except
                result = "raised " + type(exc).__name__
            out.write("  o%d %-6s %s\n" % (number, name, result))


def main():
    rng = random.Random(SEED)
    specs = fixed_specs()
    specs += [random_spec(rng, idx) for idx in range(N_RANDOM)]
    for spec in specs:
        run(spec, sys.stdout)
    sys.stdout.write("grammars: %d\n" % len(specs))
    return 0


if __name__ == "__main__":
    sys.exit(main())
