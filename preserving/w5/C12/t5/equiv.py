"""Equivalence harness for the CFG symbol-class / emptiness / finiteness /
word-enumeration functions of pyformlang/cfg/cfg.py.

Run as:
    PYTHONHASHSEED=0 PYTHONPATH=<tree> python equiv.py > out.txt

It builds a few hundred small random grammars from a fixed seed (useless
symbols, epsilon bodies, repeated symbols, cycles, empty languages, missing
start symbol productions) and prints, canonically sorted, the result of
get_generating_symbols, get_nullable_symbols, get_reachable_symbols,
is_empty, bool(), is_finite and get_words for several bounds.  Every grammar
is queried through several call sequences (fresh object, cached object, the
functions in different orders, partially consumed generators) and the
instance dictionary is inspected so that a new side effect on the grammar
object shows up in the output.  The output must be byte-identical on two
behaviourally equal trees.
"""
import itertools
import random
import sys

from pyformlang.cfg import CFG, Production, Variable, Terminal, Epsilon

SEED = 20260927
N_RANDOM = 360
BOUNDS = [0, 1, 2, 3, 4, 5]
UNBOUNDED_CAP = 400  # safety cap for the unbounded enumeration


def sym_key(symbol):
    return (type(symbol).__name__, repr(symbol.value))


def fmt_symbols(symbols):
    return "[" + ", ".join("%s:%s" % sym_key(x)
                           for x in sorted(symbols, key=sym_key)) + "]"


def fmt_word(word):
    # the harness only records the behaviour, it does not judge it: the type
    # of the word and of a letter that is not a terminal are made visible
    prefix = "" if isinstance(word, list) else type(word).__name__
    return prefix + "(" + " ".join(
        str(x.value) if isinstance(x, Terminal)
        else "%s:%s" % sym_key(x) for x in word) + ")"


def fmt_words(words):
    # sorted but duplicates are kept: "exactly once" is observable
    return "{" + " ".join(sorted(fmt_word(x) for x in words)) + "}"


def fmt_state(cfg):
    """The observable instance state: attribute names and the caches"""
    state = vars(cfg)
    res = ["attrs=" + ",".join(sorted(state))]
    for name in ("_generating_symbols", "_nullable_symbols",
                 "_added_impacts"):
        value = state.get(name)
        res.append(name + "=" + ("None" if value is None
                                 else fmt_symbols(value)))
    remaining = state.get("_remaining_lists")
    if remaining is None:
        res.append("_remaining_lists=None")
    else:
        res.append("_remaining_lists=" + ";".join(
            "%s:%s=%s" % (sym_key(k) + (sorted(v),))
            for k, v in sorted(remaining.items(),
                               key=lambda kv: sym_key(kv[0]))))
    impacts = state.get("_impacts")
    if impacts is None:
        res.append("_impacts=None")
    else:
        res.append("_impacts=" + ";".join(
            "%s:%s=%s" % (sym_key(k) + (sorted(
                (sym_key(h), i) for h, i in v),))
            for k, v in sorted(impacts.items(),
                               key=lambda kv: sym_key(kv[0]))))
    res.append("normal_form_cached=" + str(state.get("_normal_form")
                                           is not None))
    res.append("n_var=%d n_ter=%d n_prod=%d start=%s" % (
        len(cfg.variables), len(cfg.terminals), len(cfg.productions),
        cfg.start_symbol))
    return " | ".join(res)


def random_grammar(rnd):
    n_var = rnd.randint(1, 5)
    n_ter = rnd.randint(0, 3)
    variables = [Variable("V%d" % i) for i in range(n_var)]
    terminals = [Terminal("abc"[i]) for i in range(n_ter)]
    shape = rnd.random()
    productions = []
    n_prod = rnd.randint(0, 9)
    for _ in range(n_prod):
        head = rnd.choice(variables)
        kind = rnd.random()
        if kind < 0.18:
            body = []
        elif kind < 0.26:
            body = [Epsilon()]
        else:
            length = rnd.choice([1, 1, 2, 2, 2, 3, 4])
            body = []
            for _ in range(length):
                roll = rnd.random()
                if terminals and roll < (0.55 if shape < 0.5 else 0.35):
                    body.append(rnd.choice(terminals))
                elif roll < 0.93:
                    body.append(rnd.choice(variables))
                else:
                    body.append(Epsilon())
            if rnd.random() < 0.2 and body:
                # repeated symbols
                body = body + [body[0]] if rnd.random() < 0.5 \
                    else [body[-1]] * len(body)
        productions.append((head, body))
    extra_vars = set(variables[:rnd.randint(0, n_var)])
    extra_ters = set(terminals[:rnd.randint(0, n_ter)]) if terminals \
        else set()
    if rnd.random() < 0.15:
        extra_vars.add(Variable("Lonely"))
    if rnd.random() < 0.15:
        extra_ters.add(Terminal("z"))
    start = variables[0] if rnd.random() < 0.9 else Variable("Nowhere")
    return extra_vars, extra_ters, start, productions


def hand_written():
    var = {x: Variable(x) for x in "SABCDE"}
    ter = {x: Terminal(x) for x in "abc"}

    def prods(text):
        res = []
        for line in text.split(";"):
            head, body = line.split(">")
            res.append((var[head.strip()],
                        [var[x] if x in var else ter[x]
                         for x in body.strip()]))
        return res
    yield set(), set(), var["S"], []
    yield set(), set(), var["S"], prods("S>")
    yield set(), set(), var["S"], prods("S>a")
    yield set(), set(), var["S"], prods("S>SS;S>a;S>")
    yield set(), set(), var["S"], prods("S>aSb;S>")
    yield set(), set(), var["S"], prods("S>AB;A>aA;A>;B>bB;B>b")
    yield set(), set(), var["S"], prods("S>A;A>B;B>S;B>a")
    yield set(), set(), var["S"], prods("S>AA;A>BB;B>ab;B>")
    yield set(), set(), var["S"], prods("S>AB;A>a;B>BC;C>c")
    yield set(), set(), var["S"], prods("S>a;A>AA;A>b;D>E;E>D")
    yield set(), set(), var["S"], prods("S>AS;S>b;A>;A>A")
    yield set(), set(), var["S"], prods("S>ABC;A>a;A>;B>b;B>;C>c;C>")
    yield set(), set(), var["S"], prods("S>aa;S>aa;S>A;A>aa")
    yield {var["D"]}, {ter["c"]}, var["S"], prods("S>AAAA;A>a;A>b")


def build(spec):
    variables, terminals, start, productions = spec
    return CFG(set(variables), set(terminals), start,
               {Production(head, list(body)) for head, body in productions})


def words_line(cfg, bound, label):
    words = list(cfg.get_words(bound))
    return "%s words(%d)=%s" % (label, bound, fmt_words(words))


def unbounded_line(cfg, label):
    words = list(itertools.islice(cfg.get_words(), UNBOUNDED_CAP))
    res = "%s words(-1)=%s" % (label, fmt_words(words))
    words = list(itertools.islice(cfg.get_words(-1), UNBOUNDED_CAP))
    return res + " explicit=" + fmt_words(words)


def report(idx, spec, out):
    out.append("=== grammar %d: start=%s productions=%s" % (
        idx, spec[2], sorted(
            "%s->%s" % (h.value, ".".join(
                "%s:%s" % sym_key(x) if not isinstance(x, Epsilon)
                else "eps" for x in b)) for h, b in spec[3])))
    # sequence A: fresh object, symbol classes first, everything twice
    cfg = build(spec)
    out.append("A state0 " + fmt_state(cfg))
    for turn in range(2):
        out.append("A%d generating=%s" % (
            turn, fmt_symbols(cfg.get_generating_symbols())))
        out.append("A%d nullable=%s" % (
            turn, fmt_symbols(cfg.get_nullable_symbols())))
        out.append("A%d reachable=%s" % (
            turn, fmt_symbols(cfg.get_reachable_symbols())))
        out.append("A%d empty=%s bool=%s" % (
            turn, cfg.is_empty(), bool(cfg)))
        out.append("A%d state " % turn + fmt_state(cfg))
    finite = cfg.is_finite()
    out.append("A finite=%s" % finite)
    out.append("A state1 " + fmt_state(cfg))
    for bound in BOUNDS:
        out.append(words_line(cfg, bound, "A"))
    if finite:
        out.append(unbounded_line(cfg, "A"))
    out.append("A state2 " + fmt_state(cfg))
    out.append("A generating=%s nullable=%s reachable=%s" % (
        fmt_symbols(cfg.get_generating_symbols()),
        fmt_symbols(cfg.get_nullable_symbols()),
        fmt_symbols(cfg.get_reachable_symbols())))
    # the returned sets are the cached objects
    out.append("A same_cache=%s %s" % (
        cfg.get_generating_symbols() is cfg.get_generating_symbols(),
        cfg.get_nullable_symbols() is cfg.get_nullable_symbols()))
    out.append("A fresh_reachable=%s" % (
        cfg.get_reachable_symbols() is not cfg.get_reachable_symbols()))

    # sequence B: fresh object, words first (largest bound first)
    cfg = build(spec)
    for bound in reversed(BOUNDS):
        out.append(words_line(cfg, bound, "B"))
    out.append("B state " + fmt_state(cfg))
    out.append("B finite=%s empty=%s bool=%s" % (
        cfg.is_finite(), cfg.is_empty(), bool(cfg)))
    out.append("B nullable=%s generating=%s reachable=%s" % (
        fmt_symbols(cfg.get_nullable_symbols()),
        fmt_symbols(cfg.get_generating_symbols()),
        fmt_symbols(cfg.get_reachable_symbols())))
    out.append("B state " + fmt_state(cfg))

    # sequence C: fresh object, finiteness first, nullable before generating
    cfg = build(spec)
    out.append("C finite=%s" % cfg.is_finite())
    out.append("C state " + fmt_state(cfg))
    out.append("C bool=%s empty=%s" % (bool(cfg), cfg.is_empty()))
    out.append("C nullable=%s" % fmt_symbols(cfg.get_nullable_symbols()))
    out.append("C state " + fmt_state(cfg))
    out.append("C reachable=%s" % fmt_symbols(cfg.get_reachable_symbols()))
    out.append("C generating=%s" % fmt_symbols(cfg.get_generating_symbols()))
    out.append("C state " + fmt_state(cfg))

    # sequence D: lazily / partially consumed and interleaved generators
    cfg = build(spec)
    gen = cfg.get_words(4)
    out.append("D state-before-next " + fmt_state(cfg))
    first = list(itertools.islice(gen, 2))
    out.append("D first=%s" % fmt_words(first))
    out.append("D state-after-next " + fmt_state(cfg))
    other = cfg.get_words(3)
    inter = []
    for left, right in itertools.zip_longest(gen, other):
        if left is not None:
            inter.append(left)
        if right is not None:
            inter.append(right)
    out.append("D interleaved=%s" % fmt_words(inter))
    gen = cfg.get_words(5)
    next(gen, None)
    gen.close()
    out.append("D after-close " + words_line(cfg, 2, "D"))
    # a yielded word may be altered by the caller: later words unchanged?
    mutated = []
    for word in cfg.get_words(4):
        mutated.append(list(word))
        word.append(Terminal("MUT"))
    out.append("D mutated=%s" % fmt_words(mutated))
    out.append("D state " + fmt_state(cfg))

    # sequence E: the normal form is queried too (it is a cached CFG)
    cfg = build(spec)
    normal = cfg.to_normal_form()
    out.append("E normal generating=%s nullable=%s reachable=%s" % (
        fmt_symbols(normal.get_generating_symbols()),
        fmt_symbols(normal.get_nullable_symbols()),
        fmt_symbols(normal.get_reachable_symbols())))
    out.append("E normal empty=%s finite=%s words(3)=%s" % (
        normal.is_empty(), normal.is_finite(),
        fmt_words(normal.get_words(3))))
    out.append("E normal state " + fmt_state(normal))
    out.append("E words(3)=%s finite=%s" % (
        fmt_words(cfg.get_words(3)), cfg.is_finite()))


def main():
    rnd = random.Random(SEED)
    specs = list(hand_written())
    specs += [random_grammar(rnd) for _ in range(N_RANDOM)]
    out = []
    for idx, spec in enumerate(specs):
        report(idx, spec, out)
    # a grammar without start symbol
    cfg = CFG(productions={Production(Variable("S"), [Terminal("a")])})
    out.append("nostart generating=%s nullable=%s reachable=%s empty=%s" % (
        fmt_symbols(cfg.get_generating_symbols()),
        fmt_symbols(cfg.get_nullable_symbols()),
        fmt_symbols(x for x in cfg.get_reachable_symbols()
                    if x is not None),
        cfg.is_empty()))
    out.append("n_grammars=%d n_lines=%d" % (len(specs), len(out)))
    sys.stdout.write("\n".join(out) + "\n")
    return 0


if __name__ == "__main__":
    sys.exit(main())
