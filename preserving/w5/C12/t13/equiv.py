"""Differential harness: prints, canonically sorted, what the symbol-class
functions, is_empty, is_finite, membership and get_words answer on a few
hundred small random grammars, in several call orders on the same object.

Run with PYTHONPATH pointing at the tree under test and PYTHONHASHSEED=0;
the output must be byte-identical on the pristine and on the patched tree.
Everything that is printed is sorted / canonicalised, so the output does not
depend on the iteration order of sets.
"""
import random
import sys

from pyformlang.cfg import CFG, Production, Variable, Terminal, Epsilon

SEED = 20260927
N_GRAMMARS = 360
N_ORDERS = 4          # call sequences tried on each grammar (fresh object each)
N_CALLS = 12          # calls per sequence

VARS = ["S", "A", "B", "C", "D"]
TERS = ["a", "b", "c"]


# ------------------------------------------------------------ rendering
def show_symbol(symbol):
    if symbol is None:
        return "None"
    if isinstance(symbol, Epsilon):
        return "E:eps"
    if isinstance(symbol, Variable):
        return "V:" + str(symbol.value)
    if isinstance(symbol, Terminal):
        return "T:" + str(symbol.value)
    return "?:" + repr(symbol)


def show_set(symbols):
    return "{" + " ".join(sorted(show_symbol(x) for x in symbols)) + "}"


def show_word(word):
    return "(" + ",".join(show_symbol(x) for x in word) + ")"


def show_words(words):
    """ Sorted, with multiplicities (a word yielded twice shows up twice) """
    words = sorted((len(w), show_word(w)) for w in words)
    return "[" + " ".join(w for _, w in words) + "]"


# ------------------------------------------------------------ generation
def make_symbol(name):
    if name == "eps":
        return Epsilon()
    if name == "epsT":
        return Terminal("epsilon")      # compares equal to Epsilon()
    if name[0].isupper():
        return Variable(name)
    return Terminal(name)


def random_rules(rnd):
    """ list of (head name, [symbol names], filtering) """
    style = rnd.choice(["plain", "plain", "repeat", "eps", "raw_eps",
                        "cyclic", "ambiguous", "useless", "mixed", "mixed"])
    n_vars = rnd.randint(1, len(VARS))
    variables = VARS[:n_vars]
    terminals = TERS[:rnd.randint(1, len(TERS))]
    rules = []
    for _ in range(rnd.randint(1, 7)):
        head = rnd.choice(variables)
        length = rnd.choice([0, 1, 1, 2, 2, 3, 4])
        body = [rnd.choice(variables + terminals) for _ in range(length)]
        filtering = True
        if style in ("repeat", "mixed") and body and rnd.random() < 0.6:
            # a symbol occurring several times, next to other symbols
            dup = rnd.choice(body)
            for _ in range(rnd.randint(1, 2)):
                body.insert(rnd.randint(0, len(body)), dup)
        if style in ("eps", "mixed") and rnd.random() < 0.35:
            body = []
        if style in ("raw_eps", "mixed") and rnd.random() < 0.5:
            for _ in range(rnd.randint(1, 2)):
                body.insert(rnd.randint(0, len(body)),
                            "eps" if rnd.random() < 0.85 else "epsT")
            filtering = rnd.random() < 0.25
        if style == "cyclic" and rnd.random() < 0.5:
            body = [rnd.choice(variables)] if rnd.random() < 0.5 \
                else [head] + body[:2]
        rules.append((head, body[:5], filtering))
    if style == "ambiguous":
        head = rnd.choice(variables)
        ter = rnd.choice(terminals)
        rules += [(head, [head, head], True), (head, [ter], True),
                  (head, [head, ter, head], True)]
    if style == "useless":
        # never generating, and unreachable but generating
        rules += [("S", ["A", "X"], True), ("X", ["X", "a"], True),
                  ("Y", ["a"], True), ("Y", ["Y", "Y"], True),
                  ("S", ["X", "X", "a"], True)]
    return rules


def build(rules, shape):
    """ A fresh grammar; shape selects how it is handed to the constructor """
    productions = [Production(make_symbol(h), [make_symbol(x) for x in b],
                              filtering=f)
                   for h, b, f in rules]
    start, container, extra = shape
    kwargs = {}
    if start is not None:
        kwargs["start_symbol"] = Variable(start)
    if extra:
        kwargs["variables"] = {Variable("Z"), Variable("S")}
        kwargs["terminals"] = {Terminal("z"), Terminal("a")}
    if container == "set":
        kwargs["productions"] = set(productions)
    else:
        kwargs["productions"] = list(productions)   # keeps duplicates
    return CFG(**kwargs)


# ------------------------------------------------------------ operations
def guarded(function):
    """ The library is also compared on what it raises """
    try:
        return function()
    except RecursionError:
        return "!RecursionError"
    except Exception as exc:  # pylint: disable=broad-except
        return "!" + type(exc).__name__


def words_op(bound):
    return lambda cfg: show_words(list(cfg.get_words(bound)))


def contains_op(word):
    return lambda cfg: str(cfg.contains(word))


OPS = {
    "gen": lambda cfg: show_set(cfg.get_generating_symbols()),
    "nul": lambda cfg: show_set(cfg.get_nullable_symbols()),
    "rea": lambda cfg: show_set(cfg.get_reachable_symbols()),
    "emp": lambda cfg: str(cfg.is_empty()),
    "bool": lambda cfg: str(bool(cfg)),
    "fin": lambda cfg: str(cfg.is_finite()),
    "eps": lambda cfg: str(cfg.generate_epsilon()),
    "w0": words_op(0),
    "w1": words_op(1),
    "w2": words_op(2),
    "w3": words_op(3),
    "w4": words_op(4),
    "in[]": contains_op([]),
    "in[a]": contains_op(["a"]),
    "in[ab]": contains_op(["a", "b"]),
    "in[aa]": contains_op(["a", "a"]),
    "cnf": lambda cfg: str(cfg.to_normal_form().is_normal_form()),
    "useless": lambda cfg: show_set(
        cfg.remove_useless_symbols().variables),
}
OP_NAMES = sorted(OPS)
# fixed sequences that every grammar goes through, then random ones
FIXED_ORDERS = [
    ["gen", "nul", "rea", "emp", "fin", "w0", "w1", "w2", "w3", "w4",
     "gen", "nul", "rea", "emp", "fin"],
    ["w3", "emp", "rea", "rea", "gen", "nul", "fin", "emp", "w2", "rea"],
    ["rea", "rea", "fin", "rea", "emp", "nul", "gen", "w4", "emp", "bool"],
    ["in[a]", "emp", "rea", "in[]", "eps", "nul", "gen", "w1", "rea", "emp"],
    ["cnf", "emp", "bool", "rea", "gen", "nul", "useless", "rea", "w2"],
]


def run_sequence(cfg, names):
    return ["%s=%s" % (name, guarded(lambda n=name: OPS[n](cfg)))
            for name in names]


def main():
    # optional arguments (not needed for the deliverable run): seed, count
    seed = int(sys.argv[1]) if len(sys.argv) > 1 else SEED
    count = int(sys.argv[2]) if len(sys.argv) > 2 else N_GRAMMARS
    rnd = random.Random(seed)
    out = []
    for number in range(count):
        rules = random_rules(rnd)
        shape = (rnd.choice(["S", "S", "S", "S", "A", None]),
                 rnd.choice(["set", "set", "list"]),
                 rnd.random() < 0.2)
        out.append("# %d start=%s %s extra=%s" % ((number,) + shape))
        for head, body, filtering in rules:
            out.append("#   %s -> %s%s" % (head, " ".join(body),
                                           "" if filtering else "   (raw)"))
        orders = list(FIXED_ORDERS)
        for _ in range(N_ORDERS):
            orders.append([rnd.choice(OP_NAMES) for _ in range(N_CALLS)])
        for order in orders:
            cfg = build(rules, shape)
            out.append("  " + " ; ".join(run_sequence(cfg, order)))
    sys.stdout.write("\n".join(out) + "\n")
    return 0


if __name__ == "__main__":
    sys.exit(main())
