""" Differential fingerprint of the symbol analyses and of get_words of CFG.

Run with PYTHONPATH pointing at the tree to fingerprint and PYTHONHASHSEED=0:

    PYTHONHASHSEED=0 PYTHONPATH=<tree> python equiv.py > out.txt

The output only depends on the behaviour of the library (fixed random seed,
every set / every list of words is printed canonically sorted, duplicates of
get_words are kept), so two trees behave the same on these grammars exactly
when the two outputs are byte-identical.  Always exits 0.

Grammars: a few hundred small random grammars (useless and unreachable
symbols, declared-but-unused symbols, empty bodies, raw Epsilon() objects
kept in the bodies through Production(..., filtering=False), a terminal
called "epsilon", repeated symbols, cycles, unit cycles, ambiguity) plus
hand-written families (ambiguity across two bodies of one head, words whose
length is exactly twice the longest shorter word, doubling chains, epsilon
written in the three possible ways).

Every grammar is queried through several call orders, each order on ONE
object (caches are shared by the calls of an order), with the productions
given as a list and as a set, and finally all the orders in a row on one
more object.
"""
import itertools
import random
import sys

from pyformlang.cfg import CFG, Production, Variable, Terminal, Epsilon

SEED = 20260927
N_RANDOM = 320
CAP = 3000   # at most that many words are read from an unbounded get_words

EPS = Epsilon()


# --------------------------------------------------------------- printing

def sym(obj):
    """ Canonical text of a symbol (the class matters: Epsilon is a
    Terminal whose value is "epsilon") """
    if isinstance(obj, Epsilon):
        return "E:epsilon"
    if isinstance(obj, Terminal):
        return "T:" + str(obj.value)
    if isinstance(obj, Variable):
        return "V:" + str(obj.value)
    return "?:" + repr(obj)


def fmt_set(symbols):
    return "{" + " ".join(sorted(sym(x) for x in symbols)) + "}"


def fmt_word(word):
    return "<" + ".".join(sym(x) for x in word) + ">"


def fmt_words(words):
    """ Sorted by length then text; duplicates are kept """
    texts = sorted((len(w), fmt_word(w)) for w in words)
    return "%d[%s]" % (len(texts), " ".join(t for _, t in texts))


def guarded(fun):
    """ The text of fun(), or of the exception it raises """
    try:
        return fun()
    except RecursionError:
        return "EXC:RecursionError"
    except Exception as exc:  # pylint: disable=broad-except
        return "EXC:" + type(exc).__name__


# ------------------------------------------------------------ the queries

def q_gen(cfg):
    return "gen=" + guarded(lambda: fmt_set(cfg.get_generating_symbols()))


def q_null(cfg):
    return "null=" + guarded(lambda: fmt_set(cfg.get_nullable_symbols()))


def q_reach(cfg):
    return "reach=" + guarded(lambda: fmt_set(cfg.get_reachable_symbols()))


def q_empty(cfg):
    return "empty=" + guarded(lambda: str(cfg.is_empty()))


def q_finite(cfg):
    return "finite=" + guarded(lambda: str(cfg.is_finite()))


def q_words(bound):
    def query(cfg):
        return "words(%d)=" % bound + guarded(
            lambda: fmt_words(list(cfg.get_words(bound))))
    return query


def q_words_unbounded(cfg):
    """ get_words() without bound, on the finite languages only """
    def run():
        if cfg.is_finite() is not True:
            return "skipped"
        words = list(itertools.islice(cfg.get_words(), CAP))
        if len(words) == CAP:
            return "capped"
        return fmt_words(words)
    return "words(-1)=" + guarded(run)


def q_words_interleaved(bound, first):
    """ The analyses are asked while an enumeration is suspended """
    def query(cfg):
        def run():
            gen = cfg.get_words(bound)
            words = list(itertools.islice(gen, first))
            middle = [q_gen(cfg), q_null(cfg), q_empty(cfg)]
            other = fmt_words(list(cfg.get_words(max(bound - 1, 0))))
            words += list(gen)
            return "%s | %s | %s" % (fmt_words(words), " ".join(middle),
                                     other)
        return "words(%d)/%d=" % (bound, first) + guarded(run)
    return query


ORDERS = [
    ("A", [q_gen, q_null, q_reach, q_empty, q_finite, q_words(0),
           q_words(1), q_words(3), q_words(5), q_null, q_gen, q_reach]),
    ("B", [q_words(4), q_finite, q_null, q_gen, q_words(2),
           q_words_unbounded, q_empty, q_words(4)]),
    ("C", [q_null, q_words(0), q_null, q_gen, q_empty, q_reach, q_words(6),
           q_gen, q_null]),
    ("D", [q_empty, q_words_interleaved(5, 2), q_null, q_gen,
           q_words_interleaved(3, 1), q_finite, q_words_unbounded]),
    ("E", [q_finite, q_words_unbounded, q_words(7), q_gen, q_null,
           q_words(1), q_words(0)]),
]


# ----------------------------------------------------------- the grammars

def var(name):
    return Variable(name)


def ter(name):
    return Terminal(name)


def random_grammar(rnd):
    """ (variables, terminals, start, productions) """
    n_var = rnd.randint(1, 5)
    n_ter = rnd.randint(1, 3)
    variables = [var(x) for x in "SABCD"[:n_var]]
    terminals = [ter(x) for x in "abc"[:n_ter]]
    raw_rate = rnd.choice([0, 0, 0.15, 0.4])
    eps_rate = rnd.choice([0, 0.1, 0.3])
    empty_rate = rnd.choice([0.05, 0.2, 0.4])
    ter_rate = rnd.choice([0.3, 0.5, 0.7])
    if rnd.random() < 0.08:
        terminals.append(ter("epsilon"))   # equal to Epsilon()
    productions = []
    for _ in range(rnd.randint(1, 9)):
        head = rnd.choice(variables)
        if rnd.random() < empty_rate:
            length = 0
        else:
            length = rnd.choice([1, 1, 2, 2, 2, 3, 3, 4])
        body = []
        for _ in range(length):
            if body and rnd.random() < 0.2:
                body.append(rnd.choice(body))        # repeated symbol
            elif rnd.random() < eps_rate:
                body.append(EPS)
            elif rnd.random() < ter_rate:
                body.append(rnd.choice(terminals))
            else:
                body.append(rnd.choice(variables))
        raw = rnd.random() < raw_rate
        productions.append(Production(head, body, filtering=not raw))
    declared_var = set()
    declared_ter = set()
    if rnd.random() < 0.3:
        declared_var = set(variables) | {var("U")}    # unused symbols
    if rnd.random() < 0.3:
        declared_ter = set(terminals) | {ter("u")}
    start = rnd.choice([var("S"), var("S"), var("S"), rnd.choice(variables)])
    if rnd.random() < 0.03:
        start = None
    return declared_var, declared_ter, start, productions


def from_lines(text, raw=False):
    """ Productions from lines "H -> x Y $ | ..." ($ is Epsilon()) """
    productions = []
    for line in text.strip().splitlines():
        head, bodies = line.split("->")
        for body in bodies.split("|"):
            symbols = [EPS if x == "$" else
                       (var(x) if x[0].isupper() else ter(x))
                       for x in body.split()]
            productions.append(
                Production(var(head.strip()), symbols, filtering=not raw))
    return set(), set(), var("S"), productions


def handwritten(rnd):
    texts = [
        "S -> a S b | ",
        "S -> S S | a",
        "S -> a S | S a | a",
        "S -> A B | C D | S S\nA -> a\nB -> b c\nC -> a b\nD -> c",
        "S -> x T | T y\nT -> a T | T a | a",
        "S -> A B | A C\nA -> a | a a\nB -> b | a b\nC -> b",
        "S -> A B\nA -> a a\nB -> b b",
        "S -> C C\nC -> a a a",
        "S -> B B\nB -> C C\nC -> D D\nD -> E E\nE -> a",
        "S -> A B | S S\nA -> a a\nB -> b b",
        "S -> c | a a a a a a",
        "S -> S1 a | \nS1 -> S2 a | \nS2 -> ",
        "S -> A B\nA -> \nB -> A A\nC -> A c",
        "S -> A\nA -> B\nB -> A | b",
        "S -> A\nA -> A",
        "S -> A S | \nA -> a | ",
        "S -> a S | B\nB -> B b",
        "T -> a",
    ]
    res = [("text %d" % i, from_lines(t)) for i, t in enumerate(texts)]
    raw_texts = [
        "S -> A $ B\nA -> $\nB -> $ $\nC -> A c",
        "S -> a S b | T\nT -> U $ U\nU -> \nV -> $ v",
        "S -> X $\nX -> X",
        "S -> X $ Y\nX -> X\nY -> a",
        "S -> $ a | A\nA -> $ | A A",
        "S -> $",
        "S -> A A\nA -> $ | a",
        "S -> A B\nA -> a $\nB -> $ $ b | ",
    ]
    for i, text in enumerate(raw_texts):
        res.append(("raw %d" % i, from_lines(text, raw=True)))
        res.append(("filtered %d" % i, from_lines(text, raw=False)))
    # words of length exactly twice the longest shorter word
    for i in range(12):
        left = rnd.randint(1, 4)
        right = rnd.choice([left, left, rnd.randint(1, 4)])
        lines = ["S -> A B" + rnd.choice(["", " | S S", " | c", " | A"]),
                 "A -> " + " ".join("a" * left) +
                 rnd.choice(["", " | b"]),
                 "B -> " + " ".join("b" * right)]
        res.append(("gap %d" % i, from_lines("\n".join(lines))))
    # doubling chains
    for i in range(8):
        depth = rnd.randint(1, 4)
        names = "SBCDE"
        lines = []
        for k in range(depth):
            alt = rnd.choice(["", "", " | a", " | "])
            lines.append("%s -> %s %s%s" % (names[k], names[k + 1],
                                            names[k + 1], alt))
        lines.append("%s -> a" % names[depth] + rnd.choice(["", " | b"]))
        res.append(("chain %d" % i, from_lines("\n".join(lines))))
    return res


def describe(grammar):
    variables, terminals, start, productions = grammar
    prods = ["%s->%s%s" % (sym(p.head), ".".join(sym(x) for x in p.body),
                           "" if len(p.body) == len(
                               [x for x in p.body
                                if not isinstance(x, Epsilon)]) else "!")
             for p in productions]
    return "start=%s vars=%s ters=%s prods=[%s]" % (
        "None" if start is None else sym(start), fmt_set(variables),
        fmt_set(terminals), " ; ".join(prods))


def build(grammar, as_set):
    variables, terminals, start, productions = grammar
    productions = set(productions) if as_set else list(productions)
    return CFG(variables=set(variables) or None,
               terminals=set(terminals) or None,
               start_symbol=start,
               productions=productions)


def fingerprint(name, grammar, out):
    out.write("## %s: %s\n" % (name, describe(grammar)))
    for as_set in (False, True):
        for order_name, queries in ORDERS:
            cfg = build(grammar, as_set)
            out.write("%s%s: %s\n" % (
                order_name, "s" if as_set else "l",
                " ; ".join(query(cfg) for query in queries)))
        cfg = build(grammar, as_set)
        for order_name, queries in ORDERS:
            out.write("all-%s%s: %s\n" % (
                order_name, "s" if as_set else "l",
                " ; ".join(query(cfg) for query in queries)))


def main():
    sys.setrecursionlimit(3000)
    rnd = random.Random(SEED)
    grammars = handwritten(rnd)
    for i in range(N_RANDOM):
        grammars.append(("random %d" % i, random_grammar(rnd)))
    for name, grammar in grammars:
        fingerprint(name, grammar, sys.stdout)
    sys.stdout.write("# %d grammars\n" % len(grammars))
    return 0


if __name__ == "__main__":
    sys.exit(main())
