"""Differential oracle for the CFG analyses of pyformlang/cfg/cfg.py.

Run as:  PYTHONHASHSEED=0 PYTHONPATH=<tree> python equiv.py
Builds a few hundred small random grammars with a fixed seed and prints,
canonically sorted, the results of get_generating_symbols,
get_nullable_symbols, get_reachable_symbols, is_empty, __bool__, is_finite
and get_words (several bounds; unbounded on finite languages).  The output
must be byte-identical on the pristine tree and on the changed tree.
"""
import random
import sys

from pyformlang.cfg import CFG, Variable, Terminal, Production, Epsilon

SEED = 20260927
N_GRAMMARS = 360
BOUNDS = (0, 1, 2, 3, 4, 6)
ORDER_LINE = False

VARS = ["S", "A", "B", "C", "D", "E"]
TERS = ["a", "b", "c"]


def sym_key(symbol):
    if symbol is None:
        return "None"
    return type(symbol).__name__ + ":" + str(symbol.value)


def fmt_symbols(symbols):
    return "[" + ",".join(sorted(sym_key(x) for x in symbols)) + "]"


def fmt_word(word):
    # a word is printed with the type of every element, so that a list
    # element which is not a Terminal (or a word which is not a list) shows
    if not isinstance(word, list):
        return "<" + type(word).__name__ + ">" + repr(word)
    return ".".join(
        str(x.value) if type(x) is Terminal else sym_key(x) for x in word)


def fmt_words(words):
    # sorted LIST (not set): a duplicated word shows up in the output
    return "[" + ",".join(sorted(fmt_word(w) for w in words)) + "]"


def random_spec(rng):
    """ A grammar as plain data: (vars, ters, start, [(head, body)], as_list)
    """
    n_var = rng.randint(1, len(VARS))
    n_ter = rng.randint(1, len(TERS))
    variables = VARS[:n_var]
    terminals = TERS[:n_ter]
    shape = rng.random()
    productions = []
    for _ in range(rng.randint(0, 9)):
        head = rng.choice(variables)
        roll = rng.random()
        if roll < 0.18:
            length = 0                       # epsilon body
        elif roll < 0.45:
            length = 1
        elif roll < 0.85:
            length = 2
        else:
            length = 3
        body = []
        for _ in range(length):
            kind = rng.random()
            if shape < 0.25:
                p_var = 0.75                 # many cycles / useless symbols
            elif shape < 0.5:
                p_var = 0.3                  # mostly terminals
            else:
                p_var = 0.5
            if body and rng.random() < 0.25:
                body.append(body[-1])        # repeated symbol
            elif kind < p_var:
                body.append(("V", rng.choice(variables)))
            else:
                body.append(("T", rng.choice(terminals)))
        if rng.random() < 0.08:
            body.insert(rng.randint(0, len(body)), ("E", None))
        productions.append((head, body))
    # declared but unused symbols, start symbol possibly without production
    declared_vars = list(variables)
    if rng.random() < 0.3:
        declared_vars.append("U")
    declared_ters = list(terminals)
    if rng.random() < 0.3:
        declared_ters.append("u")
    start_roll = rng.random()
    if start_roll < 0.8:
        start = "S"
    elif start_roll < 0.95:
        start = rng.choice(declared_vars)
    else:
        start = None
    as_list = rng.random() < 0.2
    if as_list and productions and rng.random() < 0.5:
        productions.append(rng.choice(productions))   # duplicated rule
    return declared_vars, declared_ters, start, productions, as_list


def build(spec):
    declared_vars, declared_ters, start, productions, as_list = spec
    prods = []
    for head, body in productions:
        objs = []
        for kind, value in body:
            if kind == "V":
                objs.append(Variable(value))
            elif kind == "T":
                objs.append(Terminal(value))
            else:
                objs.append(Epsilon())
        prods.append(Production(Variable(head), objs))
    if not as_list:
        prods = set(prods)
    return CFG({Variable(x) for x in declared_vars},
               {Terminal(x) for x in declared_ters},
               None if start is None else Variable(start),
               prods)


def describe(spec):
    declared_vars, declared_ters, start, productions, as_list = spec
    rules = ";".join(
        head + "->" + " ".join("$" if k == "E" else v for k, v in body)
        for head, body in productions)
    return "V=%s T=%s start=%s list=%d P={%s}" % (
        "".join(declared_vars), "".join(declared_ters), start,
        int(as_list), rules)


def report(idx, spec, out):
    out.append("== grammar %d: %s" % (idx, describe(spec)))
    # 1. symbol classes, asked twice (caches) and on a shared object
    cfg = build(spec)
    gen1 = fmt_symbols(cfg.get_generating_symbols())
    nul1 = fmt_symbols(cfg.get_nullable_symbols())
    rea1 = fmt_symbols(cfg.get_reachable_symbols())
    gen2 = fmt_symbols(cfg.get_generating_symbols())
    nul2 = fmt_symbols(cfg.get_nullable_symbols())
    rea2 = fmt_symbols(cfg.get_reachable_symbols())
    out.append("generating " + gen1)
    out.append("nullable   " + nul1)
    out.append("reachable  " + rea1)
    out.append("again      %d%d%d" % (gen1 == gen2, nul1 == nul2,
                                      rea1 == rea2))
    # 2. the other order on a fresh object (nullable first, then generating)
    cfg_b = build(spec)
    nul3 = fmt_symbols(cfg_b.get_nullable_symbols())
    eps = cfg_b.generate_epsilon()
    gen3 = fmt_symbols(cfg_b.get_generating_symbols())
    out.append("reordered  %d%d eps=%s" % (gen1 == gen3, nul1 == nul3, eps))
    # 3. emptiness / finiteness on fresh objects and on the used one
    cfg_c = build(spec)
    empty = cfg_c.is_empty()
    out.append("is_empty   %s %s bool=%s %s" % (
        empty, cfg.is_empty(), bool(build(spec)), bool(cfg)))
    cfg_d = build(spec)
    finite = cfg_d.is_finite()
    out.append("is_finite  %s %s" % (finite, cfg.is_finite()))
    # 4. words, fresh object per bound, then all bounds on one object
    for bound in BOUNDS:
        words = list(build(spec).get_words(bound))
        out.append("words(%d)   n=%d %s" % (bound, len(words),
                                            fmt_words(words)))
        if ORDER_LINE:
            out.append("order(%d)   %s" % (
                bound, "|".join(fmt_word(w) for w in words)))
        shared = list(cfg.get_words(bound))
        out.append("shared(%d)  %s" % (bound,
                                       fmt_words(shared) == fmt_words(words)))
    if finite:
        words = list(build(spec).get_words())
        out.append("words(inf) n=%d %s" % (len(words), fmt_words(words)))
        if ORDER_LINE:
            out.append("order(inf) %s" % "|".join(fmt_word(w) for w in words))
        out.append("default    %s" % fmt_words(cfg.get_words(-1)))
    # 5. the analyses did not disturb the grammar object
    out.append("grammar    V=%s T=%s start=%s nP=%d" % (
        fmt_symbols(cfg.variables), fmt_symbols(cfg.terminals),
        sym_key(cfg.start_symbol), len(cfg.productions)))
    out.append("after      %s %s %s" % (
        fmt_symbols(cfg.get_generating_symbols()) == gen1,
        fmt_symbols(cfg.get_nullable_symbols()) == nul1,
        fmt_symbols(cfg.get_reachable_symbols()) == rea1))


FIXED_TEXTS = [
    "S -> a S b | a b",
    "S -> A B\nA -> a A | $\nB -> b B | $",
    "S -> A B C\nA -> a | $\nB -> b | $\nC -> c | $",
    "S -> S S | a",
    "S -> A\nA -> B\nB -> A",
    "S -> A A\nA -> a | b\nC -> c C",
    "S -> a\nB -> S b\nC -> C",
    "S -> $",
    "S -> A\nA -> S | a",
    "S -> A b\nA -> A",
]


def main():
    rng = random.Random(SEED)
    out = []
    for idx in range(N_GRAMMARS):
        report(idx, random_spec(rng), out)
    for idx, text in enumerate(FIXED_TEXTS):
        cfg = CFG.from_text(text)
        out.append("== text %d" % idx)
        out.append("generating " + fmt_symbols(cfg.get_generating_symbols()))
        out.append("nullable   " + fmt_symbols(cfg.get_nullable_symbols()))
        out.append("reachable  " + fmt_symbols(cfg.get_reachable_symbols()))
        out.append("is_empty   %s bool=%s" % (cfg.is_empty(), bool(cfg)))
        finite = cfg.is_finite()
        out.append("is_finite  %s" % finite)
        for bound in BOUNDS:
            words = list(cfg.get_words(bound))
            out.append("words(%d)   n=%d %s" % (bound, len(words),
                                                fmt_words(words)))
        if finite:
            out.append("words(inf) " + fmt_words(cfg.get_words()))
    sys.stdout.write("\n".join(out) + "\n")
    return 0


if __name__ == "__main__":
    sys.exit(main())
