"""Additional checks for F31: Regex.to_cfg must not let its generated
variable names (A0, A1, ...) collide with the caller's start symbol."""
import itertools
import sys

from pyformlang.cfg import Variable
from pyformlang.regular_expression import Regex

FAILED = []


def words(alphabet, max_len):
    for length in range(max_len + 1):
        for word in itertools.product(alphabet, repeat=length):
            yield list(word)


def same_language(regex_text, start, alphabet, max_len=4):
    """to_cfg(start) agrees with Regex.accepts on all short words"""
    regex = Regex(regex_text)
    grammar = regex.to_cfg(start)
    for word in words(alphabet, max_len):
        if grammar.contains(word) != regex.accepts(word):
            return False
    return True


def check(name, cond):
    print(("ok   " if cond else "FAIL ") + name)
    if not cond:
        FAILED.append(name)


# 1. the reported case, and the other generated name of the same regex
check("'a b' start A0", same_language("a b", "A0", "ab"))
check("'a b' start A1", same_language("a b", "A1", "ab"))

# 2. start symbol given as a Variable object instead of a string
check("'a b' start Variable(A0)",
      same_language("a b", Variable("A0"), "ab"))
check("start symbol is kept as given",
      Regex("a b").to_cfg("A0").start_symbol == Variable("A0"))

# 3. every name the construction would have used, on a deeper regex
#    (collision deep inside the tree, under a star, under a union)
DEEP = "(a|b)* c (a b|c*)"
for i in range(12):
    check("deep regex start A%d" % i,
          same_language(DEEP, "A%d" % i, "abc"))

# 4. star at the root: the start symbol is recursive there
check("'(a b)*' start A0", same_language("(a b)*", "A0", "ab", 5))
check("'(a b)*' start A1", same_language("(a b)*", "A1", "ab", 5))

# 5. union at the root
check("'a|b c' start A1", same_language("a|b c", "A1", "abc"))

# 6. the generated variables never include the start symbol on a
#    right-hand side (except the star's own recursion) nor as another head
grammar = Regex("a b c").to_cfg("A1")
heads_of_start = [p for p in grammar.productions if p.head == Variable("A1")]
check("start A1 has exactly its own production", len(heads_of_start) == 1)
check("start A1 not used in any body",
      all(Variable("A1") not in p.body for p in grammar.productions))

# 7. regex symbols spelled like generated names are terminals, not confused
check("symbols named A0/A1, start A0",
      same_language("A0 A1|A2*", "A0", ["A0", "A1", "A2"], 3))

# 8. ordinary inputs: nothing changed
check("default start", same_language("(a|b)* c", "S", "abc"))
check("default start symbol is S",
      Regex("a").to_cfg().start_symbol == Variable("S"))
check("default names unchanged (A0.. still used when free)",
      Variable("A0") in Regex("a b").to_cfg().variables)
check("epsilon", same_language("a $ b|epsilon", "S", "ab"))
check("single symbol start A0", same_language("a", "A0", "ab"))
check("empty regex start A0", Regex("").to_cfg("A0").is_empty())
check("unrelated custom start", same_language("a* b", "Start", "ab"))

if FAILED:
    print("%d check(s) failed" % len(FAILED))
    sys.exit(1)
print("all checks passed")
