# Additional checks for F22 (C19): the automaton returned by Regex.to_epsilon_nfa
# must be independent of whatever Regex.accepts uses internally, for the regex
# itself, for its sub-expressions and for the operands of union/concatenate.
from pyformlang.regular_expression import Regex, PythonRegex
from pyformlang.finite_automaton import Symbol, Epsilon


def poison(enfa, symbol="zz"):
    """ Make the automaton accept [symbol] and the empty word """
    for start in list(enfa.start_states):
        for final in list(enfa.final_states):
            enfa.add_transition(start, Symbol(symbol), final)
            enfa.add_transition(start, Epsilon(), final)


def check_01_mutation_after_accepts():
    regex = Regex("a")
    assert regex.accepts(["a"])
    poison(regex.to_epsilon_nfa())
    assert not regex.accepts(["zz"])
    assert not regex.accepts([])
    assert regex.accepts(["a"])


def check_02_mutation_before_accepts():
    # conversion first, first query afterwards
    regex = Regex("(a|b)* c")
    enfa = regex.to_epsilon_nfa()
    poison(enfa)
    assert not regex.accepts(["zz"])
    assert not regex.accepts([])
    assert regex.accepts(["a", "b", "c"])
    assert enfa.accepts(["zz"])


def check_03_each_call_gives_a_distinct_object():
    regex = Regex("a b|c*")
    regex.accepts(["c"])
    enfa0 = regex.to_epsilon_nfa()
    enfa1 = regex.to_epsilon_nfa()
    assert enfa0 is not enfa1
    poison(enfa0)
    assert not enfa1.accepts(["zz"])
    assert enfa1.is_equivalent_to(regex.to_epsilon_nfa())
    assert not regex.accepts(["zz"])


def check_04_sub_expression_keeps_its_own_language():
    # converting the parent must not change what a son answers
    regex = Regex("a b")
    regex.to_epsilon_nfa()
    regex.accepts(["a", "b"])
    son0, son1 = regex.sons
    assert son0.accepts(["a"]) and not son0.accepts(["a", "b"])
    assert son1.accepts(["b"]) and not son1.accepts(["a", "b"])
    poison(regex.to_epsilon_nfa())
    assert not son0.accepts(["zz"]) and not son1.accepts([])


def check_05_union_operands_unchanged():
    regex_a = Regex("a")
    regex_b = Regex("b")
    assert regex_a.accepts(["a"])      # operand queried before
    union = regex_a.union(regex_b)
    poison(union.to_epsilon_nfa())
    assert union.accepts(["a"]) and union.accepts(["b"])
    assert not union.accepts(["zz"])
    assert regex_a.accepts(["a"]) and not regex_a.accepts(["b"])
    assert regex_b.accepts(["b"]) and not regex_b.accepts(["a"])
    assert not regex_a.accepts(["zz"]) and not regex_b.accepts(["zz"])


def check_06_same_object_as_both_operands():
    regex = Regex("a")
    twice = regex.concatenate(regex)
    poison(twice.to_epsilon_nfa())
    assert twice.accepts(["a", "a"]) and not twice.accepts(["a"])
    assert regex.accepts(["a"]) and not regex.accepts(["a", "a"])
    assert not regex.accepts([]) and not twice.accepts([])
    star = regex.kleene_star()
    poison(star.to_epsilon_nfa())
    assert star.accepts([]) and star.accepts(["a", "a", "a"])
    assert not star.accepts(["zz"]) and not regex.accepts([])


def check_07_conversion_of_conversion():
    regex = Regex("a (b|c)*")
    enfa = regex.to_epsilon_nfa()
    back = enfa.minimize().to_regex()
    poison(back.to_epsilon_nfa())
    poison(enfa)
    for word, expected in [(["a"], True), (["a", "c", "b"], True),
                           (["b"], False), (["zz"], False), ([], False)]:
        assert regex.accepts(word) is expected
        assert back.accepts(word) is expected


def check_08_python_regex():
    regex = PythonRegex("a+[cd]")
    assert regex.accepts(["a", "a", "d"])
    poison(regex.to_epsilon_nfa())
    assert not regex.accepts(["zz"]) and not regex.accepts([])
    assert regex.accepts(["a", "c"]) and not regex.accepts(["c"])


def check_09_removing_from_the_result():
    # mutation that removes rather than adds
    regex = Regex("a|b")
    regex.accepts(["a"])
    enfa = regex.to_epsilon_nfa()
    for final in list(enfa.final_states):
        enfa.remove_final_state(final)
    assert enfa.is_empty()
    assert regex.accepts(["a"]) and regex.accepts(["b"])


def check_10_ordinary_behaviour_unchanged():
    regex = Regex("abc|d*")
    enfa = regex.to_epsilon_nfa()
    assert len(enfa.start_states) == 1 and len(enfa.final_states) == 1
    assert enfa.accepts(["abc"]) and enfa.accepts(["d", "d"])
    assert enfa.accepts([]) and not enfa.accepts(["abc", "d"])
    assert regex.accepts(["abc"]) and not regex.accepts(["a"])
    assert Regex("").to_epsilon_nfa().is_empty()
    assert Regex("$").accepts([]) and not Regex("$").accepts(["a"])
    dfa = regex.to_epsilon_nfa().to_deterministic().minimize()
    assert dfa.is_equivalent_to(Regex("d*|abc").to_epsilon_nfa())
    assert regex.to_cfg().contains(["d", "d", "d"])
    assert regex.get_number_symbols() == 2
    assert regex.get_number_operators() == 2


if __name__ == "__main__":
    CHECKS = sorted((name, fun) for name, fun in globals().items()
                    if name.startswith("check_"))
    for name, fun in CHECKS:
        fun()
        print("ok", name)
    print("all", len(CHECKS), "checks hold")
