# Additional checks for F34 (C14): the LL(1) parser's end marker must not be
# confused with grammar symbols spelled "$".
import itertools

from pyformlang.cfg import CFG, LLOneParser, Production, Variable, Terminal, \
    Epsilon
from pyformlang.cfg.cfg import NotParsableException

FAILED = []


def check(name, condition):
    print(("ok   " if condition else "FAIL ") + name)
    if not condition:
        FAILED.append(name)


def outcome(parser, word):
    """ 'accepted', 'refused' or the name of an unexpected exception """
    try:
        parser.get_llone_parse_tree(word)
        return "accepted"
    except NotParsableException:
        return "refused"
    except Exception as exc:  # pylint: disable=broad-except
        return type(exc).__name__


def agrees_with_membership(cfg, alphabet, max_len):
    """ parser accepts exactly the members, refuses the others cleanly """
    parser = LLOneParser(cfg)
    if not parser.is_llone_parsable():
        return False
    for length in range(max_len + 1):
        for word in itertools.product(alphabet, repeat=length):
            expected = "accepted" if cfg.contains(list(word)) else "refused"
            if outcome(parser, list(word)) != expected:
                print("   word", word, "->", outcome(parser, list(word)),
                      "expected", expected)
                return False
    return True


S, D, E_, T_, F_ = (Variable(x) for x in ["S", "$", "E", "T", "F"])
a, b, c, x, dollar = (Terminal(y) for y in ["a", "b", "c", "x", "$"])

# 1. The reported grammar, all words over {b} up to length 4
g1 = CFG(start_symbol=S, productions={Production(S, [D, D]),
                                      Production(D, [b])})
check("1 variable '$' (S -> $ $, $ -> b): all words b^0..b^4",
      agrees_with_membership(g1, [b], 4))
tree = LLOneParser(g1).get_llone_parse_tree(["b", "b"])
check("1b tree of bb has the right derivation",
      tree.get_leftmost_derivation() ==
      [[S], [D, D], [b, D], [b, b]])

# 2. The start symbol itself is named '$', recursive and nullable
g2 = CFG(start_symbol=D, productions={Production(D, [a, D]),
                                      Production(D, [])})
check("2 start symbol '$' ($ -> a $ | eps): words over {a, b} up to 3",
      agrees_with_membership(g2, [a, b], 3))

# 3. A nullable variable '$' in front of a terminal
g3 = CFG(start_symbol=S, productions={Production(S, [D, c]),
                                      Production(D, [b]),
                                      Production(D, [])})
check("3 nullable variable '$' (S -> $ c, $ -> b | eps): words up to 3",
      agrees_with_membership(g3, [b, c], 3))

# 4. Variable '$' as the last symbol, so it meets the end of input directly
g4 = CFG(start_symbol=S, productions={Production(S, [a, D]),
                                      Production(D, [b, D]),
                                      Production(D, [])})
check("4 trailing nullable variable '$' (S -> a $, $ -> b $ | eps)",
      agrees_with_membership(g4, [a, b], 4))

# 5. A terminal '$' is an ordinary letter, distinct from the end of input
g5 = CFG(start_symbol=S, productions={Production(S, [a, dollar])})
check("5 terminal '$' (S -> a '$'): words over {a, '$'} up to 3",
      agrees_with_membership(g5, [a, dollar], 3))
check("5b plain strings are accepted as letters too",
      outcome(LLOneParser(g5), ["a", "$"]) == "accepted"
      and outcome(LLOneParser(g5), ["a"]) == "refused")

# 6. Variable '$' and terminal '$' together
g6 = CFG(start_symbol=S, productions={Production(S, [D, x]),
                                      Production(D, [dollar, D]),
                                      Production(D, [])})
check("6 variable '$' and terminal '$' (S -> $ x, $ -> '$' $ | eps)",
      agrees_with_membership(g6, [dollar, x], 4))

# 7. The follow sets keep their documented end marker "$"
follow = LLOneParser(g6).get_follow_set()
check("7 follow sets: FOLLOW(S) = {'$'}, FOLLOW($) = {x}",
      follow[S] == {"$"} and follow[D] == {x})
table = LLOneParser(g4).get_llone_parsing_table()
check("7b table column for end of input is the string '$'",
      table[D]["$"] == [Production(D, [])] and Terminal("$") not in table[D])

# 8. Ordinary grammars are unchanged: the textbook expression grammar
text = """
    E  -> T E'
    E' -> + T E' | epsilon
    T  -> F T'
    T' -> * F T' | epsilon
    F  -> ( E ) | id
"""
g8 = CFG.from_text(text, start_symbol="E")
p8 = LLOneParser(g8)
check("8 expression grammar is LL(1)", p8.is_llone_parsable())
check("8b id+id*id accepted, prefixes/extensions refused",
      outcome(p8, ["id", "+", "id", "*", "id"]) == "accepted"
      and outcome(p8, ["id", "+", "id", "*"]) == "refused"
      and outcome(p8, ["id", "+"]) == "refused"
      and outcome(p8, []) == "refused"
      and outcome(p8, ["id", "id"]) == "refused"
      and outcome(p8, ["(", "id", ")", ")"]) == "refused")
check("8c all words up to length 4 agree with membership",
      agrees_with_membership(g8, [Terminal(t) for t in
                                  ["id", "+", "*", "(", ")"]], 4))

# 9. Epsilon letters in the word are still ignored; a non LL(1) grammar is
#    still reported as such
check("9 epsilons in the word are dropped",
      outcome(LLOneParser(g1), [Epsilon(), "b", Epsilon(), "b"]) == "accepted")
g9 = CFG(start_symbol=S, productions={Production(S, [a, b]),
                                      Production(S, [a, c])})
check("9b common prefix grammar is not LL(1)",
      not LLOneParser(g9).is_llone_parsable())

if FAILED:
    raise SystemExit("FAILED: " + ", ".join(FAILED))
print("all checks passed")
