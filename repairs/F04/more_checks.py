"""Additional checks for F04 (C03): states of the product automaton built by
EpsilonNFA.get_intersection must be distinct for distinct pairs of states.

Every check compares the result with the set-theoretic definition on all words
up to a given length over the union of the two alphabets.
"""
import itertools
import sys

from pyformlang.finite_automaton import EpsilonNFA, Epsilon, State
from pyformlang.regular_expression import Regex

FAILURES = []


def words(alphabet, max_len):
    for length in range(max_len + 1):
        for word in itertools.product(sorted(alphabet, key=str), repeat=length):
            yield list(word)


def alphabet_of(*automata):
    res = set()
    for automaton in automata:
        res.update(symbol.value for symbol in automaton.symbols)
    return res


def check(name, result, expected, alphabet, max_len=4):
    """ result: automaton, expected: predicate on a word """
    for word in words(alphabet, max_len):
        if result.accepts(word) != expected(word):
            FAILURES.append(name)
            print("FAIL", name, "on word", word, "got", result.accepts(word))
            return
    print("ok  ", name)


def check_inter(name, enfa0, enfa1, max_len=4):
    alphabet = alphabet_of(enfa0, enfa1)
    expected = lambda w: enfa0.accepts(w) and enfa1.accepts(w)
    check(name + " [get_intersection]", enfa0.get_intersection(enfa1),
          expected, alphabet, max_len)
    check(name + " [&, swapped]", enfa1 & enfa0, expected, alphabet, max_len)


def build(starts, finals, transitions):
    enfa = EpsilonNFA()
    for state in starts:
        enfa.add_start_state(state)
    for state in finals:
        enfa.add_final_state(state)
    for s_from, symbol, s_to in transitions:
        enfa.add_transition(s_from, symbol, s_to)
    return enfa


# 1. The reported input, in both orders
A = build(["s0"], ["a"], [("s0", "y", "a; b")])
B = build(["t0"], ["b; c"], [("t0", "y", "c")])
check_inter("1 reported collision 'a; b'+'c' vs 'a'+'b; c'", A, B)

# 2. The collision makes a reachable non-final pair look like a start pair's
#    successor: names containing the old separator on both sides, reachable
A = build(["p"], ["q; r"], [("p", "x", "q"), ("q", "x", "q; r")])
B = build(["p"], ["s"], [("p", "x", "r; s"), ("r; s", "x", "s")])
# old names: ("q", "r; s") and ("q; r", "s") both "q; r; s"
check_inter("2 reachable colliding pairs, same state names in both", A, B)

# 3. Colliding start pair and final pair: the empty word must be rejected
A = build(["a; b"], ["a"], [("a; b", "z", "a")])
B = build(["c"], ["b; c"], [("c", "z", "b; c")])
check_inter("3 start pair collides with final pair (empty word)", A, B)

# 4. Values of different types with the same string representation
A = build([0], [1], [(0, "a", 1), (0, "a", "1")])
B = build([0], ["1"], [(0, "a", 1), (0, "a", "1"), ("1", "a", "1")])
check_inter("4 int 1 and str '1' are different states", A, B)
INTER = A.get_intersection(B)
if len(INTER.final_states) != 1 or \
        State((1, "1")) not in INTER.final_states:
    FAILURES.append("4b")
    print("FAIL 4b final states", INTER.final_states)
else:
    print("ok   4b only the pair (1, '1') is final")

# 5. Nondeterministic operands with epsilon moves and several start states,
#    colliding names again
A = build(["i; j", "k"], ["f"],
          [("i; j", "a", "f"), ("k", Epsilon(), "i"), ("i", "b", "f"),
           ("f", "a", "f"), ("f", "a", "i")])
B = build(["j", "i"], ["j; f", "g"],
          [("j", "a", "g"), ("i", "b", "j; f"), ("j; f", Epsilon(), "g"),
           ("g", "a", "g"), ("g", "a", "j")])
check_inter("5 epsilon moves, several start states, nondeterminism", A, B, 5)

# 6. Tuple valued and nested product states: (A & B) & C and A & (B & C)
A = Regex("(a|b)*.a").to_epsilon_nfa()
B = Regex("a.(a|b)*").to_epsilon_nfa()
C = Regex("(a.a|b)*").to_epsilon_nfa()
EXPECTED = lambda w: A.accepts(w) and B.accepts(w) and C.accepts(w)
check("6 (A & B) & C", (A & B) & C, EXPECTED, {"a", "b"}, 6)
check("6 A & (B & C)", A & (B & C), EXPECTED, {"a", "b"}, 6)

# 7. Difference (built on the intersection) with colliding names, operands
#    over the same alphabet
A = build(["s; t"], ["u"], [("s; t", "a", "u"), ("u", "b", "u"),
                            ("u", "c", "s; t")])
B = build(["s"], ["t; u"], [("s", "a", "t; u"), ("t; u", "b", "s"),
                            ("t; u", "c", "t; u")])
EXPECTED = lambda w: A.accepts(w) and not B.accepts(w)
check("7 get_difference", A.get_difference(B), EXPECTED, alphabet_of(A, B), 5)
check("7 operator -", A - B, EXPECTED, alphabet_of(A, B), 5)

# 8. The result can still be determinised, minimised, turned into a regex
#    (to_regex directly on A & B raises 'not simple enough' on the unpatched
#    code too: unrelated to this defect, so it goes through minimize)
A = Regex("(a|b)*.b.(a|b)").to_epsilon_nfa()
B = Regex("(a.b|b)*.a*").to_epsilon_nfa()
INTER = A & B
EXPECTED = lambda w: A.accepts(w) and B.accepts(w)
check("8 to_deterministic", INTER.to_deterministic(), EXPECTED, {"a", "b"}, 6)
check("8 minimize", INTER.minimize(), EXPECTED, {"a", "b"}, 6)
check("8 minimize + to_regex", INTER.minimize().to_regex().to_epsilon_nfa(),
      EXPECTED, {"a", "b"}, 6)
if not INTER.is_equivalent_to(B & A):
    FAILURES.append("8 equivalence")
    print("FAIL 8 A & B equivalent to B & A")
else:
    print("ok   8 A & B equivalent to B & A")

# 9. Ordinary inputs: docstring example, disjoint alphabets, empty operand
A = build([0], [1], [(0, "abc", 1), (0, "d", 1), (0, "epsilon", 2)])
B = build([0], [1], [(0, "d", 1)])
check_inter("9 docstring example", A, B, 3)
A = build([0], [0], [(0, "a", 0)])
B = build([0], [0], [(0, "b", 0)])
check_inter("9 disjoint alphabets (only the empty word)", A, B)
check_inter("9 empty automaton", A, EpsilonNFA())

# 10. The product states are exactly the pairs: no merge, one state per
#     reachable pair, and a product state equals the pair of values
A = build(["a; b", "a"], ["a; b", "a"], [("a; b", "x", "a"), ("a", "x", "a; b")])
B = build(["c", "b; c"], ["c"], [("c", "x", "b; c"), ("b; c", "x", "c")])
INTER = A.get_intersection(B)
if len(INTER.states) != 4 or State(("a; b", "c")) not in INTER.states \
        or ("a", "b; c") not in INTER.states:
    FAILURES.append("10")
    print("FAIL 10 states", INTER.states)
else:
    print("ok   10 four distinct product states")
check_inter("10 language", A, B, 5)

if FAILURES:
    print("FAILED:", FAILURES)
    sys.exit(1)
print("all checks hold")
