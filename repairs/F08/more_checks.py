"""Additional checks for F08: to_regex on automata with several start states.

Standalone: exits 0 when every check holds.
"""
import itertools
import random
import sys

from pyformlang.finite_automaton import (
    EpsilonNFA, NondeterministicFiniteAutomaton, DeterministicFiniteAutomaton,
    Epsilon, State, Symbol)

ALPHABET = ["a", "b"]


def words(max_len, alphabet=ALPHABET):
    for length in range(max_len + 1):
        for word in itertools.product(alphabet, repeat=length):
            yield list(word)


def same_language(enfa, max_len=5, alphabet=ALPHABET):
    """ to_regex() and the round trip accept exactly what enfa accepts """
    regex = enfa.to_regex()
    back = regex.to_epsilon_nfa()
    for word in words(max_len, alphabet):
        expected = enfa.accepts(word)
        if regex.accepts(word) != expected or back.accepts(word) != expected:
            return False
    return True


def snapshot(enfa):
    return (set(enfa.states), set(enfa.start_states), set(enfa.final_states),
            {(s, a, t) for s, a, t in enfa})


CHECKS = []


def check(func):
    CHECKS.append(func)
    return func


@check
def two_starts_different_words():
    # the reported input
    enfa = EpsilonNFA()
    enfa.add_start_state(0)
    enfa.add_start_state(1)
    enfa.add_transition(0, "a", 2)
    enfa.add_transition(1, "b", 2)
    enfa.add_final_state(2)
    regex = enfa.to_regex()
    assert regex.accepts(["a"]) and regex.accepts(["b"])
    assert not regex.accepts([]) and not regex.accepts(["a", "b"])
    assert same_language(enfa)


@check
def three_starts_loops_and_epsilon():
    enfa = EpsilonNFA()
    for start in (0, 1, 2):
        enfa.add_start_state(start)
    enfa.add_transition(0, "a", 0)
    enfa.add_transition(0, "b", 3)
    enfa.add_transition(1, "epsilon", 3)
    enfa.add_transition(2, "a", 1)
    enfa.add_transition(3, "b", 2)
    enfa.add_final_state(3)
    assert same_language(enfa)


@check
def start_states_that_are_also_final():
    # one start is final (epsilon accepted), the other is not; two finals
    enfa = EpsilonNFA()
    enfa.add_start_state(0)
    enfa.add_start_state(1)
    enfa.add_final_state(0)
    enfa.add_final_state(2)
    enfa.add_transition(0, "a", 1)
    enfa.add_transition(1, "b", 2)
    enfa.add_transition(2, "a", 0)
    assert enfa.to_regex().accepts([])
    assert same_language(enfa)
    # every state is both start and final
    enfa = EpsilonNFA()
    for state in (0, 1):
        enfa.add_start_state(state)
        enfa.add_final_state(state)
    enfa.add_transition(0, "a", 1)
    assert same_language(enfa)


@check
def fresh_start_name_collides_with_user_states():
    # user states already carry the names the repair would pick first
    enfa = EpsilonNFA()
    enfa.add_start_state("Start")
    enfa.add_start_state("Start0")
    enfa.add_transition("Start", "a", "Start1")
    enfa.add_transition("Start0", "b", "Start1")
    enfa.add_transition("Start1", "a", "Start")
    enfa.add_final_state("Start1")
    assert same_language(enfa)
    regex = enfa.to_regex()
    assert regex.accepts(["a"]) and regex.accepts(["b"])
    assert regex.accepts(["b", "a", "a"]) and not regex.accepts(["b", "b"])


@check
def receiver_is_not_modified():
    enfa = EpsilonNFA()
    enfa.add_start_state(0)
    enfa.add_start_state(1)
    enfa.add_transition(0, "a", 2)
    enfa.add_transition(1, "b", 2)
    enfa.add_transition(2, "epsilon", 1)
    enfa.add_final_state(2)
    before = snapshot(enfa)
    enfa.to_regex()
    assert snapshot(enfa) == before
    assert len(enfa.start_states) == 2


@check
def several_starts_without_final_or_unreachable_final():
    enfa = EpsilonNFA()
    enfa.add_start_state(0)
    enfa.add_start_state(1)
    enfa.add_transition(0, "a", 1)
    assert same_language(enfa)          # no final state: empty language
    enfa.add_final_state(5)             # final state nobody reaches
    assert same_language(enfa)
    assert not enfa.to_regex().accepts([])


@check
def nfa_with_several_starts_and_multichar_symbols():
    nfa = NondeterministicFiniteAutomaton()
    nfa.add_start_state(0)
    nfa.add_start_state(1)
    nfa.add_transition(0, "abc", 2)
    nfa.add_transition(0, "abc", 3)
    nfa.add_transition(1, "d", 3)
    nfa.add_transition(3, "d", 3)
    nfa.add_final_state(2)
    nfa.add_final_state(3)
    assert same_language(nfa, max_len=4, alphabet=["abc", "d"])
    regex = nfa.to_regex()
    assert regex.accepts(["abc"]) and regex.accepts(["d", "d"])
    assert not regex.accepts(["abc", "abc"])


@check
def union_style_automaton_equivalent_after_round_trip():
    # two disjoint components, one start each (a*b  |  b a*)
    enfa = EpsilonNFA()
    enfa.add_start_state("p0")
    enfa.add_transition("p0", "a", "p0")
    enfa.add_transition("p0", "b", "p1")
    enfa.add_final_state("p1")
    enfa.add_start_state("q0")
    enfa.add_transition("q0", "b", "q1")
    enfa.add_transition("q1", "a", "q1")
    enfa.add_final_state("q1")
    back = enfa.to_regex().to_epsilon_nfa()
    assert back.is_equivalent_to(enfa)


@check
def random_automata_with_several_starts():
    rng = random.Random(2024)
    for _ in range(300):
        nb_states = rng.randint(2, 4)
        enfa = EpsilonNFA()
        for _ in range(rng.randint(0, 7)):
            enfa.add_transition(rng.randrange(nb_states),
                                rng.choice(["a", "b", "epsilon"]),
                                rng.randrange(nb_states))
        for state in rng.sample(range(nb_states),
                                rng.randint(2, nb_states)):
            enfa.add_start_state(state)
        for state in rng.sample(range(nb_states),
                                rng.randint(0, nb_states)):
            enfa.add_final_state(state)
        assert same_language(enfa, max_len=4), enfa.to_dict()


@check
def ordinary_single_start_inputs_unchanged():
    # docstring example
    enfa = EpsilonNFA()
    enfa.add_transitions([(0, "abc", 1), (0, "d", 1), (0, "epsilon", 2)])
    enfa.add_start_state(0)
    enfa.add_final_state(1)
    regex = enfa.to_regex()
    assert regex.accepts(["abc"]) and regex.accepts(["d"])
    assert not regex.accepts([])
    # a DFA: (ab)* with start = final
    dfa = DeterministicFiniteAutomaton()
    dfa.add_start_state(0)
    dfa.add_final_state(0)
    dfa.add_transition(0, "a", 1)
    dfa.add_transition(1, "b", 0)
    assert same_language(dfa)
    assert dfa.to_regex().to_epsilon_nfa().is_equivalent_to(dfa)
    # no start state at all: empty language, no exception
    enfa = EpsilonNFA()
    enfa.add_transition(0, "a", 1)
    enfa.add_final_state(1)
    assert same_language(enfa)


@check
def internal_helper_still_rejects_non_simple_automata():
    # documented/pinned behaviour of the private helper is kept
    enfa = EpsilonNFA()
    enfa.add_start_state(State(0))
    enfa.add_final_state(State(0))
    enfa.add_final_state(State(2))
    enfa.add_transition(State(0), Symbol("g"), State(2))
    try:
        enfa._get_regex_simple()  # pylint: disable=protected-access
    except ValueError:
        pass
    else:
        raise AssertionError("_get_regex_simple should still raise")
    assert Epsilon() == Epsilon()


def main():
    failed = 0
    for func in CHECKS:
        try:
            func()
            print("ok  ", func.__name__)
        except Exception as exc:  # pylint: disable=broad-except
            failed += 1
            print("FAIL", func.__name__, repr(exc))
    print("%d checks, %d failed" % (len(CHECKS), failed))
    return 1 if failed else 0


if __name__ == "__main__":
    sys.exit(main())
