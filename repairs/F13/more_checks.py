# Additional checks for F13: productions whose body is non-empty but nullable
# must be predicted by FIRST(body) \ {eps} as well as by FOLLOW(head).
import itertools
import sys

from pyformlang.cfg import CFG, LLOneParser, Variable, Terminal, Epsilon
from pyformlang.cfg.cfg import NotParsableException

FAILS = []


def check(name, cond, detail=""):
    print(("ok   " if cond else "FAIL ") + name + ((" : " + detail) if detail and not cond else ""))
    if not cond:
        FAILS.append(name)


def reference_predict(cfg):
    """ Textbook FIRST / FOLLOW / predict sets, written independently """
    eps = "eps"
    first = {t: {t} for t in cfg.terminals}
    for v in cfg.variables:
        first[v] = set()

    def first_of(seq):
        res = set()
        for x in seq:
            res |= first[x] - {eps}
            if eps not in first[x]:
                return res
        res.add(eps)
        return res
    changed = True
    while changed:
        changed = False
        for p in cfg.productions:
            new = first_of(p.body)
            if not new <= first[p.head]:
                first[p.head] |= new
                changed = True
    follow = {v: set() for v in cfg.variables}
    follow[cfg.start_symbol].add("$")
    changed = True
    while changed:
        changed = False
        for p in cfg.productions:
            for i, x in enumerate(p.body):
                if x not in follow:
                    continue
                rest = first_of(p.body[i + 1:])
                new = rest - {eps}
                if eps in rest:
                    new |= follow[p.head]
                if not new <= follow[x]:
                    follow[x] |= new
                    changed = True
    predict = {}
    for p in cfg.productions:
        f = first_of(p.body)
        pred = f - {eps}
        if eps in f:
            pred |= follow[p.head]
        predict[p] = pred
    return predict


def reference_is_llone(cfg):
    predict = reference_predict(cfg)
    prods = list(predict)
    for p, q in itertools.combinations(prods, 2):
        if p.head == q.head and predict[p] & predict[q]:
            return False
    return True


def table_as_predict(parser):
    res = {}
    for head, row in parser.get_llone_parsing_table().items():
        for symbol, prods in row.items():
            for p in prods:
                res.setdefault(p, set()).add(symbol)
    return res


def yield_of(tree):
    if not tree.sons:
        return [] if isinstance(tree.value, (Variable, Epsilon)) else [tree.value]
    res = []
    for son in tree.sons:
        res += yield_of(son)
    return res


def agree_on_words(name, text, alphabet, max_len, expect_llone=True):
    cfg = CFG.from_text(text)
    parser = LLOneParser(cfg)
    check(name + ": verdict matches the textbook one",
          parser.is_llone_parsable() == reference_is_llone(cfg) == expect_llone,
          "%s / %s" % (parser.is_llone_parsable(), reference_is_llone(cfg)))
    ref = {p: s for p, s in reference_predict(cfg).items() if s}
    got = table_as_predict(parser)
    check(name + ": table cells are the predict sets", got == ref,
          "got %s expected %s" % (got, ref))
    if not expect_llone:
        return
    bad = []
    for n in range(max_len + 1):
        for word in itertools.product(alphabet, repeat=n):
            word = list(word)
            member = cfg.contains(word)
            try:
                tree = parser.get_llone_parse_tree(word)
                parsed = True
                if yield_of(tree) != [Terminal(x) for x in word]:
                    bad.append(("yield", word))
            except NotParsableException:
                parsed = False
            except Exception as exc:  # pylint: disable=broad-except
                bad.append((type(exc).__name__, word))
                continue
            if parsed != member:
                bad.append((word, member, parsed))
    check(name + ": parser accepts exactly the members up to length %d" % max_len,
          not bad, str(bad[:5]))


# 1. the reported grammar
agree_on_words("reported", """
S -> A
A -> B C
B -> b | epsilon
C -> epsilon
""", "bc", 3)

# 2. two nullable components, both able to start the word
agree_on_words("two nullables", """
S -> A B
A -> a A | epsilon
B -> b B | epsilon
""", "ab", 4)

# 3. nullable body in the middle of a longer chain, with an end marker
agree_on_words("chain + marker", """
S -> T d
T -> A B C
A -> a | epsilon
B -> b | epsilon
C -> c | epsilon
""", "abcd", 4)

# 4. nullable non-empty body competing with a non nullable alternative
agree_on_words("alternative", """
S -> X | c
X -> A B
A -> a | epsilon
B -> b | epsilon
""", "abc", 3)

# 5. nullable body whose FIRST meets its own FOLLOW: not LL(1) (conflict in A)
agree_on_words("first/follow conflict", """
S -> X a
X -> A
A -> a | epsilon
""", "a", 2, expect_llone=False)

# 6. two nullable non-empty bodies of one variable sharing a FIRST symbol:
# this conflict was invisible before (only FOLLOW was entered)
agree_on_words("first/first conflict between nullable bodies", """
S -> A e | B e
A -> a | epsilon
B -> a b | epsilon
""", "abe", 3, expect_llone=False)

# 7. a nullable production must appear once per cell even when the symbol is
# both in FIRST(body) and FOLLOW(head)
cfg7 = CFG.from_text("""
S -> X b
X -> B
B -> b | epsilon
""")
table7 = LLOneParser(cfg7).get_llone_parsing_table()
check("no duplicated production in a cell",
      all(len(prods) == len(set(prods))
          for row in table7.values() for prods in row.values()))
check("single production variable X has no conflict",
      len(table7[Variable("X")][Terminal("b")]) == 1)

# 8. ordinary grammars: nothing changed (classic expression grammar)
agree_on_words("expression grammar", """
E -> T E'
E' -> + T E' | epsilon
T -> F T'
T' -> * F T' | epsilon
F -> ( E ) | id
""", ["id", "+", "*", "(", ")"], 4)

# 9. no epsilon at all
agree_on_words("no epsilon", """
S -> a S b | c
""", "abc", 5)

# 10. plain left recursion stays non LL(1)
agree_on_words("left recursion", """
S -> S a | b
""", "ab", 2, expect_llone=False)

# 11. FIRST / FOLLOW themselves are unchanged for the reported grammar
p11 = LLOneParser(CFG.from_text("""
S -> A
A -> B C
B -> b | epsilon
C -> epsilon
"""))
first11 = p11.get_first_set()
follow11 = p11.get_follow_set()
check("FIRST(S) = {b, eps}", first11[Variable("S")] == {Terminal("b"), Epsilon()})
check("FIRST(C) = {eps}", first11[Variable("C")] == {Epsilon()})
check("FOLLOW(B) = FOLLOW(C) = {$}",
      follow11[Variable("B")] == {"$"} and follow11[Variable("C")] == {"$"})

if FAILS:
    print("FAILED:", FAILS)
    sys.exit(1)
print("all checks hold")
