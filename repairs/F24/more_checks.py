# Additional checks for F24 (C19): DeterministicFiniteAutomaton.to_deterministic
# must hand back an object that is independent of its source.
import sys

from pyformlang.finite_automaton import (
    DeterministicFiniteAutomaton, NondeterministicFiniteAutomaton,
    EpsilonNFA, State, Symbol, Epsilon)
from pyformlang.regular_expression import Regex
from pyformlang.cfg import CFG

FAILED = []


def check(name, cond):
    print(("ok   " if cond else "FAIL ") + name)
    if not cond:
        FAILED.append(name)


def build():
    dfa = DeterministicFiniteAutomaton()
    dfa.add_start_state(State(0))
    dfa.add_transitions([(0, "a", 1), (1, "b", 2), (2, "a", 0)])
    dfa.add_final_state(2)
    return dfa


def snapshot(dfa):
    return (set(dfa.states), set(dfa.symbols), set(dfa.start_states),
            set(dfa.final_states), set(dfa), dfa.to_dict())


# 1. the result is a distinct object with the same structure
d = build()
r = d.to_deterministic()
check("1 result is a new DeterministicFiniteAutomaton",
      r is not d and isinstance(r, DeterministicFiniteAutomaton))
check("1 result has the same structure", snapshot(r) == snapshot(d))
check("1 result is equivalent and deterministic",
      r.is_equivalent_to(d) and r.is_deterministic())

# 2. add_final_state on the result (the reported case, other input)
d = build()
before = snapshot(d)
r = d.to_deterministic()
r.add_final_state(1)
check("2 add_final_state on result leaves the source",
      snapshot(d) == before and not d.accepts(["a"]) and r.accepts(["a"]))

# 3. add_transition / new symbol / new state on the result
d = build()
before = snapshot(d)
r = d.to_deterministic()
r.add_transition(2, "c", 3)
r.add_final_state(3)
check("3 add_transition on result leaves the source",
      snapshot(d) == before and not d.accepts(["a", "b", "c"])
      and r.accepts(["a", "b", "c"]))

# 4. remove_transition / remove_final_state / start state change on result
d = build()
before = snapshot(d)
r = d.to_deterministic()
r.remove_transition(0, "a", 1)
r.remove_final_state(2)
r.remove_start_state(0)
r.add_start_state(1)
check("4 removals and start change on result leave the source",
      snapshot(d) == before and d.accepts(["a", "b"]))

# 5. the other direction: mutating the source does not change the result
d = build()
r = d.to_deterministic()
after = snapshot(r)
d.add_final_state(0)
d.add_transition(0, "z", 0)
check("5 mutating the source leaves the result",
      snapshot(r) == after and not r.accepts([]) and d.accepts(["z"]))

# 6. repeated calls and conversion of a conversion are pairwise independent
d = build()
r1 = d.to_deterministic()
r2 = d.to_deterministic()
r3 = r1.to_deterministic()
r1.add_final_state(0)
check("6 repeated/nested results are independent",
      len({id(d), id(r1), id(r2), id(r3)}) == 4
      and not d.accepts([]) and not r2.accepts([]) and not r3.accepts([])
      and r1.accepts([]))

# 7. isolated states, unused symbols and constructor-built automata survive
s0, s1, s2 = State("p"), State("q"), State("lonely")
d = DeterministicFiniteAutomaton({s0, s1, s2}, {Symbol("a"), Symbol("unused")},
                                 None, s0, {s1})
d.add_transition(s0, Symbol("a"), s1)
r = d.to_deterministic()
check("7 isolated state and unused symbol are kept",
      snapshot(r) == snapshot(d) and s2 in r.states
      and Symbol("unused") in r.symbols)
r.add_final_state(s2)
check("7 and the source is still untouched", d.final_states == {s1})

# 8. degenerate automata: empty, no start state, only start/final states
e = DeterministicFiniteAutomaton()
r = e.to_deterministic()
r.add_start_state(0)
r.add_final_state(0)
check("8 empty DFA: result independent",
      r is not e and len(e.states) == 0 and not e.accepts([])
      and r.accepts([]))
n = DeterministicFiniteAutomaton(final_states={State(1)})
r = n.to_deterministic()
check("8 DFA without start state converts",
      len(r.start_states) == 0 and r.final_states == {State(1)}
      and r.is_empty())
t = DeterministicFiniteAutomaton(start_state=State(1),
                                 final_states={State(0), State(1)})
r = t.to_deterministic()
r.remove_final_state(State(1))
check("8 transition-less DFA: result independent",
      t.accepts([]) and not r.accepts([]))

# 9. states whose values collide as strings/ints stay distinct
d = DeterministicFiniteAutomaton()
d.add_start_state(State(1))
d.add_transition(State(1), "a", State("1"))
d.add_final_state(State("1"))
r = d.to_deterministic()
check("9 State(1) and State('1') are preserved as in the source",
      snapshot(r) == snapshot(d) and r.accepts(["a"]) == d.accepts(["a"]))

# 10. ordinary behaviour of the other automata classes is unchanged
nfa = NondeterministicFiniteAutomaton()
nfa.add_start_state(0)
nfa.add_start_state(5)
nfa.add_transitions([(0, "a", 1), (0, "a", 2), (2, "b", 3), (5, "c", 3)])
nfa.add_final_state(1)
nfa.add_final_state(3)
dn = nfa.to_deterministic()
check("10 NFA (two start states) still determinises",
      dn.is_deterministic() and dn.accepts(["a"]) and dn.accepts(["a", "b"])
      and dn.accepts(["c"]) and not dn.accepts(["b"]))
enfa = EpsilonNFA()
enfa.add_start_state(0)
enfa.add_transitions([(0, Epsilon(), 1), (1, "a", 1), (1, "b", 2)])
enfa.add_final_state(2)
de = enfa.to_deterministic()
check("10 epsilon-NFA still determinises",
      de.is_deterministic() and de.accepts(["a", "a", "b"])
      and de.accepts(["b"]) and not de.accepts(["a"]))

# 11. library users of to_deterministic: equivalence, minimize,
#     intersections with a DFA operand do not disturb the operand
d = build()
before = snapshot(d)
check("11 is_equivalent_to / == with itself and a copy",
      d.is_equivalent_to(d) and d == d.copy() and d == d.to_deterministic())
m = d.minimize()
check("11 minimize still equivalent", m.is_equivalent_to(d))
cfg = CFG.from_text("S -> a S | b S | a b")
inter = cfg.intersection(d)
check("11 CFG & DFA", inter.contains(["a", "b"])
      and not inter.contains(["b", "a", "b"]))
pda_inter = cfg.to_pda().intersection(d)
check("11 PDA & DFA builds", pda_inter is not None)
check("11 operand unchanged by all of the above", snapshot(d) == before)

# 12. regex round trip through a DFA is unchanged
dr = Regex("a (b|c)*").to_epsilon_nfa().to_deterministic()
dr2 = dr.to_deterministic()
check("12 regex -> dfa -> to_deterministic keeps the language",
      dr2.accepts(["a", "b", "c"]) and not dr2.accepts(["b"])
      and dr2.is_equivalent_to(dr) and dr2 is not dr)

if FAILED:
    print("FAILED:", FAILED)
    sys.exit(1)
print("all checks hold")
