# More checks for F01 (C01): merged state names must be injective in
# to_deterministic / minimize, and nothing else may change.
import itertools
import sys

from pyformlang.finite_automaton import (
    DeterministicFiniteAutomaton, NondeterministicFiniteAutomaton,
    EpsilonNFA, State, Symbol, Epsilon)
from pyformlang.regular_expression import Regex

FAILED = []


def check(name, cond):
    print(("ok   " if cond else "FAIL ") + name)
    if not cond:
        FAILED.append(name)


def ref_accepts(starts, finals, trans, eps, word):
    """ Independent subset simulation on plain python values """
    def close(sts):
        sts = set(sts)
        todo = list(sts)
        while todo:
            cur = todo.pop()
            for nxt in eps.get(cur, ()):
                if nxt not in sts:
                    sts.add(nxt)
                    todo.append(nxt)
        return sts
    cur = close(starts)
    for symb in word:
        cur = close({n for s in cur for n in trans.get((s, symb), ())})
    return bool(cur & set(finals))


def build(cls, starts, finals, trans, eps=None):
    aut = cls()
    for s in starts:
        aut.add_start_state(State(s))
    for s in finals:
        aut.add_final_state(State(s))
    for (s, a), nexts in trans.items():
        for n in nexts:
            aut.add_transition(State(s), Symbol(a), State(n))
    for s, nexts in (eps or {}).items():
        for n in nexts:
            aut.add_transition(State(s), Epsilon(), State(n))
    return aut


def words(alphabet, max_len):
    for length in range(max_len + 1):
        for word in itertools.product(alphabet, repeat=length):
            yield list(word)


def same_language(name, cls, starts, finals, trans, eps=None, alphabet="abc",
                  max_len=4, minimize=True):
    aut = build(cls, starts, finals, trans, eps)
    dfa = aut.to_deterministic()
    ok = dfa.is_deterministic()
    mini = dfa.minimize() if minimize else None
    for word in words(alphabet, max_len):
        expected = ref_accepts(starts, finals, trans, eps or {}, word)
        ok = ok and aut.accepts(word) == expected
        ok = ok and dfa.accepts(word) == expected
        if mini is not None:
            ok = ok and mini.accepts(word) == expected
    check(name, ok)
    return aut, dfa, mini


# 1. The reported automaton, with both worklist orders (transitions added
#    in both orders) and both disagreeing words.
for order in (0, 1):
    trans = {("s", "a"): ["a;b"], ("s", "b"): ["a", "b"],
             ("a;b", "c"): ["f"]}
    if order:
        trans = dict(reversed(list(trans.items())))
    same_language("1.%d reported NFA: {'a;b'} vs {'a','b'}" % order,
                  NondeterministicFiniteAutomaton, ["s"], ["f"], trans)

# 2. Mirror image: the two-state set is the one which goes on, not 'a;b'.
same_language("2 mirror: {'a','b'} continues, {'a;b'} is dead",
              NondeterministicFiniteAutomaton, ["s"], ["f"],
              {("s", "a"): ["a;b"], ("s", "b"): ["a", "b"],
               ("a", "c"): ["f"]})

# 3. Three way collision, and a user state which has the name of a fresh
#    name: {'a;b;c'}, {'a;b','c'}, {'a','b;c'}, {'a','b','c'}, {'a;b;c#1'}
_, dfa3, _ = same_language(
    "3 four sets all called 'a;b;c' and a state called 'a;b;c#1'",
    NondeterministicFiniteAutomaton, ["s"], ["f1", "f3"],
    {("s", "a"): ["a;b;c"], ("s", "b"): ["a;b", "c"],
     ("s", "c"): ["a", "b;c"], ("s", "d"): ["a", "b", "c"],
     ("s", "e"): ["a;b;c#1"],
     ("a;b;c", "a"): ["f1"], ("a;b", "b"): ["f2"], ("b;c", "c"): ["f3"],
     ("b", "d"): ["f4"], ("a;b;c#1", "e"): ["f1"],
     ("f2", "a"): ["f3"], ("f4", "a"): ["f1"]},
    alphabet="abcde", max_len=3)
check("3b the five subsets are five dfa states (plus s, f1..f4)",
      len(dfa3.states) == 10)

# 4. Values with the same str(): 1 and "1" are different states.
same_language("4 states 1 and '1' (same str, different states)",
              NondeterministicFiniteAutomaton, [0], ["f"],
              {(0, "a"): [1], (0, "b"): ["1"], (1, "c"): ["f"]})

# 5. Epsilon NFA, several start states, an epsilon cycle and colliding
#    closures: eclose('x') = {'x','y'} and the single state 'x;y'.
same_language("5 epsilon NFA: eclose {'x','y'} vs state 'x;y'",
              EpsilonNFA, ["s0", "s1"], ["f"],
              {("s0", "a"): ["x"], ("s1", "b"): ["x;y"],
               ("x;y", "c"): ["f"], ("y", "a"): ["f"]},
              eps={"x": ["y"], "y": ["x"], "s1": ["s1"]})

# 6. The start set itself collides with a later single state.
same_language("6 start set {'p','q'} vs reachable state 'p;q'",
              NondeterministicFiniteAutomaton, ["p", "q"], ["p;q"],
              {("p", "a"): ["p;q"], ("q", "b"): ["p"], ("p;q", "b"): ["q"]})

# 7. minimize on a DFA given directly: the class {'a','b'} of equivalent
#    states and the state 'a;b' (not equivalent to them) had the same name.
dfa7 = DeterministicFiniteAutomaton()
dfa7.add_start_state(State("s"))
dfa7.add_final_state(State("f"))
dfa7.add_transitions([("s", "a", "a"), ("s", "b", "b"), ("s", "c", "a;b"),
                      ("a", "a", "f"), ("b", "a", "f"), ("a;b", "b", "f")])
mini7 = dfa7.minimize()
check("7 minimize: class {'a','b'} vs state 'a;b'",
      mini7.is_deterministic() and len(mini7.states) == 4 and
      all(mini7.accepts(w) == dfa7.accepts(w) for w in words("abc", 4)))

# 8. minimize: a state called like the trash class ('TRASH').
dfa8 = DeterministicFiniteAutomaton()
dfa8.add_start_state(State("s"))
dfa8.add_final_state(State("f"))
dfa8.add_transitions([("s", "a", "TRASH"), ("TRASH", "a", "f"),
                      ("s", "b", "dead"), ("dead", "a", "dead")])
mini8 = dfa8.minimize()
check("8 minimize: a live state called 'TRASH'",
      all(mini8.accepts(w) == dfa8.accepts(w) for w in words("ab", 4)))

# 9. Ordinary input: names are the ones the library always gave.
nfa9 = NondeterministicFiniteAutomaton()
nfa9.add_start_state(State(0))
nfa9.add_final_state(State(2))
nfa9.add_transitions([(0, "a", 0), (0, "b", 0), (0, "a", 1), (1, "b", 2)])
dfa9 = nfa9.to_deterministic()
check("9 ordinary NFA keeps the usual merged names",
      dfa9.states == {State("0"), State("0;1"), State("0;2")} and
      dfa9.start_state == State("0") and
      dfa9.final_states == {State("0;2")} and
      all(dfa9.accepts(w) == nfa9.accepts(w) for w in words("ab", 5)))

# 10. Ordinary input: regex -> enfa -> dfa -> minimal dfa.
enfa10 = Regex("(a|b)*.a.b.(c|$)").to_epsilon_nfa()
dfa10 = enfa10.to_deterministic()
mini10 = enfa10.minimize()
check("10 regex round trip, minimal dfa has 4 states",
      dfa10.is_deterministic() and mini10.is_deterministic() and
      len(mini10.states) == 4 and dfa10.is_equivalent_to(mini10) and
      all(enfa10.accepts(w) == dfa10.accepts(w) == mini10.accepts(w)
          for w in words("abc", 5)))

# 11. Ordinary input: to_deterministic of a DFA and copy are unchanged.
dfa11 = DeterministicFiniteAutomaton()
dfa11.add_start_state(State("q0"))
dfa11.add_final_state(State("q1"))
dfa11.add_transitions([("q0", "a", "q1"), ("q1", "b", "q0")])
check("11 dfa.to_deterministic / copy / minimize keep states",
      dfa11.to_deterministic().states == dfa11.states and
      dfa11.copy().is_equivalent_to(dfa11) and
      dfa11.minimize().states == {State("q0"), State("q1")})

# 12. Same subset reached twice gives the same dfa state (no duplicates).
nfa12 = build(NondeterministicFiniteAutomaton, ["s"], ["b"],
              {("s", "a"): ["a", "b"], ("s", "b"): ["b", "a"],
               ("a", "a"): ["a", "b"], ("b", "a"): ["b"]})
dfa12 = nfa12.to_deterministic()
check("12 one dfa state per subset, however it is reached",
      dfa12.states == {State("s"), State("a;b")} and
      all(dfa12.accepts(w) == nfa12.accepts(w) for w in words("ab", 4)))

print("%d failed" % len(FAILED))
sys.exit(1 if FAILED else 0)
