# F35 additional checks: the hidden start-stack node of PDA.to_networkx is
# fresh against the nodes in use and is found again by from_networkx.
import networkx as nx

from pyformlang.pda import PDA, State, StackSymbol

HIDDEN = "INITIAL_STACK_HIDDEN"


def transitions(pda):
    res = set()
    for key, value in pda._transition_function:
        s_from, symb, stack_from = key
        s_to, stack_to = value
        res.add((s_from.value, symb.value, stack_from.value, s_to.value,
                 tuple(x.value for x in stack_to)))
    return res


def same(pda0, pda1):
    assert pda0.states == pda1.states, (pda0.states, pda1.states)
    assert pda0.start_state == pda1.start_state
    assert pda0.final_states == pda1.final_states
    assert pda0._start_stack_symbol == pda1._start_stack_symbol, \
        (pda0._start_stack_symbol, pda1._start_stack_symbol)
    assert pda0.input_symbols == pda1.input_symbols
    assert pda0.stack_symbols == pda1.stack_symbols
    assert transitions(pda0) == transitions(pda1)


def round_trip(pda):
    res = PDA.from_networkx(pda.to_networkx())
    same(pda, res)
    return res


def hidden_nodes(graph):
    return [x for x in graph.nodes
            if graph.nodes[x].get("is_initial_stack_symbol", False)]


# 1. the reported case: colliding start state, no start stack symbol
p = PDA()
p.add_transition(HIDDEN, "a", "Z", "q", ["Z"])
p.set_start_state(HIDDEN)
q = round_trip(p)
assert q._start_stack_symbol is None
assert hidden_nodes(p.to_networkx()) == []

# 2. colliding state that is neither start nor final, no start stack symbol
p = PDA()
p.add_transition("q0", "a", "Z", HIDDEN, ["Y", "Z"])
p.add_transition(HIDDEN, "epsilon", "Y", "q1", [])
p.set_start_state("q0")
p.add_final_state("q1")
assert round_trip(p)._start_stack_symbol is None

# 3. colliding start + final state together WITH a start stack symbol:
#    the state keeps its marks and label, the hidden node gets another name
p = PDA()
p.add_transition(HIDDEN, "a", "Z", HIDDEN, ["A", "Z"])
p.add_transition(HIDDEN, "b", "A", "q", [])
p.set_start_state(HIDDEN)
p.add_final_state(HIDDEN)
p.set_start_stack_symbol("Z")
g = p.to_networkx()
assert g.nodes[HIDDEN]["label"] == HIDDEN
assert g.nodes[HIDDEN]["is_start"] and g.nodes[HIDDEN]["is_final"]
(hid,) = hidden_nodes(g)
assert hid != HIDDEN and hid not in [s.value for s in p.states]
assert g.degree(hid) == 0
assert round_trip(p)._start_stack_symbol == StackSymbol("Z")

# 4. the first candidates are all taken: the name is still fresh
p = PDA()
p.add_transition(HIDDEN, "a", "Z", HIDDEN + "_", ["Z"])
p.add_transition(HIDDEN + "_", "a", "Z", HIDDEN + "__", ["Z"])
p.set_start_state(HIDDEN + "_")
p.add_final_state(HIDDEN + "__")
p.set_start_stack_symbol("Z")
g = p.to_networkx()
(hid,) = hidden_nodes(g)
assert hid not in [s.value for s in p.states]
assert len(g.nodes) == len(p.states) + 2    # states + starting + hidden
round_trip(p)

# 5. the stack symbol itself is called like the hidden node / like a state
p = PDA()
p.add_transition(HIDDEN, "a", HIDDEN, "q", [HIDDEN, HIDDEN])
p.set_start_state(HIDDEN)
p.set_start_stack_symbol(HIDDEN)
assert round_trip(p)._start_stack_symbol == StackSymbol(HIDDEN)

# 6. two round trips in a row stay stable with a colliding state
p = PDA()
p.add_transition("s", "a", "Z", HIDDEN, ["Z"])
p.set_start_state("s")
p.add_final_state(HIDDEN)
p.set_start_stack_symbol("Z")
same(p, round_trip(round_trip(p)))

# 7. ordinary PDA with a start stack symbol: node name and label unchanged
p = PDA(states={"q0", "q1"}, start_state="q0", start_stack_symbol="Z0",
        final_states={"q1"})
p.add_transition("q0", "a", "Z0", "q0", ["A", "Z0"])
p.add_transition("q0", "a", "Z0", "q1", ["Z0"])     # nondeterministic
p.add_transition("q0", "epsilon", "A", "q1", [])
g = p.to_networkx()
assert hidden_nodes(g) == [HIDDEN]
assert g.nodes[HIDDEN]["label"] == '"Z0"'
assert g.nodes[HIDDEN]["height"] == .0 and g.nodes[HIDDEN]["width"] == .0
q = round_trip(p)
assert q._start_stack_symbol == StackSymbol("Z0")

# 8. ordinary PDA without start stack symbol: no hidden node at all
p = PDA()
p.add_transition(0, "a", "Z", 1, ["Z"])
p.set_start_state(0)
p.add_final_state(1)
g = p.to_networkx()
assert HIDDEN not in g.nodes and hidden_nodes(g) == []
assert round_trip(p)._start_stack_symbol is None

# 9. a graph in the former format (unmarked INITIAL_STACK_HIDDEN node that
#    is not a state) is still read as the start stack symbol
g = nx.MultiDiGraph()
g.add_node("q0", is_start=True, is_final=False, label="q0")
g.add_node("q1", is_start=False, is_final=True, label="q1")
g.add_node(HIDDEN, label='"Z0"', shape=None, height=.0, width=.0)
g.add_edge("q0", "q1", label='"a" -> "Z0" / ["Z0"]')
q = PDA.from_networkx(g)
assert q._start_stack_symbol == StackSymbol("Z0")
assert q.start_state == State("q0") and q.final_states == {State("q1")}
assert q.states == {State("q0"), State("q1")}

# 10. language preserved through the round trip with a colliding state
p = PDA()
p.add_transition(HIDDEN, "a", "Z", HIDDEN, ["A", "Z"])
p.add_transition(HIDDEN, "a", "A", HIDDEN, ["A", "A"])
p.add_transition(HIDDEN, "b", "A", "r", [])
p.add_transition("r", "b", "A", "r", [])
p.add_transition("r", "epsilon", "Z", "f", [])
p.set_start_state(HIDDEN)
p.add_final_state("f")
p.set_start_stack_symbol("Z")
q = round_trip(p)
c0 = p.to_empty_stack().to_cfg()
c1 = q.to_empty_stack().to_cfg()
for word in ([], ["a", "b"], ["a", "a", "b", "b"], ["a"], ["a", "b", "b"],
             ["b", "a"]):
    assert c0.contains(word) == c1.contains(word)
    assert c1.contains(word) == (len(word) > 0 and
                                 word == ["a"] * (len(word) // 2) +
                                 ["b"] * (len(word) // 2))

print("more_checks: all passed")
