# Additional checks for F30 (C20): the start pseudo-node of to_networkx must
# never be confused with (or merged into) a real state, in PDA, FA and FST.
import sys

from pyformlang.pda import PDA
from pyformlang.fst import FST
from pyformlang.finite_automaton import EpsilonNFA, Symbol
from pyformlang.rsa import RecursiveAutomaton

FAILED = []


def check(name, cond):
    print(("ok   " if cond else "FAIL ") + name)
    if not cond:
        FAILED.append(name)


def values(states):
    return {getattr(x, "value", x) for x in states}


def pda_transitions(pda):
    res = set()
    for (s_from, symb, stack_from), (s_to, stack_to) in \
            pda._transition_function:
        res.add((s_from.value, symb.value, stack_from.value, s_to.value,
                 tuple(x.value for x in stack_to)))
    return res


def same_pda(p, q):
    return (p.states == q.states and p.start_state == q.start_state
            and p.final_states == q.final_states
            and p._start_stack_symbol == q._start_stack_symbol
            and pda_transitions(p) == pda_transitions(q))


def pseudo_nodes(graph):
    return [n for n, d in graph.nodes(data=True)
            if "is_start" not in d and n != "INITIAL_STACK_HIDDEN"]


def fa_edges(fa):
    return {(a.value, b.value, c.value)
            for a, b, c in fa._transition_function.get_edges()}


def same_fa(a, b):
    return (a.states == b.states and a.start_states == b.start_states
            and a.final_states == b.final_states
            and fa_edges(a) == fa_edges(b))


def fst_transitions(fst):
    res = set()
    for (s_from, symb), targets in fst._delta.items():
        for s_to, out in targets:
            res.add((s_from, symb, s_to, tuple(out)))
    return res


def same_fst(a, b):
    return (a.states == b.states and a.start_states == b.start_states
            and a.final_states == b.final_states
            and fst_transitions(a) == fst_transitions(b))


# 1. PDA: the state "starting_q" IS the start state (the reported case, with
#    more transitions, a final state and a multi-symbol push)
p = PDA()
p.set_start_state("starting_q")
p.set_start_stack_symbol("Z")
p.add_final_state("f")
p.add_transition("starting_q", "a", "Z", "starting_q", ["A", "Z"])
p.add_transition("starting_q", "epsilon", "A", "f", [])
p.add_transition("f", "b", "Z", "starting_q", ["Z"])
g = p.to_networkx()
q = PDA.from_networkx(g)
check("1 PDA start state named starting_q round trips", same_pda(p, q))
check("1 PDA exactly one pseudo-node, not a state",
      len(pseudo_nodes(g)) == 1 and
      pseudo_nodes(g)[0] not in values(p.states))

# 2. PDA: start state "q" and ANOTHER state literally named "starting_q":
#    the natural pseudo-node name is taken by a real state
p = PDA()
p.set_start_state("q")
p.set_start_stack_symbol("Z")
p.add_final_state("starting_q")
p.add_transition("q", "a", "Z", "starting_q", ["Z"])
p.add_transition("starting_q", "b", "Z", "q", ["Z", "Z"])
p.add_transition("starting_q", "c", "Z", "starting_q", [])
g = p.to_networkx()
q = PDA.from_networkx(g)
check("2 PDA state starting_q next to start state q round trips",
      same_pda(p, q))
check("2 PDA real node starting_q keeps its own attributes",
      g.nodes["starting_q"]["label"] == "starting_q"
      and g.nodes["starting_q"]["is_final"] is True
      and "shape" not in g.nodes["starting_q"])
check("2 PDA pseudo-node is fresh and points to the start state only",
      len(pseudo_nodes(g)) == 1
      and pseudo_nodes(g)[0] not in ("q", "starting_q")
      and list(g[pseudo_nodes(g)[0]]) == ["q"])

# 3. PDA: a whole chain of colliding names
p = PDA()
p.set_start_state("q")
p.set_start_stack_symbol("Z")
for name in ("starting_q", "starting_q_", "starting_q__"):
    p.add_transition(name, "a", "Z", "q", ["Z"])
    p.add_transition("q", name, "Z", name, ["Z"])
g = p.to_networkx()
q = PDA.from_networkx(g)
check("3 PDA chain of colliding names round trips",
      same_pda(p, q) and q.get_number_transitions() == 6)
check("3 PDA fresh name avoids every state",
      len(pseudo_nodes(g)) == 1
      and pseudo_nodes(g)[0] not in values(p.states))

# 4. PDA: the collision comes from str() of a non-string start state
p = PDA()
p.set_start_state(1)
p.set_start_stack_symbol("Z")
p.add_final_state("starting_1")
p.add_transition(1, "a", "Z", "starting_1", ["Z"])
p.add_transition("starting_1", "a", "Z", 1, ["Z"])
q = PDA.from_networkx(p.to_networkx())
check("4 PDA int start state 1 and state 'starting_1' round trips",
      same_pda(p, q))

# 5. Epsilon NFA: several start states, one of them named after the
#    pseudo-node of another, epsilon transition, parallel edges
enfa = EpsilonNFA()
enfa.add_start_state("q")
enfa.add_start_state("starting_q")
enfa.add_final_state("f")
enfa.add_transitions([("q", "a", "f"), ("q", "b", "f"),
                      ("starting_q", "epsilon", "q"),
                      ("starting_q", "c", "f"), ("f", "a", "starting_q")])
g = enfa.to_networkx()
back = EpsilonNFA.from_networkx(g)
check("5 ENFA colliding start states round trips",
      same_fa(enfa, back) and enfa.is_equivalent_to(back))
check("5 ENFA two distinct pseudo-nodes, none is a state, real node intact",
      len(set(pseudo_nodes(g))) == 2
      and all(n not in values(enfa.states) for n in pseudo_nodes(g))
      and g.nodes["starting_q"]["label"] == "starting_q"
      and "shape" not in g.nodes["starting_q"])

# 6. Epsilon NFA: start states 1 and "1" have the same str(): two pseudo-nodes
enfa = EpsilonNFA()
enfa.add_start_state(1)
enfa.add_start_state("1")
enfa.add_final_state(2)
enfa.add_transitions([(1, "a", 2), ("1", "b", 2)])
g = enfa.to_networkx()
back = EpsilonNFA.from_networkx(g)
check("6 ENFA start states 1 and '1' round trips, one pseudo-node each",
      same_fa(enfa, back) and len(pseudo_nodes(g)) == 2
      and sorted(str(list(g[n])[0]) for n in pseudo_nodes(g)) == ["1", "1"]
      and {type(list(g[n])[0]) for n in pseudo_nodes(g)} == {int, str})

# 7. FST: colliding names, several start states, multi-symbol outputs
fst = FST()
fst.add_start_state("q")
fst.add_start_state("starting_q")
fst.add_final_state("f")
fst.add_transition("q", "a", "starting_q", ["x", "y"])
fst.add_transition("starting_q", "b", "f", [])
fst.add_transition("starting_q", "epsilon", "q", ["z"])
g = fst.to_networkx()
back = FST.from_networkx(g)
check("7 FST colliding start states round trips", same_fst(fst, back))
check("7 FST pseudo-nodes fresh, real node intact, same translations",
      len(set(pseudo_nodes(g))) == 2
      and all(n not in fst.states for n in pseudo_nodes(g))
      and g.nodes["starting_q"]["label"] == "starting_q"
      and sorted(map(tuple, back.translate(["a", "b"]))) ==
      sorted(map(tuple, fst.translate(["a", "b"]))))

# 8. Ordinary PDA: nothing changes, the pseudo-node keeps its usual name
p = PDA()
p.set_start_state("q0")
p.set_start_stack_symbol("Z0")
p.add_final_state("q2")
p.add_transition("q0", "a", "Z0", "q0", ["A", "Z0"])
p.add_transition("q0", "a", "A", "q0", ["A", "A"])
p.add_transition("q0", "b", "A", "q1", [])
p.add_transition("q1", "b", "A", "q1", [])
p.add_transition("q1", "epsilon", "Z0", "q2", ["Z0"])
g = p.to_networkx()
q = PDA.from_networkx(g)
check("8 ordinary PDA round trips, pseudo-node still 'starting_q0'",
      same_pda(p, q) and pseudo_nodes(g) == ["starting_q0"])

# 9. Ordinary ENFA and FST: usual names kept
enfa = EpsilonNFA()
enfa.add_transitions([(0, "abc", 1), (0, "d", 1), (0, "epsilon", 2)])
enfa.add_start_state(0)
enfa.add_final_state(1)
g = enfa.to_networkx()
check("9 ordinary ENFA round trips, pseudo-node still 'starting_0'",
      same_fa(enfa, EpsilonNFA.from_networkx(g))
      and pseudo_nodes(g) == ["starting_0"])
fst = FST()
fst.add_transitions([(0, "a", 1, ["b"]), (1, "epsilon", 0, ["c", "d"])])
fst.add_start_state(0)
fst.add_final_state(1)
g = fst.to_networkx()
check("9 ordinary FST round trips, pseudo-node still 'starting_0'",
      same_fst(fst, FST.from_networkx(g))
      and pseudo_nodes(g) == ["starting_0"])

# 10. A hand-made graph in the old format (pseudo-node "starting_q" without
#     state attributes) is still read as before
import networkx as nx
g = nx.MultiDiGraph()
g.add_node("q", is_start=True, is_final=False, label="q")
g.add_node("starting_q", label="", shape=None, height=.0, width=.0)
g.add_edge("starting_q", "q")
g.add_node("INITIAL_STACK_HIDDEN", label='"Z"')
g.add_edge("q", "q", label='"a" -> "Z" / ["Z", "Z"]')
q = PDA.from_networkx(g)
check("10 old-format graph still imported",
      values(q.states) == {"q"} and q.start_state.value == "q"
      and q.get_number_transitions() == 1)

# 11. The dot export of a recursive automaton (another reader of the
#     pseudo-node) drops the pseudo-node and keeps the colliding state
enfa = EpsilonNFA()
enfa.add_start_state("q")
enfa.add_final_state("starting_q")
enfa.add_transition("q", "a", "starting_q")
enfa.add_transition("starting_q", "b", "q")
from pyformlang.rsa import Box
dot = Box(enfa, Symbol("S")).to_subgraph_dot()
check("11 box dot export keeps both transitions and no pseudo edge",
      '"q" -> "starting_q" [label = "a"];' in dot
      and '"starting_q" -> "q" [label = "b"];' in dot
      and dot.count("->") == 2)
rsa = RecursiveAutomaton.from_ebnf("S -> a S b | a b")
check("11 ordinary recursive automaton dot export still works",
      "subgraph cluster_S" in rsa.to_dot())

if FAILED:
    print("FAILED:", FAILED)
    sys.exit(1)
print("all checks hold")
