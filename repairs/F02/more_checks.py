# F02 (C03): additional checks for get_complement / get_difference.
# Standalone: exits 0 when every check holds.
# Run: cd /tmp/fixwt/F02 && PYTHONPATH=/tmp/fixwt/F02 /venv/bin/python /tmp/fixes/F02/more_checks.py
import itertools
import os
import random
import subprocess
import sys

from pyformlang.finite_automaton import (
    EpsilonNFA, NondeterministicFiniteAutomaton, DeterministicFiniteAutomaton,
    State, Symbol, Epsilon)
from pyformlang.regular_expression import Regex


def words(alphabet, max_len):
    for length in range(max_len + 1):
        for word in itertools.product(alphabet, repeat=length):
            yield list(word)


def assert_complement(automaton, alphabet, max_len=5, label=""):
    """ complement accepts w  <=>  automaton rejects w, for every short word
    over the automaton's own alphabet; operator form agrees. """
    before = automaton.to_dict(), set(automaton.start_states), \
        set(automaton.final_states)
    comp = automaton.get_complement()
    neg = -automaton
    for word in words(alphabet, max_len):
        expected = not automaton.accepts(word)
        assert comp.accepts(word) == expected, (label, word, expected)
        assert neg.accepts(word) == expected, (label, "neg", word, expected)
    after = automaton.to_dict(), set(automaton.start_states), \
        set(automaton.final_states)
    assert before == after, (label, "operand was modified")
    return comp


def assert_difference(left, right, alphabet, max_len=5, label=""):
    diff = left.get_difference(right)
    sub = left - right
    for word in words(alphabet, max_len):
        expected = left.accepts(word) and not right.accepts(word)
        assert diff.accepts(word) == expected, (label, word, expected)
        assert sub.accepts(word) == expected, (label, "sub", word, expected)


def check_nondeterministic_branching():
    # the reported shape, plus a longer word behind the dead branch
    nfa = NondeterministicFiniteAutomaton()
    nfa.add_start_state(0)
    nfa.add_transition(0, "a", 1)
    nfa.add_transition(0, "a", 2)
    nfa.add_transition(2, "b", 3)
    nfa.add_final_state(1)
    nfa.add_final_state(3)
    comp = assert_complement(nfa, ["a", "b"], label="branching")
    assert not comp.accepts(["a"]) and not comp.accepts(["a", "b"])
    assert comp.accepts([]) and comp.accepts(["b"]) and comp.accepts(["a", "a"])


def check_epsilon_to_final():
    # 0 -eps-> 1(final): the empty word is accepted, so the complement must
    # reject it although state 0 itself is not final
    enfa = EpsilonNFA()
    enfa.add_start_state(0)
    enfa.add_transition(0, Epsilon(), 1)
    enfa.add_transition(1, "a", 0)
    enfa.add_final_state(1)
    comp = assert_complement(enfa, ["a"], label="eps-final")
    assert not comp.accepts([])


def check_several_start_states():
    enfa = EpsilonNFA()
    enfa.add_start_state(0)
    enfa.add_start_state(10)
    enfa.add_transition(0, "a", 1)
    enfa.add_transition(10, "b", 11)
    enfa.add_transition(10, "a", 12)
    enfa.add_final_state(1)
    enfa.add_final_state(11)
    comp = assert_complement(enfa, ["a", "b"], label="two starts")
    assert not comp.accepts(["a"]) and not comp.accepts(["b"])


def check_no_start_state_and_unused_symbol():
    # empty language over {a, b}: complement is every word over {a, b};
    # "b" is in the alphabet only through add_symbol
    enfa = EpsilonNFA()
    enfa.add_transition(0, "a", 1)
    enfa.add_final_state(1)
    enfa.add_symbol("b")
    comp = assert_complement(enfa, ["a", "b"], label="no start")
    assert comp.accepts([]) and comp.accepts(["b", "a", "b"])
    assert comp.symbols == {Symbol("a"), Symbol("b")}


def check_colliding_state_names():
    # names that look like the trash state or like a merged subset, and two
    # distinct states whose values print the same
    nfa = NondeterministicFiniteAutomaton()
    nfa.add_start_state("TrashNode")
    nfa.add_transition("TrashNode", "a", 1)
    nfa.add_transition("TrashNode", "a", 2)
    nfa.add_transition("TrashNode", "b", "1;2")
    nfa.add_transition("TrashNode", "b", "1")
    nfa.add_transition(1, "a", "TrashNode0")
    nfa.add_transition("1;2", "b", "TrashNode0")
    nfa.add_transition("1", "a", "1")
    nfa.add_final_state("TrashNode0")
    nfa.add_final_state(2)
    assert State(1) != State("1")
    assert_complement(nfa, ["a", "b"], label="colliding names")


def check_result_is_complete_and_deterministic():
    enfa = Regex("(a|b)*.a.(a|b)").to_epsilon_nfa()
    comp = assert_complement(enfa, ["a", "b"], max_len=6, label="regex")
    assert comp.is_deterministic()
    assert len(comp.start_states) == 1
    for state in comp.states:
        for symbol in comp.symbols:
            assert len(comp(state, symbol)) == 1, (state, symbol)
    # complement twice gives the language back
    back = comp.get_complement()
    for word in words(["a", "b"], 6):
        assert back.accepts(word) == enfa.accepts(word), word
    assert back.is_equivalent_to(enfa)


def check_ordinary_dfa_unchanged():
    # the shape used by the library's own DFA test
    dfa = DeterministicFiniteAutomaton()
    dfa.add_start_state(0)
    dfa.add_final_state(2)
    dfa.add_transition(0, "a", 1)
    dfa.add_transition(1, "b", 2)
    comp = assert_complement(dfa, ["a", "b"], label="dfa")
    assert comp.accepts(["a"]) and comp.accepts(["b"]) and comp.accepts([])
    assert comp.accepts(["b", "a"]) and not comp.accepts(["a", "b"])
    # the documented example
    enfa = EpsilonNFA()
    enfa.add_transitions([(0, "abc", 1), (0, "d", 1), (0, "epsilon", 2)])
    enfa.add_start_state(0)
    enfa.add_final_state(1)
    comp = enfa.get_complement()
    assert comp.accepts(["epsilon"]) and not comp.accepts(["abc"])
    assert isinstance(comp, EpsilonNFA)


def check_difference_with_nondeterministic_right_operand():
    # a* minus (words of a's whose length is a multiple of 2 or of 3),
    # the right operand guessing the modulus from two start states;
    # state names collide across the operands
    left = EpsilonNFA()
    left.add_start_state(0)
    left.add_final_state(0)
    left.add_transition(0, "a", 0)
    left.add_transition(0, "b", 1)
    right = EpsilonNFA()
    right.add_start_state(0)
    right.add_start_state(2)
    right.add_final_state(0)
    right.add_final_state(2)
    right.add_transitions([(0, "a", 1), (1, "a", 0),
                           (2, "a", 3), (3, "a", 4), (4, "a", 2)])
    assert_difference(left, right, ["a", "b"], max_len=7, label="mod 2 or 3")
    diff = left - right
    assert diff.accepts(["a"]) and diff.accepts(["a"] * 5)
    assert not diff.accepts(["a"] * 4) and not diff.accepts(["a"] * 3)
    assert not diff.accepts([])
    # right operand over a larger alphabet than the left one
    assert_difference(right, left, ["a", "b"], max_len=6, label="reversed")


def check_random_epsilon_nfas():
    rnd = random.Random(2)
    alphabet = ["a", "b"]
    for idx in range(150):
        enfa = EpsilonNFA()
        n_states = rnd.randint(1, 5)
        for _ in range(rnd.randint(0, 2)):
            enfa.add_start_state(rnd.randrange(n_states))
        for _ in range(rnd.randint(0, 2)):
            enfa.add_final_state(rnd.randrange(n_states))
        for _ in range(rnd.randint(0, 9)):
            symbol = rnd.choice(alphabet + [Epsilon()])
            enfa.add_transition(rnd.randrange(n_states), symbol,
                                rnd.randrange(n_states))
        own_alphabet = [x for x in alphabet if Symbol(x) in enfa.symbols]
        assert_complement(enfa, own_alphabet, max_len=4,
                          label="random %d" % idx)


CHECKS = [
    check_nondeterministic_branching,
    check_epsilon_to_final,
    check_several_start_states,
    check_no_start_state_and_unused_symbol,
    check_colliding_state_names,
    check_result_is_complete_and_deterministic,
    check_ordinary_dfa_unchanged,
    check_difference_with_nondeterministic_right_operand,
    check_random_epsilon_nfas,
]


def main():
    for check in CHECKS:
        check()
        print("ok  ", check.__name__)
    if os.environ.get("F02_CHILD") is None:
        # same checks under other set-iteration orders
        for seed in ("1", "7", "123"):
            env = dict(os.environ, PYTHONHASHSEED=seed, F02_CHILD="1")
            res = subprocess.run([sys.executable, os.path.abspath(__file__)],
                                 env=env, stdout=subprocess.PIPE,
                                 stderr=subprocess.STDOUT, text=True)
            assert res.returncode == 0, (seed, res.stdout)
            print("ok   all checks again with PYTHONHASHSEED=" + seed)
        print("ALL CHECKS PASSED")


if __name__ == "__main__":
    main()
