# Additional checks for F29 (C18): the Earley dummy head must be fresh w.r.t. the grammar
import itertools

from pyformlang.cfg import CFG, Variable, Terminal
from pyformlang.cfg.cfg import NotParsableException
from pyformlang.fcfg import FCFG, FeatureProduction, FeatureStructure

FAILURES = []


def check(name, cond):
    print(("ok   " if cond else "FAIL ") + name)
    if not cond:
        FAILURES.append(name)


def words(alphabet, max_len):
    for n in range(max_len + 1):
        for w in itertools.product(alphabet, repeat=n):
            yield list(w)


def agree(text, alphabet, max_len=4):
    plain = CFG.from_text(text)
    feat = FCFG.from_text(text)
    return all(plain.contains(w) == feat.contains(w) for w in words(alphabet, max_len))


# 1. the reported grammar, on every word up to length 4
check("1 S -> Gamma b | a ; Gamma -> c agrees with CFG",
      agree("S -> Gamma b | a\nGamma -> c\n", "abc"))

# 2. Gamma is the start symbol itself (dummy rule would be Gamma -> Gamma)
text2 = "Gamma -> a Gamma b | c\n"
plain2 = CFG.from_text(text2, start_symbol="Gamma")
feat2 = FCFG.from_text(text2, start_symbol="Gamma")
check("2 start symbol named Gamma",
      all(plain2.contains(w) == feat2.contains(w) for w in words("abc", 5))
      and feat2.contains(["a", "c", "b"]) and not feat2.contains(["a", "c"]))

# 3. user's Gamma occurs after the start symbol in a body, and is left recursive
check("3 left-recursive Gamma in bodies",
      agree("S -> S Gamma | a\nGamma -> Gamma b | c\n", "abc"))

# 4. the first fallback names are taken too: the name must be checked, not just changed
text4 = 'S -> Gamma b | "VAR:Gamma#1" c | "VAR:Gamma#2" d | a\n' \
        'Gamma -> e\n"VAR:Gamma#1" -> e\n"VAR:Gamma#2" -> e\n'
check("4 Gamma, Gamma#1, Gamma#2 all in use", agree(text4, "abcde", 3))
feat4 = FCFG.from_text(text4)
for bad in (["a", "b"], ["a", "c"], ["a", "d"]):
    check("4 rejects " + " ".join(bad), not feat4.contains(bad))
check("4 accepts e b / e c / e d / a",
      all(feat4.contains(w) for w in (["e", "b"], ["e", "c"], ["e", "d"], ["a"])))

# 5. Gamma used in a body only, never declared in `variables` and with no rule of its own
prod5 = [FeatureProduction(Variable("S"), [Variable("Gamma"), Terminal("b")],
                           FeatureStructure(), [FeatureStructure(), FeatureStructure()]),
         FeatureProduction(Variable("S"), [Terminal("a")], FeatureStructure(), [FeatureStructure()])]
feat5 = FCFG({Variable("S")}, {Terminal("a"), Terminal("b")}, Variable("S"), set(prod5))
check("5 body-only Gamma: 'a' in, 'a b' out",
      feat5.contains(["a"]) and not feat5.contains(["a", "b"]) and not feat5.contains(["b"]))

# 6. Gamma with features and agreement variables shared with the start symbol's body
text6 = """
S -> Gamma[N=?n] V[N=?n] | x
Gamma[N=sg] -> he
Gamma[N=pl] -> they
V[N=sg] -> runs
V[N=pl] -> run
"""
feat6 = FCFG.from_text(text6)
check("6 featured Gamma: agreement still enforced",
      feat6.contains(["he", "runs"]) and feat6.contains(["they", "run"])
      and not feat6.contains(["he", "run"]) and not feat6.contains(["they", "runs"]))
check("6 featured Gamma: dummy rule does not stand in for Gamma",
      feat6.contains(["x"]) and not feat6.contains(["x", "runs"]) and not feat6.contains(["x", "run"]))

# 7. get_parse_tree follows contains on the colliding grammar
feat7 = FCFG.from_text("S -> Gamma b | a\nGamma -> c\n")
try:
    feat7.get_parse_tree(["a", "b"])
    check("7 get_parse_tree(a b) raises NotParsableException", False)
except NotParsableException:
    check("7 get_parse_tree(a b) raises NotParsableException", True)
check("7 get_parse_tree(c b) is rooted at S",
      feat7.get_parse_tree(["c", "b"]).value == Variable("S"))

# 8. repeated calls and the grammar itself are unchanged by parsing
before = (set(feat7.variables), set(feat7.terminals), len(feat7.productions))
answers = [feat7.contains(["a", "b"]) for _ in range(3)] + [feat7.contains(["c", "b"]) for _ in range(3)]
check("8 answers stable across calls, grammar not modified",
      answers == [False] * 3 + [True] * 3
      and before == (set(feat7.variables), set(feat7.terminals), len(feat7.productions))
      and Variable("Gamma#1") not in feat7.variables)

# 9. ordinary grammars without any Gamma: nothing changed
# (epsilon productions are deliberately left out: FCFG mishandles them on HEAD already,
#  with or without this patch - a separate defect, see notes.md)
check("9 a^n b^n (epsilon-free)", agree("S -> a S b | a b\n", "ab", 6))
check("9 ambiguous, left recursive expressions", agree("E -> E p E | E t E | n\n", "ptn", 5))
check("9 a+ b+ chain", agree("S -> A B\nA -> a A | a\nB -> b B | b\n", "ab", 5))

# 10. the docstring example still behaves
fcfg = FCFG.from_text("""
    S -> NP[AGREEMENT=?a] VP[AGREEMENT=?a]
    S -> Aux[AGREEMENT=?a] NP[AGREEMENT=?a] VP
    NP[AGREEMENT=?a] -> Det[AGREEMENT=?a] Nominal[AGREEMENT=?a]
    Aux[AGREEMENT=[NUMBER=pl, PERSON=3rd]] -> do
    Aux[AGREEMENT=[NUMBER=sg, PERSON=3rd]] -> does
    Det[AGREEMENT=[NUMBER=sg]] -> this
    Det[AGREEMENT=[NUMBER=pl]] -> these
    "VAR:VP[AGREEMENT=?a]" -> Verb[AGREEMENT=?a]
    Verb[AGREEMENT=[NUMBER=pl]] -> serve
    Verb[AGREEMENT=[NUMBER=sg, PERSON=3rd]] -> "TER:serves"
    Noun[AGREEMENT=[NUMBER=sg]] -> flight
    Noun[AGREEMENT=[NUMBER=pl]] -> flights
    Nominal[AGREEMENT=?a] -> Noun[AGREEMENT=?a]
""")
check("10 docstring grammar",
      fcfg.contains(["this", "flight", "serves"]) and fcfg.contains(["these", "flights", "serve"])
      and not fcfg.contains(["this", "flights", "serves"]) and not fcfg.contains(["these", "flight", "serve"])
      and fcfg.contains(["does", "this", "flight", "serve"]))

print()
if FAILURES:
    print("FAILED:", FAILURES)
    raise SystemExit(1)
print("all checks hold")
