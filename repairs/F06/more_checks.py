"""Additional checks for F06: str(regex) must re-escape symbols that the
reader would otherwise take for operators, parentheses, epsilon, separators
or escapes, and must parse back to an equivalent regex."""
import itertools
import sys

from pyformlang.regular_expression import Regex, PythonRegex

FAILURES = []


def check(name, cond):
    if not cond:
        FAILURES.append(name)
        print("FAIL:", name)
    else:
        print("ok:  ", name)


def tree(regex):
    return (type(regex.head).__name__, regex.head.value,
            tuple(tree(son) for son in regex.sons))


def same_language(regex0, regex1):
    dfa0 = regex0.to_epsilon_nfa().to_deterministic().minimize()
    dfa1 = regex1.to_epsilon_nfa().to_deterministic().minimize()
    return dfa0.is_equivalent_to(dfa1)


def round_trips(text):
    regex = Regex(text)
    back = Regex(str(regex))
    return tree(back) == tree(regex) and same_language(regex, back)


# 1. every escaped one-character operator, alone
for op in [".", "|", "+", "*", "(", ")", "$", " ", "\\"]:
    r = Regex("\\" + op)
    check("single escaped %r prints %r and parses back" % (op, str(r)),
          str(r) == "\\" + op and Regex(str(r)).accepts([op])
          and not Regex(str(r)).accepts([]))

# 2. every escaped operator inside concatenation, union and star
for op in [".", "|", "+", "*", "(", ")", "$", " ", "\\"]:
    text = "a \\%s b | (\\%s)* c" % (op, op)
    r = Regex(text)
    back = Regex(str(r))
    check("escaped %r in context round-trips" % op,
          round_trips(text)
          and back.accepts(["a", op, "b"]) and back.accepts([op, op, "c"])
          and back.accepts(["c"]) and not back.accepts(["a", "b"]))

# 3. the escaped word epsilon is a symbol and stays one; real epsilon stays
# (compared on the trees: the automaton side reads the *word* item "epsilon"
# as the empty word, which is another matter than printing)
r = Regex("\\epsilon a")
back = Regex(str(r))
check("escaped epsilon stays a symbol",
      str(r) == "(\\epsilon.a)" and tree(back) == tree(r)
      and "Symbol(epsilon)" in back.get_tree_str()
      and not back.accepts(["a"]))
r = Regex("epsilon a | $ b")
back = Regex(str(r))
check("true epsilon still printed as epsilon",
      str(r) == "(($.a)|($.b))" and back.accepts(["a"])
      and back.accepts(["b"]) and not back.accepts([])
      and round_trips("epsilon a|$ b"))

# 4. symbols of several characters beginning with an escaped operator
for text, word in [("\\+b", ["+b"]), ("x \\(y", ["x", "(y"]),
                   ("\\*\\* | c", ["*\\*"]), ("\\\\\\+", ["\\\\+"])]:
    r = Regex(text)
    check("%r accepts %r and round-trips" % (text, word),
          r.accepts(word) and Regex(str(r)).accepts(word)
          and round_trips(text))

# 5. regexes built with union / concatenate / kleene_star from escaped parts
plus, star, par = Regex("\\+"), Regex("\\*"), Regex("\\)")
built = plus.concatenate(star).union(par.kleene_star())
back = Regex(str(built))
check("operations on escaped symbols print parseable text",
      same_language(built, back) and back.accepts(["+", "*"])
      and back.accepts([")", ")"]) and back.accepts([])
      and not back.accepts(["+"]))

# 6. printing twice is stable (no escape is added at each round)
text = "(\\+ | \\. \\$)* \\( \\)"
once = str(Regex(text))
twice = str(Regex(once))
check("printing is idempotent", once == twice)

# 7. PythonRegex, whose text is full of escapes, prints parseable text
p_regex = PythonRegex("a\\+\\(b|\\.\\*")
back = Regex(str(p_regex))
check("PythonRegex with escapes round-trips",
      same_language(p_regex, back) and back.accepts(["a", "+", "(", "b"])
      and back.accepts([".", "*"]))

# 8. exhaustive: all texts of up to 4 tokens over a token alphabet
TOKENS = ["a", "bc", " ", ".", "|", "+", "*", "(", ")", "epsilon", "$",
          "\\+", "\\|", "\\*", "\\.", "\\(", "\\)", "\\$", "\\ "]
n_parsed = 0
bad = []
for n in range(1, 5):
    for tokens in itertools.product(TOKENS, repeat=n):
        text = "".join(tokens)
        try:
            regex = Regex(text)
        except Exception:  # ill-formed text is not the subject here
            continue
        if "Empty" in regex.get_tree_str():
            continue  # the empty-language node has no syntax (other issue)
        n_parsed += 1
        try:
            if tree(Regex(str(regex))) != tree(regex):
                bad.append(text)
        except Exception:
            bad.append(text)
check("all %d well-formed texts of <= 4 tokens round-trip (bad: %r)"
      % (n_parsed, bad[:5]), n_parsed > 1000 and not bad)

# 9. ordinary inputs print exactly as before
check("ordinary regex text unchanged",
      str(Regex("a*.(b|c)epsilon")) == "((a)*.((b|c).$))"
      and str(Regex("abc|d e")) == "(abc|(d.e))"
      and str(Regex("a b c")) == "(a.(b.c))")

# 10. ordinary behaviour unchanged
regex = Regex("(a|b)* c")
check("ordinary accepts / to_cfg unchanged",
      regex.accepts(["a", "b", "c"]) and not regex.accepts(["a"])
      and regex.to_cfg().contains(["b", "c"])
      and Regex("\\+ a").to_cfg().contains(["+", "a"])
      and "Symbol(+)" in Regex("\\+ a").get_tree_str())

if FAILURES:
    print("%d check(s) failed" % len(FAILURES))
    sys.exit(1)
print("all checks hold")
