# Additional checks for F19 (C17): the arborescence ordering (optim 4 and 5)
# must work whether or not "S" is a node of the dependency graph, and must
# give the same verdict as every other ordering option.
from itertools import permutations

from pyformlang.indexed_grammar import (
    Rules, EndRule, ProductionRule, ConsumptionRule, DuplicationRule,
    IndexedGrammar)
from pyformlang.indexed_grammar.rule_ordering import RuleOrdering
from pyformlang.regular_expression import Regex

FAILED = []


def check(name, condition):
    print(("ok   " if condition else "FAIL ") + name)
    if not condition:
        FAILED.append(name)


def verdicts(rules, start="S", perms=False):
    """All is_empty verdicts over optim 0..8 (and rule permutations)."""
    res = set()
    orders = permutations(rules) if perms else [rules]
    for order in orders:
        for optim in range(9):
            res.add(IndexedGrammar(Rules(list(order), optim=optim),
                                   start).is_empty())
    return res


# 1. No rule at all: the graph is empty, "S" is not a node
check("no rule: empty for every optim", verdicts([]) == {True})

# 2. Only end rules, several of them, none linked to anything
check("end rules only: non-empty for every optim",
      verdicts([EndRule("S", "a"), EndRule("T", "b")], perms=True) == {False})

# 3. The start variable is not named "S" and "S" appears nowhere
RULES_3 = [ProductionRule("A", "B", "f"),
           ConsumptionRule("f", "B", "C"),
           EndRule("C", "c")]
check("start variable A, no S anywhere: non-empty for every optim",
      verdicts(RULES_3, start="A", perms=True) == {False})
check("same rules, start S has no rule: empty for every optim",
      verdicts(RULES_3, start="S", perms=True) == {True})

# 4. S has only self-loops: _get_graph skips them, so S is not a node
RULES_4 = [DuplicationRule("S", "S", "S"), EndRule("S", "a")]
check("S only in a self-loop duplication: non-empty for every optim",
      verdicts(RULES_4, perms=True) == {False})
check("S only in a self-loop duplication, no end rule: empty",
      verdicts([DuplicationRule("S", "S", "S")]) == {True})

# 5. The graph is not empty but S is not one of its nodes
RULES_5 = [EndRule("S", "a"),
           DuplicationRule("A", "B", "C"),
           EndRule("B", "b"),
           EndRule("C", "c")]
check("S isolated next to a non-empty graph: non-empty for every optim",
      verdicts(RULES_5, perms=True) == {False})

# 6. Production whose index has no consumption rule: no edge is added, S is
#    not a node. The end rule A[sigma] -> a drops the stack, so a is derived.
check("production without consumption: non-empty for every optim",
      verdicts([ProductionRule("S", "A", "f"), EndRule("A", "a")],
               perms=True) == {False})
check("production without consumption nor end rule: empty for every optim",
      verdicts([ProductionRule("S", "A", "f"),
                DuplicationRule("A", "A", "A")], perms=True) == {True})

# 7. The ordering itself: a permutation of the rules, stable when nothing
#    is reachable from S
RULES_7 = [EndRule("S", "a"), EndRule("T", "b"), EndRule("U", "c")]
check("order_by_arborescence(reverse=False) keeps the given order",
      RuleOrdering(list(RULES_7), {}).order_by_arborescence(reverse=False)
      == RULES_7)
check("order_by_arborescence(reverse=True) reverses the given order",
      RuleOrdering(list(RULES_7), {}).order_by_arborescence(reverse=True)
      == RULES_7[::-1])

# 8. Ordinary grammar (the one of the test suite): S is a node, unchanged
RULES_8 = [ProductionRule("S", "Cinit", "end"),
           ProductionRule("Cinit", "C", "b"),
           ConsumptionRule("end", "C", "T"),
           ProductionRule("C", "C0", "f"),
           DuplicationRule("C0", "C1", "C2"),
           ConsumptionRule("f", "C1", "Cbis"),
           ConsumptionRule("f", "C2", "Cbis"),
           ConsumptionRule("b", "Cbis", "T2"),
           ConsumptionRule("end", "T2", "T"),
           EndRule("T", "epsilon")]
check("ordinary grammar with S in the graph: non-empty for every optim",
      verdicts(RULES_8) == {False})
for optim in (4, 5):
    ordered = Rules(RULES_8, optim=optim).rules
    expected = [x for x in RULES_8 if not x.is_consumption()]
    check("optim %d yields a permutation of the non consumption rules"
          % optim,
          len(ordered) == len(expected)
          and all(x in ordered for x in expected))

# 9. remove_useless_rules and intersection go through Rules(..., optim) again
for optim in (4, 5):
    i_g = IndexedGrammar(Rules([EndRule("S", "a")], optim=optim))
    check("optim %d: remove_useless_rules keeps the verdict" % optim,
          not i_g.remove_useless_rules().is_empty())
    check("optim %d: intersection with a accepts" % optim,
          not i_g.intersection(Regex("a")).is_empty())
    check("optim %d: intersection with b is empty" % optim,
          i_g.intersection(Regex("b")).is_empty())

if FAILED:
    raise SystemExit("%d check(s) failed: %s" % (len(FAILED), FAILED))
print("all checks hold")
