# F23 (C19) additional checks: converting / querying a parent regex must not
# change what any of its sons (direct, nested, shared, parsed) answers.
import sys
from pyformlang.regular_expression import Regex, PythonRegex

FAILS = []


def check(name, cond):
    print(("ok   " if cond else "FAIL ") + name)
    if not cond:
        FAILS.append(name)


def answers(regex, words):
    return [regex.accepts(w) for w in words]


WORDS = [[], ["a"], ["b"], ["c"], ["a", "b"], ["b", "a"], ["a", "a"],
         ["a", "b", "c"], ["b", "b", "b"], ["c", "c"]]

# 1. union: both sons keep their own language (the second son too)
r0, r1 = Regex("a"), Regex("b")
u = r0 | r1
u.accepts(["a"])
check("union: sons unchanged",
      answers(r0, WORDS) == answers(Regex("a"), WORDS)
      and answers(r1, WORDS) == answers(Regex("b"), WORDS))
check("union: parent right",
      answers(u, WORDS) == answers(Regex("a|b"), WORDS))

# 2. concatenation
r0, r1 = Regex("a"), Regex("b")
c = r0 + r1
c.accepts(["a", "b"])
check("concatenation: sons unchanged",
      answers(r0, WORDS) == answers(Regex("a"), WORDS)
      and answers(r1, WORDS) == answers(Regex("b"), WORDS))
check("concatenation: parent right",
      answers(c, WORDS) == answers(Regex("a b"), WORDS))

# 3. kleene star
r0 = Regex("b")
k = r0.kleene_star()
k.accepts([])
check("kleene star: son unchanged",
      answers(r0, WORDS) == answers(Regex("b"), WORDS))
check("kleene star: parent right",
      answers(k, WORDS) == answers(Regex("b*"), WORDS))

# 4. to_epsilon_nfa (not only accepts) of the parent leaves the sons alone
r0, r1 = Regex("a"), Regex("b c")
u = r0 | r1
u.to_epsilon_nfa()
u.to_epsilon_nfa()
check("to_epsilon_nfa of parent: sons unchanged",
      answers(r0, WORDS) == answers(Regex("a"), WORDS)
      and answers(r1, WORDS) == answers(Regex("b c"), WORDS))

# 5. a son whose cache was already filled keeps that very cache
r0, r1 = Regex("a"), Regex("b")
r0.accepts(["a"])
cached = r0._enfa
u = r0 | r1
u.accepts(["b"])
check("filled cache of a son is kept", r0._enfa is cached
      and answers(r0, WORDS) == answers(Regex("a"), WORDS))

# 6. nested, with the same object shared at several depths and as both sons
r0, r1 = Regex("a"), Regex("b")
deep = ((r0 | r1) + r0.kleene_star()) | (r1 + r1)
inner = deep.sons[0]
deep.accepts(["a"])
check("nested/shared: leaves unchanged",
      answers(r0, WORDS) == answers(Regex("a"), WORDS)
      and answers(r1, WORDS) == answers(Regex("b"), WORDS))
check("nested/shared: inner node unchanged",
      answers(inner, WORDS) == answers(Regex("(a|b) a*"), WORDS))
check("nested/shared: parent right",
      answers(deep, WORDS) == answers(Regex("((a|b) a*)|(b b)"), WORDS))
same = r0 | r0
same.accepts(["a"])
check("same object as both sons",
      answers(r0, WORDS) == answers(Regex("a"), WORDS)
      and answers(same, WORDS) == answers(Regex("a|a"), WORDS))

# 7. sons created by the parser (public attribute sons)
parsed = Regex("a|(b c)")
parsed.accepts(["a"])
check("parsed sons unchanged",
      answers(parsed.sons[0], WORDS) == answers(Regex("a"), WORDS)
      and answers(parsed.sons[1], WORDS) == answers(Regex("b c"), WORDS))

# 8. epsilon / empty sons
eps, emp, r0 = Regex("$"), Regex(""), Regex("a")
u = (eps | r0) + (emp | r0)
u.accepts(["a"])
check("epsilon and empty sons unchanged",
      answers(eps, WORDS) == [w == [] for w in WORDS]
      and answers(emp, WORDS) == [False] * len(WORDS)
      and answers(u, WORDS) == answers(Regex("($|a) a"), WORDS))

# 9. order of queries does not matter: son first, parent, son again
r0, r1 = Regex("a*"), Regex("b")
before = answers(r0, WORDS)
c = r1 + r0
mid = answers(c, WORDS)
check("son before == son after", before == answers(r0, WORDS))
check("parent stable on repetition", mid == answers(c, WORDS))

# 10. PythonRegex operands
p0, p1 = PythonRegex("a+"), PythonRegex("[bc]")
u = p0 | p1
u.accepts(["b"])
check("PythonRegex sons unchanged",
      answers(p0, WORDS) == answers(PythonRegex("a+"), WORDS)
      and answers(p1, WORDS) == answers(PythonRegex("[bc]"), WORDS))

# 11. ordinary inputs: nothing else changed
reg = Regex("(a|b)* c")
check("ordinary accepts",
      reg.accepts(["a", "b", "c"]) and reg.accepts(["c"])
      and not reg.accepts(["a"]) and not reg.accepts(["c", "c"]))
enfa = Regex("a b|c*").to_epsilon_nfa()
check("ordinary to_epsilon_nfa",
      enfa.accepts(["a", "b"]) and enfa.accepts([]) and
      enfa.accepts(["c", "c"]) and not enfa.accepts(["a"]))
check("ordinary equivalence with minimal dfa",
      Regex("a b|c*").to_epsilon_nfa().minimize().is_equivalent_to(enfa))
check("ordinary to_cfg",
      Regex("(a|b)* c").to_cfg().contains(["a", "c"])
      and not Regex("(a|b)* c").to_cfg().contains(["a"]))

if FAILS:
    print("FAILED:", FAILS)
    sys.exit(1)
print("all checks hold")
