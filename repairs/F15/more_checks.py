"""Additional checks for F15: FST.kleene_star must be the Kleene star of the
relation (no start -> final skip edges).  Exits 0 when all checks hold."""
import itertools
import sys

from pyformlang.fst import FST

FAILURES = []


def check(name, cond, detail=""):
    print(("ok   " if cond else "FAIL ") + name + ("" if cond else "  " + detail))
    if not cond:
        FAILURES.append(name)


def make(starts, finals, transitions):
    fst = FST()
    for state in starts:
        fst.add_start_state(state)
    for state in finals:
        fst.add_final_state(state)
    fst.add_transitions(transitions)
    return fst


def relation(fst, word):
    """Reference semantics, independent of FST.translate: outputs of all
    start -> final paths reading word (epsilon cycles must write nothing)."""
    word = tuple(word)
    seen = set()
    todo = [(0, (), s) for s in fst.start_states]
    res = set()
    while todo:
        conf = todo.pop()
        if conf in seen:
            continue
        seen.add(conf)
        pos, out, state = conf
        if pos == len(word) and state in fst.final_states:
            res.add(out)
        if pos < len(word):
            for nxt, outs in fst.transitions.get((state, word[pos]), []):
                todo.append((pos + 1, out + tuple(outs), nxt))
        for nxt, outs in fst.transitions.get((state, "epsilon"), []):
            todo.append((pos, out + tuple(outs), nxt))
    return res


def star_reference(fst, word):
    """Kleene star of the relation of fst, applied to word."""
    word = tuple(word)
    assert relation(fst, ()) <= {()}, "test input must not write on epsilon"
    memo = {}

    def star(i):
        if i not in memo:
            res = {()} if i == len(word) else set()
            for j in range(i + 1, len(word) + 1):
                heads = relation(fst, word[i:j])
                if heads:
                    for tail in star(j):
                        res |= {head + tail for head in heads}
            memo[i] = res
        return memo[i]

    return star(0)


def compare_star(name, fst, alphabet, max_len=4):
    star = fst.kleene_star()
    bad = []
    for length in range(max_len + 1):
        for word in itertools.product(alphabet, repeat=length):
            got = list(star.translate(list(word)))
            expected = star_reference(fst, word)
            if {tuple(x) for x in got} != expected:
                bad.append((word, got, sorted(expected)))
    check(name, not bad, repr(bad[:3]))
    return star


# 1. the shape of the defect: final state with an outgoing loop
f1 = make([0], [1], [(0, "a", 1, ["x"]), (1, "b", 1, ["y"])])
s1 = compare_star("1 final state with a self loop", f1, "ab")
check("1b 'b' and 'bb' are not translated",
      list(s1.translate(["b"])) == [] and list(s1.translate(["b", "b"])) == [])
check("1c 'abab' -> xyxy",
      list(s1.translate(list("abab"))) == [["x", "y", "x", "y"]])

# 2. final state with an outgoing transition to another final state
f2 = make(["s"], ["f", "g"], [("s", "a", "f", ["1"]), ("f", "b", "g", ["2"]),
                              ("g", "c", "f", ["3"])])
compare_star("2 chain of final states", f2, "abc")

# 3. several start states and several final states, nondeterministic
f3 = make([0, 1], [2, 3], [(0, "a", 2, ["x"]), (0, "a", 3, ["y"]),
                           (1, "b", 2, ["z"]), (2, "b", 3, ["t"]),
                           (3, "a", 3, ["u"]), (2, "a", 0, ["v"])])
compare_star("3 several start/final states, nondeterministic", f3, "ab")

# 4. start state with an incoming transition, final with outgoing
f4 = make([0], [1], [(0, "a", 1, ["x"]), (1, "b", 0, ["y"]),
                     (1, "c", 1, ["z"])])
compare_star("4 start with incoming, final with outgoing", f4, "abc", 3)

# 5. epsilon-input moves, including an output-free epsilon cycle
f5 = make([0], [2], [(0, "epsilon", 1, []), (1, "epsilon", 0, []),
                     (1, "a", 2, ["x"]), (2, "b", 2, ["y"]),
                     (2, "epsilon", 3, []), (3, "c", 2, ["z"])])
compare_star("5 epsilon moves and output-free epsilon cycle", f5, "abc", 3)

# 6. state names that collide with the name wanted for the fresh state
f6 = make(["star_start"], ["star_start0"],
          [("star_start", "a", "star_start0", ["x"]),
           ("star_start0", "b", "star_start0", ["y"]),
           ("star_start0", "b", "star_start00", ["w"])])
s6 = compare_star("6 names colliding with the fresh state", f6, "ab")
check("6b fresh state is fresh: one more state, no transition on it",
      len(s6.states) == len(f6.states) + 1 and
      all(k[0] in f6.states and all(t[0] in f6.states for t in v)
          for k, v in s6.transitions.items()))

# 7. degenerate operands: the star is {(epsilon, epsilon)}
f7 = make([0], [], [(0, "a", 0, ["x"])])
s7 = f7.kleene_star()
check("7 no final state: star translates only the empty word",
      list(s7.translate([])) == [[]] and list(s7.translate(["a"])) == [])
s7b = FST().kleene_star()
check("7b empty FST: star translates only the empty word",
      list(s7b.translate([])) == [[]] and list(s7b.translate(["a"])) == [])

# 8. ordinary input (the library's own example): a -> b
f8 = make(["q0"], ["q1"], [("q0", "a", "q1", ["b"])])
s8 = f8.kleene_star()
check("8 ordinary a->b star",
      list(s8.translate(["a"])) == [["b"]] and
      list(s8.translate(["a", "a"])) == [["b", "b"]] and
      list(s8.translate([])) == [[]] and
      list(s8.translate(["b"])) == [])

# 9. the operand is left untouched
before = (set(f1.states), set(f1.start_states), set(f1.final_states),
          {k: list(v) for k, v in f1.transitions.items()})
f1.kleene_star()
after = (set(f1.states), set(f1.start_states), set(f1.final_states),
         {k: list(v) for k, v in f1.transitions.items()})
check("9 operand not modified", before == after)

# 10. union and concatenation unchanged, and they compose with the star
u = f8.union(make(["q0"], ["q1"], [("q0", "b", "q1", ["c"])]))
check("10 union still fine",
      list(u.translate(["a"])) == [["b"]] and list(u.translate(["b"])) == [["c"]])
c = f8.concatenate(f1.kleene_star())
check("10b concatenate with a star",
      list(c.translate(list("a"))) == [["b"]] and
      list(c.translate(list("aab"))) == [["b", "x", "y"]] and
      list(c.translate(list("ab"))) == [])

# 11. star of a star
compare_star("11 star of star", f1.kleene_star(), "ab", 3)

if FAILURES:
    print("FAILED:", FAILURES)
    sys.exit(1)
print("all checks hold")
