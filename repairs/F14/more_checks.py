# Additional checks for F14 (C15): FCFG.get_parse_tree must hand out a real
# derivation tree even when several chart states are built from the same state.
import itertools

from pyformlang.cfg import Variable, Terminal, CFG
from pyformlang.cfg.cfg import NotParsableException
from pyformlang.fcfg import FCFG

FAILURES = []


def leaves(tree):
    if not tree.sons:
        # a variable without sons is an epsilon subtree
        return [] if isinstance(tree.value, Variable) else [tree.value]
    res = []
    for son in tree.sons:
        res += leaves(son)
    return res


def check_tree(grammar, tree, word, label):
    """Root = start symbol, every inner node is a production, leaves spell word"""
    bodies = {}
    for production in grammar.productions:
        bodies.setdefault(production.head, set()).add(tuple(production.body))
    ok = tree.value == grammar.start_symbol
    todo = [tree]
    while todo:
        node = todo.pop()
        if isinstance(node.value, Variable):
            body = tuple(son.value for son in node.sons)
            if body not in bodies.get(node.value, set()):
                ok = False
                print("  %s: %s -> %s is not a production" % (label, node.value, body))
        elif node.sons:
            ok = False
        todo += node.sons
    if leaves(tree) != [Terminal(x) for x in word]:
        ok = False
        print("  %s: leaves %s != word %s" % (label, leaves(tree), word))
    lefts = tree.get_leftmost_derivation()
    rights = tree.get_rightmost_derivation()
    for derivation in (lefts, rights):
        if derivation[0] != [grammar.start_symbol] or \
                derivation[-1] != [Terminal(x) for x in word]:
            ok = False
            print("  %s: bad derivation %s" % (label, derivation))
    return ok


def check(label, condition):
    print(("ok   " if condition else "FAIL ") + label)
    if not condition:
        FAILURES.append(label)


def check_all_words(label, text, alphabet, max_len, min_len=1):
    """Compare with the CFG of the same text on every word up to max_len"""
    fcfg = FCFG.from_text(text)
    cfg = CFG.from_text(text)
    good = True
    members = 0
    for size in range(min_len, max_len + 1):
        for word in itertools.product(alphabet, repeat=size):
            word = list(word)
            expected = cfg.contains(word)
            if fcfg.contains(word) != expected:
                good = False
                print("  %s: membership of %s differs" % (label, word))
                continue
            if expected:
                members += 1
                # contains() ran before on the same grammar object: the trees
                # must not depend on previous runs either
                for _ in range(2):
                    good &= check_tree(fcfg, fcfg.get_parse_tree(word), word, label)
            else:
                try:
                    fcfg.get_parse_tree(word)
                    good = False
                    print("  %s: tree for non member %s" % (label, word))
                except NotParsableException:
                    pass
    check("%s (%d member words)" % (label, members), good and members > 0)


# 1. The reported grammar, on every word (scanner twice from the same state)
check_all_words("1 S->A C, A,C->a|aa", """
S -> A C
A -> a | a a
C -> a | a a
""", ["a"], 5)

# 2. Ambiguity only through the completer: no terminal next to a variable
check_all_words("2 S->S S|a (completer shares the waiting state)", """
S -> S S | a
""", ["a"], 5)

# 3. Ambiguous expression grammar, left and right recursion mixed
check_all_words("3 S->S + S|S * S|( S )|n", """
S -> S + S | S * S | ( S ) | n
""", ["n", "+", "*", "(", ")"], 5)

# 4. A waiting state is completed by constituents of several lengths
check_all_words("4 S->A B C with overlapping spans", """
S -> A B C
A -> a | a a | a a a
B -> a | a b
C -> b | a b | b b
""", ["a", "b"], 6)

# 5. Same variable twice in one body, and the same body under two heads
check_all_words("5 S->A A|B, B->A A A", """
S -> A A | B
B -> A A A
A -> a | a a
""", ["a"], 6)

# 6. Scanner ambiguity inside a single production (terminals only, shared prefix)
check_all_words("6 S->a S|a a S|b", """
S -> a S | a a S | b
""", ["a", "b"], 6)

# 7. Epsilon subtree in the middle of a body
check_all_words("7 S->A B C with B->epsilon", """
S -> A B C
A -> a | a a
B -> $ | b
C -> a | a a
""", ["a", "b"], 5)

# 8. With features: the agreement still filters, and the tree is a real one
FCFG_AGREEMENT = FCFG.from_text("""
S -> NP[AGREEMENT=?a] VP[AGREEMENT=?a]
S -> Aux[AGREEMENT=?a] NP[AGREEMENT=?a] VP
NP[AGREEMENT=?a] -> Det[AGREEMENT=?a] Nominal[AGREEMENT=?a]
Aux[AGREEMENT=[NUMBER=pl, PERSON=3rd]] -> do
Aux[AGREEMENT=[NUMBER=sg, PERSON=3rd]] -> does
Det[AGREEMENT=[NUMBER=sg]] -> this
Det[AGREEMENT=[NUMBER=pl]] -> these
"VAR:VP[AGREEMENT=?a]" -> Verb[AGREEMENT=?a]
Verb[AGREEMENT=[NUMBER=pl]] -> serve
Verb[AGREEMENT=[NUMBER=sg, PERSON=3rd]] -> "TER:serves"
Noun[AGREEMENT=[NUMBER=sg]] -> flight
Noun[AGREEMENT=[NUMBER=pl]] -> flights
Nominal[AGREEMENT=?a] -> Noun[AGREEMENT=?a]
""")
WORD = ["this", "flight", "serves"]
check("8 agreement grammar: tree of 'this flight serves'",
      FCFG_AGREEMENT.contains(WORD) and
      check_tree(FCFG_AGREEMENT, FCFG_AGREEMENT.get_parse_tree(WORD), WORD, "8") and
      check_tree(FCFG_AGREEMENT, FCFG_AGREEMENT.get_parse_tree(["do", "these", "flights", "serve"]),
                 ["do", "these", "flights", "serve"], "8"))
check("9 agreement grammar: disagreeing sentences are still refused",
      not FCFG_AGREEMENT.contains(["this", "flights", "serves"]) and
      not FCFG_AGREEMENT.contains(["these", "flight", "serve"]) and
      not FCFG_AGREEMENT.contains(["this", "flight", "serve"]))

# 10. Ambiguous lexicon with features: fish/fishes are nouns and verbs, so the
# waiting NP and VP states are extended in several ways, and agreement filters
FCFG_LEX = FCFG.from_text("""
S -> NP[N=?a] VP[N=?a]
NP[N=?a] -> Det Noun[N=?a]
NP[N=?a] -> Det Noun[N=?a] Noun[N=?a]
Det -> the
Noun[N=sg] -> fish
Noun[N=pl] -> fishes
"VAR:VP[N=?a]" -> Verb[N=?a]
"VAR:VP[N=?a]" -> Verb[N=?a] Noun
Verb[N=pl] -> fish
Verb[N=sg] -> fishes
""")
GOOD = True
for WORD in (["the", "fish", "fishes"], ["the", "fishes", "fish"],
             ["the", "fish", "fish", "fishes"], ["the", "fish", "fishes", "fish"],
             ["the", "fishes", "fish", "fish"], ["the", "fishes", "fishes", "fish", "fishes"]):
    GOOD &= FCFG_LEX.contains(WORD) and check_tree(FCFG_LEX, FCFG_LEX.get_parse_tree(WORD), WORD, "10")
for WORD in (["the", "fish", "fish"], ["the", "fishes", "fishes"], ["the", "fish", "fishes", "fishes", "fish"]):
    GOOD &= not FCFG_LEX.contains(WORD)
check("10 ambiguous lexicon with features", GOOD)

# 11. Two trees asked from the same grammar are independent objects of the right shape
FCFG_TWO = FCFG.from_text("""
S -> A C
A -> a | a a
C -> a | a a
""")
TREE_2 = FCFG_TWO.get_parse_tree(["a", "a"])
TREE_4 = FCFG_TWO.get_parse_tree(["a", "a", "a", "a"])
check("11 successive calls do not change earlier trees",
      check_tree(FCFG_TWO, TREE_2, ["a", "a"], "11") and
      check_tree(FCFG_TWO, TREE_4, ["a"] * 4, "11") and
      [len(x.sons) for x in TREE_2.sons] == [1, 1] and
      [len(x.sons) for x in TREE_4.sons] == [2, 2])

# 12. Ordinary unambiguous grammar: nothing changed
check_all_words("12 S->a S b|c (unambiguous)", """
S -> a S b | c
""", ["a", "b", "c"], 5)

if FAILURES:
    print("FAILED:", FAILURES)
    raise SystemExit(1)
print("all checks hold")
