# F07 (C05): additional checks - the empty-language regex must print as text
# that reads back as the empty language, wherever it sits in the tree.
import itertools
import sys

from pyformlang.regular_expression import Regex, PythonRegex
from pyformlang.regular_expression.regex_objects import Empty

SYMBOLS = ["a", "b", "Empty"]
WORDS = [list(w) for n in range(4) for w in itertools.product(SYMBOLS, repeat=n)]
FAILURES = []


def check(name, cond):
    print(("ok   " if cond else "FAIL ") + name)
    if not cond:
        FAILURES.append(name)


def lang(regex):
    return [regex.accepts(w) for w in WORDS]


def round_trip_ok(regex):
    """ str(regex) parses back to the same tree and the same language """
    back = Regex(str(regex))
    return back.get_tree_str() == regex.get_tree_str() and \
        lang(back) == lang(regex) and \
        back.to_epsilon_nfa().is_equivalent_to(regex.to_epsilon_nfa())


# 1. the reported input, and the other spellings of the empty regex
for text in ["", " ", "()", "(())", "( )"]:
    r = Regex(text)
    check("empty regex %r: head of str() is Empty again" % text,
          isinstance(Regex(str(r)).head, Empty))
    check("empty regex %r: round trip keeps the (empty) language" % text,
          round_trip_ok(r) and not any(lang(r)))

# 2. the printed text never contains the internal tag
check("str(Regex('')) does not show the tag", "Empty" not in str(Regex("")))

# 3. the empty regex under each operator, built by the parser
for text in ["a|", "a|()", "()|a", "a ()", "() a", "a.", "()*", "(())*",
             "(()|a) b", "(a ()) | b", "(a|()) *", "()|()", "() ()"]:
    check("parsed %r round trips" % text, round_trip_ok(Regex(text)))

# 4. the empty regex under each operator, built by the methods
empty, sym_a = Regex(""), Regex("a")
built = {
    "empty.union(a)": empty.union(sym_a),
    "a.union(empty)": sym_a.union(empty),
    "empty.concatenate(a)": empty.concatenate(sym_a),
    "a.concatenate(empty)": sym_a.concatenate(empty),
    "empty.kleene_star()": empty.kleene_star(),
    "(a|empty)* . empty*": sym_a.union(empty).kleene_star().concatenate(
        empty.kleene_star()),
}
for name, regex in built.items():
    check("built %s round trips" % name, round_trip_ok(regex))
check("a|empty is {a}", lang(built["a.union(empty)"]) == lang(Regex("a")))
check("a.empty is empty", not any(lang(built["a.concatenate(empty)"])))
check("empty* is {epsilon}", lang(built["empty.kleene_star()"]) == lang(Regex("$")))

# 5. a symbol that happens to be spelled like the tag is still a symbol
r = Regex("Empty")
check("Regex('Empty') is the one-symbol regex",
      r.accepts(["Empty"]) and not r.accepts([]) and str(r) == "Empty"
      and round_trip_ok(r))
r = Regex("Empty|()")
check("symbol Empty next to the empty regex",
      str(r) == "(Empty|())" and round_trip_ok(r)
      and r.accepts(["Empty"]) and not r.accepts([]))

# 6. the tree view and the CFG of the empty regex are unchanged
check("tree view still names the node", Regex("").get_tree_str() == "Symbol(Empty)\n")
check("to_cfg of the empty regex is empty",
      Regex("").to_cfg().is_empty() and Regex(str(Regex(""))).to_cfg().is_empty())

# 7. PythonRegex shares the printer
p = PythonRegex("")
check("PythonRegex('') prints as text reading back to the same language",
      lang(Regex(str(p))) == lang(p))

# 8. ordinary inputs print exactly as before and round trip
for text, expected in [("a", "a"), ("$", "$"), ("epsilon", "$"),
                       ("a b", "(a.b)"), ("a|b", "(a|b)"), ("a*", "(a)*"),
                       ("a b|c*", "((a.b)|(c)*)"), ("(a|b)* c", "(((a|b))*.c)")]:
    r = Regex(text)
    check("ordinary %r prints %r" % (text, expected),
          str(r) == expected and round_trip_ok(r))

if FAILURES:
    print("%d check(s) failed" % len(FAILURES))
    sys.exit(1)
print("all checks hold")
