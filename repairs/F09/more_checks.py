# Additional checks for F09: the variables invented by to_normal_form
# (one per lifted terminal, one per split of a long body) must be fresh.
import itertools
import sys

from pyformlang.cfg import CFG, Production, Variable, Terminal

FAILED = []


def words_upto(cfg, alphabet, max_len):
    """ The words over alphabet, of length <= max_len, which cfg accepts """
    res = set()
    for length in range(max_len + 1):
        for word in itertools.product(alphabet, repeat=length):
            if cfg.contains(list(word)):
                res.add(word)
    return res


def check(name, cond):
    print(("ok   " if cond else "FAIL ") + name)
    if not cond:
        FAILED.append(name)


def cnf_is_sound(cfg, expected, alphabet, max_len):
    """ contains (CYK over the CNF) gives exactly the expected words, the
    CNF is in normal form, and it generates exactly the expected words """
    cnf = cfg.to_normal_form()
    got = words_upto(cfg, alphabet, max_len)
    generated = {tuple(x.value for x in w)
                 for w in cnf.get_words(max_length=max_len)}
    expected_no_eps = {w for w in expected if w}
    return cnf.is_normal_form() and got == expected and \
        generated == expected_no_eps


S = Variable("S")
a, b, c = Terminal("a"), Terminal("b"), Terminal("c")

# 1. the reported input: S -> a X, X -> b with X named 'a#CNF#'
X = Variable("a#CNF#")
g = CFG(start_symbol=S, productions={Production(S, [a, X]),
                                     Production(X, [b])})
check("1 user variable named a#CNF#",
      cnf_is_sound(g, {("a", "b")}, ["a", "b"], 3))

# 2. the colliding variable has a long body itself
g = CFG(start_symbol=S, productions={Production(S, [a, X, a]),
                                     Production(X, [b, b])})
check("2 a#CNF# with body b b, S -> a X a",
      cnf_is_sound(g, {("a", "b", "b", "a")}, ["a", "b"], 4))

# 3. the first fallback names are taken too
X1, X2 = Variable("a#CNF#1"), Variable("a#CNF#2")
g = CFG(start_symbol=S, productions={Production(S, [a, X, X1, X2]),
                                     Production(X, [b]),
                                     Production(X1, [c]),
                                     Production(X2, [b, c])})
check("3 a#CNF#, a#CNF#1, a#CNF#2 all in use",
      cnf_is_sound(g, {("a", "b", "c", "b", "c")}, ["a", "b", "c"], 5))

# 4. two terminals with the same text: Terminal(1) and Terminal("1")
one_i, one_s = Terminal(1), Terminal("1")
g = CFG(start_symbol=S, productions={Production(S, [one_i, one_s])})
cnf = g.to_normal_form()
check("4 Terminal(1) and Terminal('1') get different variables",
      cnf.is_normal_form()
      and g.contains([1, "1"])
      and not g.contains([1, 1])
      and not g.contains(["1", "1"])
      and not g.contains(["1", 1])
      and len(cnf.variables) == 3)

# 5. a user variable named like a split variable (as in the library's own
#    test_cnf) together with long bodies
T = Variable("C#CNF#1")
g = CFG(start_symbol=S, productions={Production(S, [T, a, T, b]),
                                     Production(T, [c])})
check("5 user variable named C#CNF#1",
      cnf_is_sound(g, {("c", "a", "c", "b")}, ["a", "b", "c"], 4))

# 6. the fallback name of a lifted terminal looks like a split variable:
#    terminal 'C' whose variable 'C#CNF#' is taken becomes 'C#CNF#1', which
#    the splitting of long bodies must then avoid
ter_c = Terminal("C")
Y = Variable("C#CNF#")
g = CFG(start_symbol=S, productions={Production(S, [ter_c, Y, a, b]),
                                     Production(Y, [b])})
check("6 lifted-terminal fallback name against split names",
      cnf_is_sound(g, {("C", "b", "a", "b")}, ["a", "b", "C"], 4))

# 7. the same grammar whatever the name of the variable: renaming X must not
#    change the language
for name in ["X", "a#CNF#", "b#CNF#", "C#CNF#1", "C#CNF#2"]:
    var = Variable(name)
    g = CFG(start_symbol=S,
            productions={Production(S, [a, var, b, var]),
                         Production(S, [a, b]),
                         Production(var, [b, a]),
                         Production(var, [a])})
    exp = {("a", "b")} | {("a",) + u + ("b",) + v
                          for u in [("b", "a"), ("a",)]
                          for v in [("b", "a"), ("a",)]}
    check("7 renaming to " + name, cnf_is_sound(g, exp, ["a", "b"], 6))

# 8. ordinary grammar: a^n b^n, names unchanged when nothing collides
g = CFG.from_text("S -> a S b | a b")
cnf = g.to_normal_form()
exp = {("a",) * n + ("b",) * n for n in range(1, 4)}
check("8 a^n b^n", cnf_is_sound(g, exp, ["a", "b"], 6))
check("8 default names kept",
      {Variable("a#CNF#"), Variable("b#CNF#"), Variable("C#CNF#1")}
      <= set(cnf.variables) and len(cnf.variables) == 4)

# 9. ordinary grammar with epsilon and unit productions
g = CFG.from_text("""S -> A B c | A
A -> a A | epsilon
B -> b | A""")
exp = set()
for i in range(0, 5):
    exp.add(("a",) * i)
    if i + 1 <= 4:
        exp.add(("a",) * i + ("c",))
    for j in range(0, 5):
        if i + j + 1 <= 4:
            exp.add(("a",) * i + ("a",) * j + ("c",))
    if i + 2 <= 4:
        exp.add(("a",) * i + ("b", "c"))
check("9 epsilon/unit grammar", cnf_is_sound(g, exp, ["a", "b", "c"], 4))

# 10. shared suffixes in long bodies are still shared and still right
g = CFG.from_text("""S -> a b c a | b b c a | c""")
cnf = g.to_normal_form()
check("10 shared suffix",
      cnf_is_sound(g, {("a", "b", "c", "a"), ("b", "b", "c", "a"), ("c",)},
                   ["a", "b", "c"], 4))

# 11. to_normal_form does not modify the original grammar
X = Variable("a#CNF#")
prods = {Production(S, [a, X]), Production(X, [b])}
g = CFG(start_symbol=S, productions=set(prods))
g.to_normal_form()
check("11 original grammar untouched",
      set(g.productions) == prods and g.variables == {S, X}
      and g.terminals == {a, b})

if FAILED:
    print("FAILED:", FAILED)
    sys.exit(1)
print("all checks hold")
