# F11 (C13): additional checks - the stack symbol invented by CFG.to_pda() for
# a terminal must be fresh w.r.t. the variables' names (and other terminals).
# Standalone: exits 0 when every check holds.
import itertools
import os
import subprocess
import sys

from pyformlang.cfg import CFG, Production, Variable, Terminal
from pyformlang.regular_expression import Regex

FAILED = []


def words(terminals, max_len):
    for size in range(max_len + 1):
        for word in itertools.product(terminals, repeat=size):
            yield list(word)


def same_language(cfg_0, cfg_1, terminals, max_len=4):
    """None if both grammars agree on all the words up to max_len,
    otherwise a word on which they differ.
    cfg_1 comes back from a PDA, whose input symbols are the str() of the
    terminals' values: its words are written with these."""
    for word in words(terminals, max_len):
        word_1 = [Terminal(str(x.value)) for x in word]
        if cfg_0.contains(word) != cfg_1.contains(word_1):
            return word
    return None


def check(name, condition, detail=""):
    print(("ok   " if condition else "FAIL ") + name +
          ("" if condition else " : " + str(detail)))
    if not condition:
        FAILED.append(name)


def round_trip_check(name, cfg, max_len=4):
    terminals = sorted(cfg.terminals, key=lambda x: str(x.value))
    pda = cfg.to_pda()
    diff = same_language(cfg, pda.to_cfg(), terminals, max_len)
    check(name + " [to_pda().to_cfg() keeps the language]",
          diff is None, diff)
    n_expected = len({("T", str(x.value)) for x in cfg.terminals} |
                     {("V", str(x.value)) for x in cfg.variables})
    check(name + " [one stack symbol per variable / terminal]",
          len(pda.stack_symbols) == n_expected,
          (len(pda.stack_symbols), n_expected))
    return pda


def colliding_checks():
    a, b = Terminal("a"), Terminal("b")
    S = Variable("S")

    # 1. the reported kind: a variable named like the symbol of terminal a
    T = Variable("#TERM#a")
    cfg = CFG(start_symbol=S,
              productions={Production(S, [a, T]), Production(T, [b])})
    round_trip_check("1 variable '#TERM#a'", cfg)

    # 2. the variables also take the first fallback names
    T1, T2 = Variable("#TERM#a#1"), Variable("#TERM#a#2")
    cfg = CFG(start_symbol=S,
              productions={Production(S, [a, T, T1, T2]),
                           Production(T, [b]),
                           Production(T1, [b, b]),
                           Production(T2, [])})
    round_trip_check("2 variables '#TERM#a', '#TERM#a#1', '#TERM#a#2'",
                     cfg, max_len=5)

    # 3. the start symbol itself collides, both terminals collide
    St, Tb = Variable("#TERM#a"), Variable("#TERM#b")
    cfg = CFG(start_symbol=St,
              productions={Production(St, [a, St, Tb]),
                           Production(St, [a, Tb]),
                           Production(Tb, [b, b])})
    round_trip_check("3 start symbol '#TERM#a' and variable '#TERM#b'",
                     cfg, max_len=6)

    # 4. a terminal whose own name starts with the prefix, plus the variable
    ta = Terminal("#TERM#a")
    V1, V2 = Variable("#TERM##TERM#a"), Variable("#TERM#a")
    cfg = CFG(start_symbol=S,
              productions={Production(S, [a, V1, ta, V2]),
                           Production(V1, [b]),
                           Production(V1, []),
                           Production(V2, [ta, ta])})
    round_trip_check("4 terminal '#TERM#a' with variables "
                     "'#TERM##TERM#a', '#TERM#a'", cfg, max_len=5)

    # 5. non-string values: Terminal(1) against Variable('#TERM#1')
    one, two = Terminal(1), Terminal(2)
    W = Variable("#TERM#1")
    cfg = CFG(start_symbol=S,
              productions={Production(S, [one, W]),
                           Production(W, [two]),
                           Production(W, [two, W])})
    round_trip_check("5 Terminal(1) against Variable('#TERM#1')", cfg)

    # 6. the other acceptance modes on the colliding grammar
    cfg = CFG(start_symbol=S,
              productions={Production(S, [a, T]), Production(T, [b])})
    pda = cfg.to_pda().to_final_state().to_empty_stack()
    diff = same_language(cfg, pda.to_cfg(), [a, b], 3)
    check("6 to_pda().to_final_state().to_empty_stack().to_cfg()",
          diff is None, diff)

    # 7. the terminal-popping transitions never pop a variable's symbol
    pda = cfg.to_pda()
    variable_names = {str(x.value) for x in cfg.variables}
    popped = {key[2].value for key in pda.to_dict()
              if key[1].value != "epsilon"}
    check("7 reading transitions pop only terminal symbols",
          not popped & variable_names and len(popped) == 2, popped)


def ordinary_checks():
    a, b = Terminal("a"), Terminal("b")
    S = Variable("S")

    # 8. no collision: the names are the usual ones
    cfg = CFG(start_symbol=S,
              productions={Production(S, [a, S, b]), Production(S, [])})
    pda = round_trip_check("8 a^n b^n", cfg, max_len=6)
    names = {x.value for x in pda.stack_symbols}
    check("8 a^n b^n [unchanged names]",
          names == {"S", "#TERM#a", "#TERM#b"}, names)
    check("8 a^n b^n [sizes]",
          len(pda.states) == 1 and pda.get_number_transitions() == 4,
          (len(pda.states), pda.get_number_transitions()))

    # 9. a grammar from text, with epsilon and several variables
    cfg = CFG.from_text("""
        S -> A B | c
        A -> a A | $
        B -> b B b | b
        """)
    round_trip_check("9 from_text grammar", cfg, max_len=5)

    # 10. intersection with a regex still works
    cfg = CFG(start_symbol=S,
              productions={Production(S, [a, S, b]), Production(S, [])})
    inter = cfg.intersection(Regex("a a b* | a b"))
    check("10 intersection with a regex",
          inter.contains([a, b]) and inter.contains([a, a, b, b]) and
          not inter.contains([a, a, a, b, b, b]) and not inter.contains([]))

    # 11. empty language / empty word only
    cfg = CFG(start_symbol=S, productions={Production(S, [a, S])})
    check("11 empty language", cfg.to_pda().to_cfg().is_empty())
    cfg = CFG(start_symbol=S, productions={Production(S, [])})
    back = cfg.to_pda().to_cfg()
    check("11 only the empty word",
          back.contains([]) and not back.is_empty())


def main():
    colliding_checks()
    ordinary_checks()
    if "--no-reseed" not in sys.argv:
        # 12. every set-iteration order: replay under several hash seeds
        for seed in ("1", "2", "3", "4"):
            env = dict(os.environ, PYTHONHASHSEED=seed)
            res = subprocess.run(
                [sys.executable, os.path.abspath(__file__), "--no-reseed"],
                env=env, stdout=subprocess.PIPE, stderr=subprocess.STDOUT,
                check=False)
            check("12 replay with PYTHONHASHSEED=" + seed,
                  res.returncode == 0, res.stdout.decode()[-600:])
    if FAILED:
        print("FAILED:", FAILED)
        sys.exit(1)
    print("all checks hold")


if __name__ == "__main__":
    main()
