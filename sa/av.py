"""Abstract values of the interpreter (types / alias locations / dependencies /
must-qualifiers / element abstraction).

* ``types``  may-set of type names, ``None`` = unknown.  Repo classes are named
  by their qualified name, builtins by a short lower-case name.
* ``alias``  may-set of locations the value can *be* (reference identity).  A
  location is ``(root, path)``; roots are ``self``, ``p:<param>``,
  ``fresh:<site>``, ``glob:<name>``.  All locations are rooted at the *entry
  point* of the running analysis (callees are analysed in the caller's terms).
* ``deps``   may-set of locations / model tags the value was computed from
  (data and control dependence).
* ``quals``  must-set of qualifiers (intersection at joins).
* ``elem``   abstraction of the elements of a container / iterator (dict: values),
  ``key`` of dict keys, ``items`` the components of a fixed-arity tuple.
"""
from __future__ import annotations

from dataclasses import dataclass, replace
from typing import Optional, Tuple

class _NoConst:
    """Singleton that survives pickling."""
    __slots__ = ()
    _inst = None

    def __new__(cls):
        if cls._inst is None:
            cls._inst = object.__new__(cls)
        return cls._inst

    def __reduce__(self):
        return (_NoConst, ())

    def __repr__(self):
        return "<noconst>"

    def __eq__(self, other):
        return isinstance(other, _NoConst)

    def __hash__(self):
        return 0x5EED


NOCONST = _NoConst()
MAX_PATH = 5
MAX_DEPTH = 4

Loc = Tuple[str, tuple]

PIECEWISE = "PIECEWISE"   # comprehension whose elements are tuple displays (see elem_of)
EMPTYQ = "EMPTY"      # qualifier of an empty container literal: neutral for set-level qualifiers


def loc(root: str, *path) -> Loc:
    return (root, tuple(path))


def loc_ext(l: Loc, step: str) -> Loc:
    root, path = l
    if len(path) >= MAX_PATH:
        # keep the head (which operand field) and the last step (which field is touched); elide the middle
        return (root, path[: MAX_PATH - 2] + ("*", step))
    return (root, path + (step,))


def loc_root(l: Loc) -> str:
    return l[0]


def loc_str(l) -> str:
    if isinstance(l, tuple) and len(l) == 2 and isinstance(l[1], tuple):
        return l[0] + "".join(("." + p) if p != "[]" else "[]" for p in l[1])
    return str(l)


def is_prefix(a: Loc, b: Loc) -> bool:
    return a[0] == b[0] and len(a[1]) <= len(b[1]) and b[1][: len(a[1])] == a[1]


@dataclass(frozen=True)
class AV:
    types: Optional[frozenset] = None
    alias: frozenset = frozenset()
    deps: frozenset = frozenset()
    quals: frozenset = frozenset()
    elem: Optional["AV"] = None
    key: Optional["AV"] = None
    items: Optional[tuple] = None
    const: object = NOCONST
    fn: Optional[tuple] = None

    # ------------------------------------------------------------ predicates
    def has_const(self) -> bool:
        return not isinstance(self.const, _NoConst)

    def is_top(self) -> bool:
        return self.types is None

    def only(self, *names) -> bool:
        return self.types is not None and len(self.types) > 0 and self.types <= frozenset(names)

    def may(self, name) -> bool:
        return self.types is None or name in self.types

    def with_deps(self, deps) -> "AV":
        if not deps or deps <= self.deps:
            return self
        return replace(self, deps=self.deps | frozenset(deps))

    def with_quals(self, quals) -> "AV":
        return replace(self, quals=self.quals | frozenset(quals))

    def short(self) -> str:
        t = "?" if self.types is None else "|".join(sorted(x.rsplit(".", 1)[-1] for x in self.types))
        s = t
        if self.alias:
            s += " @" + ",".join(sorted(loc_str(a) for a in self.alias))[:120]
        if self.quals:
            s += " !" + ",".join(sorted(str(q) for q in self.quals))[:120]
        if self.has_const():
            s += " =" + repr(self.const)[:40]
        return s


BOTTOM = AV(types=frozenset())
TOP = AV()


def t(*names, **kw) -> AV:
    return AV(types=frozenset(names), **kw)


def _depth(a: Optional[AV]) -> int:
    d = 0
    while a is not None:
        d += 1
        a = a.elem
    return d


# qualifiers implied by the class of a value: {qualifier: set of type names}; filled by sa.model.install
IMPLIED_QUALS = {}


def has_qual(a: AV, q) -> bool:
    if q in a.quals:
        return True
    tys = IMPLIED_QUALS.get(q)
    return bool(tys) and a.types is not None and bool(a.types) and a.types <= tys


def _join_quals(a: AV, b: AV) -> frozenset:
    if EMPTYQ in a.quals and EMPTYQ not in b.quals:
        return b.quals
    if EMPTYQ in b.quals and EMPTYQ not in a.quals:
        return a.quals
    out = a.quals & b.quals
    if IMPLIED_QUALS and (a.quals or b.quals):
        extra = {q for q in (a.quals | b.quals) if q in IMPLIED_QUALS and has_qual(a, q) and has_qual(b, q)}
        if extra:
            out = out | extra
    return out


def is_bottom(a: AV) -> bool:
    return a.types is not None and not a.types and not a.alias and a.fn is None and not a.deps


def join(a: Optional[AV], b: Optional[AV]) -> Optional[AV]:
    if a is None:
        return b
    if b is None:
        return a
    if a is b or a == b:
        return a
    if is_bottom(a):
        return b
    if is_bottom(b):
        return a
    types = None if (a.types is None or b.types is None) else a.types | b.types
    items = None
    ea, eb = a.elem, b.elem
    # an element abstraction of None means "no element" only for an empty container (EMPTY qualifier); for any other
    # value it means "elements unknown": the known side must not keep must-facts (qualifiers, precise types)
    if ea is None and eb is not None and EMPTYQ not in a.quals and a.items is None and not _scalar_only(a):
        eb = _unknown_elem(eb)
    elif eb is None and ea is not None and EMPTYQ not in b.quals and b.items is None and not _scalar_only(b):
        ea = _unknown_elem(ea)
    elem = join(ea, eb)
    if a.items is not None and b.items is not None and len(a.items) == len(b.items):
        items = tuple(join(x, y) for x, y in zip(a.items, b.items))
    elif a.items is not None and _scalar_only(b):
        items = a.items          # tuple | None: the tuple keeps its components
    elif b.items is not None and _scalar_only(a):
        items = b.items
    else:
        for side in (a, b):
            if side.items is not None:
                for it in side.items:
                    elem = join(elem, it)
    if _depth(elem) > MAX_DEPTH:
        elem = replace(elem, elem=None)
    const = a.const if (a.has_const() and b.has_const() and type(a.const) is type(b.const) and a.const == b.const) else NOCONST
    fn = a.fn if a.fn == b.fn else None
    return AV(types=types, alias=a.alias | b.alias, deps=a.deps | b.deps, quals=_join_quals(a, b),
              elem=elem, key=join(a.key, b.key), items=items, const=const, fn=fn)


_SCALARS = frozenset({"None", "int", "bool", "float", "str"})


def _scalar_only(a: AV) -> bool:
    return a.types is not None and a.types <= _SCALARS and a.elem is None and a.items is None


def _unknown_elem(e: AV) -> AV:
    return replace(e, types=None, quals=frozenset(), const=NOCONST, items=None)


def join_all(vals) -> AV:
    out = None
    for v in vals:
        out = join(out, v)
    return out if out is not None else BOTTOM


def all_deps(a: Optional[AV]) -> frozenset:
    """Deps of the value and of everything it contains."""
    if a is None:
        return frozenset()
    out = set(a.deps)
    if a.elem is not None:
        out |= all_deps(a.elem)
    if a.key is not None:
        out |= all_deps(a.key)
    if a.items:
        for it in a.items:
            out |= all_deps(it)
    return frozenset(out)


def elem_of(a: AV) -> AV:
    """Abstract element obtained by iterating / indexing `a`."""
    parts = []
    if a.items is not None:
        parts.extend(a.items)
    if a.elem is not None:
        parts.append(a.elem)
    if parts:
        e = join_all(parts)
    elif a.types is not None and a.types and a.types <= frozenset({"str"}):
        e = t("str")
    else:
        e = TOP
    alias = frozenset(loc_ext(l, "[]") for l in a.alias) | e.alias
    quals = frozenset(("ELEM_OF", q) for q in a.quals if q not in (EMPTYQ, PIECEWISE)) | e.quals
    if PIECEWISE in a.quals and e.items is not None:
        # a comprehension of tuple displays: each piece of an element has the provenance of the expression that made it;
        # which pieces exist is a control dependence (the loop over the container adds the container's deps to ctrl)
        return replace(e, alias=alias, quals=quals)
    return replace(e, alias=alias, deps=e.deps | a.deps, quals=quals)


CONTAINER_TYPES = frozenset({"set", "frozenset", "list", "dict", "tuple", "deque", "dict_items", "dict_keys",
                             "dict_values", "generator", "ndarray", "queue", "iterator"})
