"""Analysis A (effects & ownership) on top of interpreter summaries: operand
writes, returned aliases, cache-field bookkeeping.  DESIGN.md R4."""
from __future__ import annotations

from typing import Iterable, List, Tuple

from .av import AV, loc_str
from .model import CACHE_FIELDS, MUTATORS
from .state import Event, Summary


def operand_root(l) -> bool:
    r = l[0]
    return r == "self" or r.startswith("p:")


def cache_elems(l) -> List[str]:
    return [p for p in l[1] if p in CACHE_FIELDS]


def written_field(ev: Event, l) -> str:
    """Name of the field that is assigned / whose container is mutated."""
    path = [p for p in l[1] if p != "[]"]
    return path[-1] if path else "<object>"


def writes(summ: Summary):
    """(event, chain, loc) for every write in the closure whose target is rooted at an operand."""
    for ev, chain in summ.walk():
        if ev.kind != "write":
            continue
        for l in sorted(ev.target):
            if operand_root(l):
                yield ev, chain, l


def returned_operand_aliases(ret: AV):
    return sorted(l for l in ret.alias if operand_root(l))


def public_mutator_types():
    return set(MUTATORS.keys())


def chain_strs(chain) -> List[str]:
    return [str(getattr(s, 'site', s)) for s in chain]
