"""Verdicts, known findings, evidence files, exit codes (DESIGN.md 2.2 and 5)."""
from __future__ import annotations

import hashlib
import json
import os
import time
from dataclasses import dataclass, field
from typing import List, Optional

VERIF = os.path.dirname(os.path.dirname(os.path.abspath(__file__)))
EVIDENCE_DIR = os.environ.get("VERIF_EVIDENCE_DIR") or os.path.join(VERIF, "evidence")
REPLAY_DIR = os.path.join(EVIDENCE_DIR, "replay")
KNOWN_FILE = os.path.join(VERIF, "known_findings.json")

HOLDS, VIOLATION, ERROR = "HOLDS", "VIOLATION", "ANALYSIS-ERROR"


@dataclass
class Result:
    prop: str
    rule: str                 # R2, R4a, ...
    oblig: str                # obligation id, e.g. C01.1
    function: str             # qualified function the obligation is attached to / where it fails
    role: str                 # sink / role id (part of the finding key)
    verdict: str
    what: str = ""            # human readable statement of the obligation / failure
    site: Optional[dict] = None      # file/line/function/construct of the offending construct
    path: List[str] = field(default_factory=list)   # entry -> ... -> sink
    nontrivial: bool = True
    detail: dict = field(default_factory=dict)

    def key(self):
        return (self.prop, self.rule, self.function, self.role)

    def to_json(self):
        d = {"obligation": self.oblig, "rule": self.rule, "function": self.function, "role": self.role,
             "verdict": self.verdict, "what": self.what}
        if self.site:
            d["site"] = self.site
        if self.path:
            d["path"] = self.path
        if self.detail:
            d["detail"] = self.detail
        return d


def short_fn(q: str) -> str:
    """pyformlang.cfg.cfg.CFG.contains -> CFG.contains ; module functions keep the module's last component."""
    parts = q.split(".")
    if len(parts) >= 2 and parts[-2][:1].isupper():
        return parts[-2] + "." + parts[-1]
    if len(parts) >= 2:
        return parts[-2] + "." + parts[-1]
    return q


class Report:
    def __init__(self, prop: str, tier: str, seed: int = 0):
        self.prop = prop
        self.tier = tier
        self.seed = seed
        self.results: List[Result] = []
        self.t0 = time.time()
        self.stats = {}
        self.explanation = ""
        self.assumptions: List[str] = []
        self.notes: List[str] = []
        self.floor = 0

    # ------------------------------------------------------------------ add
    def add(self, rule, oblig, function, role, verdict, what="", site=None, path=None, nontrivial=True, **detail):
        r = Result(self.prop, rule, oblig, short_fn(function), role, verdict, what, site, list(path or []),
                   nontrivial, detail)
        self.results.append(r)
        return r

    def holds(self, rule, oblig, function, role, what="", **kw):
        return self.add(rule, oblig, function, role, HOLDS, what, **kw)

    def violation(self, rule, oblig, function, role, what="", **kw):
        return self.add(rule, oblig, function, role, VIOLATION, what, **kw)

    def error(self, rule, oblig, function, role, what="", **kw):
        return self.add(rule, oblig, function, role, ERROR, what, **kw)

    # ------------------------------------------------------------- finalise
    def finish(self) -> int:
        known = load_known()
        open_known = [k for k in known if k.get("status") == "open" and k.get("property") == self.prop]
        lines = []
        n_viol = 0
        n_err = 0
        matched = []
        os.makedirs(REPLAY_DIR, exist_ok=True)
        seen_keys = set()
        for r in self.results:
            if r.verdict == VIOLATION:
                k = match_known(r, open_known)
                if k is not None:
                    r.detail["known_finding"] = k["id"]
                    if k["id"] not in [m["id"] for m in matched]:
                        matched.append(k)
                        lines.append("KNOWN-FINDING: property=%s %s [%s] %s" % (self.prop, k["id"], k_key(k), k["what_fails"]))
                    continue
                if r.key() in seen_keys:
                    continue
                seen_keys.add(r.key())
                n_viol += 1
                path = self.write_replay(r)
                lines.append("VIOLATION property=%s replay=%s" % (self.prop, path))
                lines.append("  rule=%s obligation=%s function=%s role=%s" % (r.rule, r.oblig, r.function, r.role))
                lines.append("  %s" % r.what)
                if r.site:
                    lines.append("  at %s:%s in %s: %s" % (r.site.get("file"), r.site.get("line"), r.site.get("function"),
                                                         r.site.get("construct")))
                for p in r.path[:12]:
                    lines.append("    via %s" % p)
            elif r.verdict == ERROR:
                n_err += 1
                lines.append("ANALYSIS-ERROR property=%s rule=%s obligation=%s function=%s role=%s: %s"
                             % (self.prop, r.rule, r.oblig, r.function, r.role, r.what))
        n_hold = sum(1 for r in self.results if r.verdict == HOLDS)
        if self.floor and len(self.results) < self.floor:
            n_err += 1
            lines.append("ANALYSIS-ERROR property=%s: %d obligation instances enumerated, fewer than the %d confirmed by "
                         "hand (a rule matching nothing would pass vacuously)" % (self.prop, len(self.results), self.floor))
        self.write_evidence(n_viol, n_err, matched)
        for ln in lines:
            print(ln)
        print("%s tier=%s obligations=%d holds=%d known_findings=%d violations=%d analysis_errors=%d wall=%.1fs"
              % (self.prop, self.tier, len(self.results), n_hold, len(matched), n_viol, n_err, time.time() - self.t0))
        if n_viol:
            return 1          # a violation was decided on fully understood constructs; undecided obligations are listed too
        if n_err:
            return 2
        return 0

    def write_replay(self, r: Result) -> str:
        h = hashlib.sha1(repr(r.key()).encode()).hexdigest()[:12]
        path = os.path.join(REPLAY_DIR, "%s-%s.json" % (self.prop, h))
        with open(path, "w") as fh:
            json.dump({"property": self.prop, **r.to_json()}, fh, indent=1, default=str)
        return path

    def write_evidence(self, n_viol, n_err, matched):
        os.makedirs(EVIDENCE_DIR, exist_ok=True)
        results = self.results
        n = len(results)
        discharged = sum(1 for r in results if r.verdict == HOLDS)
        distinct = len({(r.key(), r.oblig) for r in results if r.nontrivial})
        samples = [r.to_json() for r in results[:40]]
        viol_samples = [r.to_json() for r in results if r.verdict != HOLDS][:40]
        cov = {
            "explanation": self.explanation,
            "evaluations": max(n, 1),
            "distinct_nontrivial": distinct,
            "rule": "one evaluation = one obligation instance (rule x entry point x sink/role) decided on the current "
                    "source of /repo; non-trivial = its discharge needed at least one resolved call or a branching path",
            "obligations": n,
            "discharged": discharged,
            "known_findings_matched": [k["id"] for k in matched],
            "not_holding": viol_samples,
            "samples": samples,
            "exhaustive": True,
        }
        cov.update(self.stats)
        ev = {
            "property_id": self.prop,
            "tier": self.tier,
            "seed": self.seed,
            "level": "other",
            "coverage": cov,
            "assumptions": self.assumptions,
            "wall_s": round(time.time() - self.t0, 2),
            "violations": n_viol,
            "analysis_errors": n_err,
            "notes": self.notes,
        }
        with open(os.path.join(EVIDENCE_DIR, "%s.json" % self.prop), "w") as fh:
            json.dump(ev, fh, indent=1, default=str)


def load_known():
    if not os.path.exists(KNOWN_FILE):
        return []
    with open(KNOWN_FILE) as fh:
        return json.load(fh).get("findings", [])


def k_key(k):
    return "%s %s %s" % (k.get("rule"), k.get("function"), k.get("role"))


def _same_function(a, b) -> bool:
    """Equal, or the same private helper after a move inside its module (into a mixin, to module level, back): a
    private helper is identified by its own name, not by the class that happens to hold it."""
    if a == b:
        return True
    if not a or not b:
        return False
    sa_, sb = a.rsplit(".", 1)[-1], b.rsplit(".", 1)[-1]
    return sa_ == sb and sa_.startswith("_") and not sa_.endswith("__")


def match_known(r: Result, open_known):
    for k in open_known:
        if k.get("rule") == r.rule and _same_function(k.get("function"), r.function) and k.get("role") == r.role:
            return k
    return None
