"""Static-analysis engine for pyformlang (see /verif/DESIGN.md section 2).

Nothing in this package imports or executes pyformlang; every fact is computed
from the source text under REPO_ROOT/pyformlang.
"""
import os

REPO_ROOT = os.environ.get("VERIF_REPO", "/repo")
PKG = "pyformlang"
