"""L0 - program index: modules, import maps, classes (C3 MRO), functions,
properties and a constant folder for module-level tables.

Only `ast` is used.  Test modules (any path component named ``tests``) are not
part of the analysed program.
"""
from __future__ import annotations

import ast
import hashlib
import os
import string as _string
from dataclasses import dataclass, field
from typing import Dict, List, Optional, Tuple

from . import PKG, REPO_ROOT


class AnalysisError(Exception):
    """The analysis cannot decide (anchor missing, construct not understood).

    Never folded into a pass and never into a violation: the CLI prints
    ANALYSIS-ERROR and exits 2.
    """


# ----------------------------------------------------------------------------
# entities
# ----------------------------------------------------------------------------

@dataclass
class ModuleInfo:
    name: str
    path: str
    src: str
    tree: ast.Module
    is_pkg: bool
    imports: Dict[str, tuple] = field(default_factory=dict)
    defs: Dict[str, object] = field(default_factory=dict)     # name -> ClassInfo|FuncInfo|ConstDef
    lines: List[str] = field(default_factory=list)

    @property
    def relpath(self) -> str:
        return os.path.relpath(self.path, REPO_ROOT)


@dataclass
class ConstDef:
    module: str
    name: str
    node: ast.expr


@dataclass
class FuncInfo:
    qname: str
    name: str
    module: str
    cls: Optional["ClassInfo"]
    node: ast.AST                    # FunctionDef | Lambda
    kind: str                        # method|static|class|function|property|setter
    is_generator: bool = False
    is_abstract: bool = False

    @property
    def params(self) -> List[str]:
        a = self.node.args
        names = [x.arg for x in a.posonlyargs + a.args]
        return names

    @property
    def lineno(self) -> int:
        return self.node.lineno

    def __hash__(self):
        return hash(self.qname)

    def __eq__(self, other):
        return isinstance(other, FuncInfo) and other.qname == self.qname

    def __repr__(self):
        return "<func %s>" % self.qname


@dataclass
class ClassInfo:
    qname: str
    name: str
    module: str
    node: ast.ClassDef
    base_exprs: List[ast.expr]
    bases: List[str] = field(default_factory=list)          # resolved repo class qnames
    ext_bases: List[str] = field(default_factory=list)      # unresolved / builtin bases (Exception, ...)
    mro: List[str] = field(default_factory=list)
    methods: Dict[str, FuncInfo] = field(default_factory=dict)      # own, by name (getter for properties)
    setters: Dict[str, FuncInfo] = field(default_factory=dict)
    class_attrs: Dict[str, ast.expr] = field(default_factory=dict)

    def __hash__(self):
        return hash(self.qname)

    def __eq__(self, other):
        return isinstance(other, ClassInfo) and other.qname == self.qname

    def __repr__(self):
        return "<class %s>" % self.qname


@dataclass(frozen=True)
class ModuleRef:
    name: str          # full module name; may be external


@dataclass(frozen=True)
class ExtRef:
    name: str          # dotted external name, e.g. networkx.MultiDiGraph


def _has_yield(fn: ast.AST) -> bool:
    """yield directly in this function (not in nested defs)."""
    todo = list(ast.iter_child_nodes(fn))
    while todo:
        n = todo.pop()
        if isinstance(n, (ast.Yield, ast.YieldFrom)):
            return True
        if isinstance(n, (ast.FunctionDef, ast.AsyncFunctionDef, ast.Lambda, ast.ClassDef)):
            continue
        todo.extend(ast.iter_child_nodes(n))
    return False


def _decorator_names(fn) -> List[str]:
    out = []
    for d in fn.decorator_list:
        try:
            out.append(ast.unparse(d))
        except Exception:  # pragma: no cover
            out.append("?")
    return out


# ----------------------------------------------------------------------------
# the program
# ----------------------------------------------------------------------------

class Program:
    def __init__(self, root: str = None):
        self.root = root or REPO_ROOT
        self.modules: Dict[str, ModuleInfo] = {}
        self.classes: Dict[str, ClassInfo] = {}
        self.functions: Dict[str, FuncInfo] = {}
        self._const_cache: Dict[Tuple[str, str], object] = {}
        self._load()
        self._link()

    # ------------------------------------------------------------------ load
    def _load(self):
        pkg_root = os.path.join(self.root, PKG)
        if not os.path.isdir(pkg_root):
            raise AnalysisError("package directory missing: %s" % pkg_root)
        for dirpath, dirnames, filenames in os.walk(pkg_root):
            dirnames[:] = sorted(d for d in dirnames if d != "tests" and d != "__pycache__")
            for fn in sorted(filenames):
                if not fn.endswith(".py"):
                    continue
                path = os.path.join(dirpath, fn)
                rel = os.path.relpath(path, self.root)[:-3]
                parts = rel.split(os.sep)
                is_pkg = parts[-1] == "__init__"
                if is_pkg:
                    parts = parts[:-1]
                name = ".".join(parts)
                with open(path, encoding="utf-8") as fh:
                    src = fh.read()
                try:
                    tree = ast.parse(src, filename=path)
                except SyntaxError as exc:
                    raise AnalysisError("module does not parse: %s (%s)" % (path, exc))
                self.modules[name] = ModuleInfo(name, path, src, tree, is_pkg, lines=src.splitlines())
        for mod in self.modules.values():
            self._index_module(mod)

    def digest(self) -> str:
        h = hashlib.sha256()
        for name in sorted(self.modules):
            h.update(name.encode())
            h.update(self.modules[name].src.encode())
        return h.hexdigest()

    def _abs_module(self, mod: ModuleInfo, level: int, target: Optional[str]) -> str:
        if level == 0:
            return target or ""
        parts = mod.name.split(".")
        if not mod.is_pkg:
            parts = parts[:-1]
        if level > 1:
            parts = parts[: len(parts) - (level - 1)]
        if target:
            parts = parts + target.split(".")
        return ".".join(parts)

    def _index_imports(self, mod: ModuleInfo, stmts, into: Dict[str, tuple]):
        for st in stmts:
            if isinstance(st, ast.Import):
                for al in st.names:
                    if al.asname:
                        into[al.asname] = ("mod", al.name)
                    else:
                        into[al.name.split(".")[0]] = ("mod", al.name.split(".")[0])
            elif isinstance(st, ast.ImportFrom):
                base = self._abs_module(mod, st.level, st.module)
                for al in st.names:
                    into[al.asname or al.name] = ("from", base, al.name)

    def import_bindings(self, mod: ModuleInfo, st) -> Dict[str, tuple]:
        out: Dict[str, tuple] = {}
        self._index_imports(mod, [st], out)
        return out

    def _index_module(self, mod: ModuleInfo):
        self._index_imports(mod, mod.tree.body, mod.imports)
        for st in mod.tree.body:
            if isinstance(st, ast.ClassDef):
                self._index_class(mod, st)
            elif isinstance(st, (ast.FunctionDef, ast.AsyncFunctionDef)):
                fi = FuncInfo(mod.name + "." + st.name, st.name, mod.name, None, st, "function",
                              is_generator=_has_yield(st))
                mod.defs[st.name] = fi
                self.functions[fi.qname] = fi
            elif isinstance(st, ast.Assign):
                for tgt in st.targets:
                    if isinstance(tgt, ast.Name):
                        mod.defs[tgt.id] = ConstDef(mod.name, tgt.id, st.value)
            elif isinstance(st, ast.AnnAssign) and isinstance(st.target, ast.Name) and st.value is not None:
                mod.defs[st.target.id] = ConstDef(mod.name, st.target.id, st.value)

    def _index_class(self, mod: ModuleInfo, node: ast.ClassDef):
        ci = ClassInfo(mod.name + "." + node.name, node.name, mod.name, node, list(node.bases))
        for st in node.body:
            if isinstance(st, (ast.FunctionDef, ast.AsyncFunctionDef)):
                decs = _decorator_names(st)
                kind = "method"
                if "staticmethod" in decs:
                    kind = "static"
                elif "classmethod" in decs:
                    kind = "class"
                elif "property" in decs:
                    kind = "property"
                elif any(d.endswith(".setter") for d in decs):
                    kind = "setter"
                fi = FuncInfo(ci.qname + "." + st.name, st.name, mod.name, ci, st, kind,
                              is_generator=_has_yield(st),
                              is_abstract=("abstractmethod" in decs))
                if kind == "setter":
                    ci.setters[st.name] = fi
                    self.functions[fi.qname + "#setter"] = fi
                else:
                    ci.methods[st.name] = fi
                    self.functions[fi.qname] = fi
            elif isinstance(st, ast.Assign):
                for tgt in st.targets:
                    if isinstance(tgt, ast.Name):
                        ci.class_attrs[tgt.id] = st.value
        mod.defs[node.name] = ci
        self.classes[ci.qname] = ci

    # ------------------------------------------------------------------ link
    def _link(self):
        for ci in self.classes.values():
            mod = self.modules[ci.module]
            for be in ci.base_exprs:
                ent = self.resolve_expr(mod, be)
                if isinstance(ent, ClassInfo):
                    ci.bases.append(ent.qname)
                else:
                    try:
                        ci.ext_bases.append(ast.unparse(be))
                    except Exception:  # pragma: no cover
                        ci.ext_bases.append("?")
        for ci in self.classes.values():
            ci.mro = self._c3(ci.qname)

    def _c3(self, q: str, _seen=()) -> List[str]:
        if q in _seen:
            raise AnalysisError("inheritance cycle at %s" % q)
        ci = self.classes[q]
        seqs = [self._c3(b, _seen + (q,)) for b in ci.bases] + [list(ci.bases)]
        res = [q]
        seqs = [list(s) for s in seqs if s]
        while seqs:
            for s in seqs:
                cand = s[0]
                if not any(cand in t[1:] for t in seqs):
                    break
            else:
                raise AnalysisError("inconsistent MRO for %s" % q)
            res.append(cand)
            seqs = [[x for x in s if x != cand] for s in seqs]
            seqs = [s for s in seqs if s]
        return res

    # --------------------------------------------------------------- lookups
    def lookup(self, modname: str, name: str, _guard=None):
        """Entity bound to `name` in module `modname` (ClassInfo, FuncInfo,
        ConstDef, ModuleRef, ExtRef) or None."""
        _guard = _guard or set()
        key = (modname, name)
        if key in _guard:
            return None
        _guard.add(key)
        mod = self.modules.get(modname)
        if mod is None:
            return ExtRef(modname + "." + name)
        if name in mod.defs:
            return mod.defs[name]
        if name in mod.imports:
            return self._resolve_binding(mod.imports[name], _guard)
        if mod.is_pkg and (modname + "." + name) in self.modules:
            return ModuleRef(modname + "." + name)
        return None

    def _resolve_binding(self, tgt: tuple, _guard=None):
        if tgt[0] == "mod":
            return ModuleRef(tgt[1])
        _, base, attr = tgt
        if base in self.modules:
            ent = self.lookup(base, attr, _guard)
            if ent is not None:
                return ent
            if (base + "." + attr) in self.modules:
                return ModuleRef(base + "." + attr)
            return None
        if base.split(".")[0] == PKG:
            return None
        return ExtRef(base + "." + attr)

    def resolve_binding(self, tgt: tuple):
        return self._resolve_binding(tgt)

    def attr_of(self, ent, attr: str):
        """Attribute of a module / class entity, statically."""
        if isinstance(ent, ModuleRef):
            if ent.name in self.modules:
                got = self.lookup(ent.name, attr)
                if got is not None:
                    return got
                if (ent.name + "." + attr) in self.modules:
                    return ModuleRef(ent.name + "." + attr)
                return None
            if ent.name.split(".")[0] == PKG:
                if (ent.name + "." + attr) in self.modules:
                    return ModuleRef(ent.name + "." + attr)
                return None
            return ExtRef(ent.name + "." + attr)
        if isinstance(ent, ExtRef):
            return ExtRef(ent.name + "." + attr)
        if isinstance(ent, ClassInfo):
            fi = self.find_method(ent.qname, attr)
            if fi is not None:
                return fi
            for q in ent.mro:
                c = self.classes[q]
                if attr in c.class_attrs:
                    return ConstDef(c.module, attr, c.class_attrs[attr])
        return None

    def resolve_expr(self, mod: ModuleInfo, expr: ast.expr, local_imports: Dict[str, tuple] = None):
        """Resolve a Name / dotted Attribute chain at module level."""
        if isinstance(expr, ast.Name):
            if local_imports and expr.id in local_imports:
                return self._resolve_binding(local_imports[expr.id])
            return self.lookup(mod.name, expr.id)
        if isinstance(expr, ast.Attribute):
            base = self.resolve_expr(mod, expr.value, local_imports)
            if base is None:
                return None
            return self.attr_of(base, expr.attr)
        if isinstance(expr, ast.Constant) and isinstance(expr.value, str):
            # string annotation: "EpsilonNFA" / "pda.PDA"
            try:
                sub = ast.parse(expr.value, mode="eval").body
            except SyntaxError:
                return None
            ent = self.resolve_expr(mod, sub, local_imports)
            if ent is None and isinstance(sub, ast.Name):
                # forward reference by bare class name anywhere in the package
                cands = [c for c in self.classes.values() if c.name == sub.id]
                same_pkg = [c for c in cands if c.module.rsplit(".", 1)[0] == mod.name.rsplit(".", 1)[0]]
                if len(same_pkg) == 1:
                    return same_pkg[0]
                if len(cands) == 1:
                    return cands[0]
            return ent
        return None

    def find_method(self, cls_q: str, name: str, after: str = None) -> Optional[FuncInfo]:
        """Method `name` visible from class `cls_q` through the MRO.  With
        `after`, start searching after that class in the MRO (super())."""
        ci = self.classes.get(cls_q)
        if ci is None:
            return None
        mro = ci.mro
        if after is not None:
            if after in mro:
                mro = mro[mro.index(after) + 1:]
            else:
                return None
        for q in mro:
            c = self.classes[q]
            if name in c.methods:
                return c.methods[name]
        return None

    def find_setter(self, cls_q: str, name: str) -> Optional[FuncInfo]:
        ci = self.classes.get(cls_q)
        if ci is None:
            return None
        for q in ci.mro:
            c = self.classes[q]
            if name in c.setters:
                return c.setters[name]
        return None

    def subclasses(self, cls_q: str, strict=False) -> List[str]:
        out = []
        for q, ci in self.classes.items():
            if cls_q in ci.mro and (not strict or q != cls_q):
                out.append(q)
        return sorted(out)

    def is_subclass(self, q: str, base: str) -> bool:
        ci = self.classes.get(q)
        return ci is not None and base in ci.mro

    def cls(self, name: str) -> ClassInfo:
        """Class by qualified name or by unique short name; AnalysisError if
        the anchor vanished."""
        if name in self.classes:
            return self.classes[name]
        cands = [c for c in self.classes.values() if c.name == name]
        if len(cands) == 1:
            return cands[0]
        raise AnalysisError("anchor class not found or ambiguous: %s (%d candidates)" % (name, len(cands)))

    def func(self, qname: str) -> FuncInfo:
        if qname in self.functions:
            return self.functions[qname]
        raise AnalysisError("anchor function not found: %s" % qname)

    def method(self, cls_name: str, meth: str) -> FuncInfo:
        ci = self.cls(cls_name)
        fi = self.find_method(ci.qname, meth)
        if fi is None:
            fi = self.relocated(ci.module, meth)
        if fi is None:
            raise AnalysisError("anchor method not found: %s.%s" % (cls_name, meth))
        return fi

    def relocated(self, module: str, short: str) -> Optional[FuncInfo]:
        """A private helper is not an anchor by its place: when it is no longer where the rules knew it (turned into a
        module-level function, moved to another class of the module), the unique function of that name in the module."""
        if not short.startswith("_") or short.endswith("__"):
            return None
        cands = [f for f in self.functions.values() if f.module == module and f.name == short]
        return cands[0] if len(cands) == 1 else None

    def private(self, qname: str) -> Optional[FuncInfo]:
        """Private function by qualified name, following it through a move inside its module (see relocated)."""
        if qname in self.functions:
            return self.functions[qname]
        mod = next((m for m in sorted(self.modules, key=len, reverse=True) if qname.startswith(m + ".")), None)
        return self.relocated(mod, qname.rsplit(".", 1)[-1]) if mod else None

    # ------------------------------------------------------------- constants
    def const(self, modname: str, name: str):
        """Constant-folded value of a module-level name (no import, no exec)."""
        key = (modname, name)
        if key in self._const_cache:
            v = self._const_cache[key]
            if v is _IN_PROGRESS:
                raise AnalysisError("cyclic constant %s.%s" % key)
            return v
        ent = self.lookup(modname, name)
        if not isinstance(ent, ConstDef):
            raise AnalysisError("anchor constant not found: %s.%s" % key)
        self._const_cache[key] = _IN_PROGRESS
        try:
            val = ConstFolder(self, self.modules[ent.module]).eval(ent.node)
        except Exception:
            del self._const_cache[key]
            raise
        self._const_cache[(ent.module, ent.name)] = val
        self._const_cache[key] = val
        return val


_IN_PROGRESS = object()


class NotConstant(Exception):
    pass


class ConstFolder:
    """Pure evaluator for the literal tables of the repository (lists, dicts,
    strings, `+`, comprehensions over folded values, a few pure builtins)."""

    PURE_FUNCS = {"list": list, "set": set, "tuple": tuple, "dict": dict, "len": len, "str": str,
                  "sorted": sorted, "frozenset": frozenset, "int": int, "chr": chr, "ord": ord,
                  "range": range}

    def __init__(self, prog: Program, mod: ModuleInfo, env: dict = None):
        self.prog = prog
        self.mod = mod
        self.env = dict(env or {})

    def eval(self, n):
        m = getattr(self, "e_" + type(n).__name__, None)
        if m is None:
            raise NotConstant(type(n).__name__)
        return m(n)

    def e_Constant(self, n):
        return n.value

    def e_List(self, n):
        return [self.eval(x) for x in n.elts]

    def e_Tuple(self, n):
        return tuple(self.eval(x) for x in n.elts)

    def e_Set(self, n):
        return {self.eval(x) for x in n.elts}

    def e_Dict(self, n):
        return {self.eval(k): self.eval(v) for k, v in zip(n.keys, n.values)}

    def e_JoinedStr(self, n):
        out = ""
        for v in n.values:
            if isinstance(v, ast.Constant):
                out += str(v.value)
            else:
                out += str(self.eval(v.value))
        return out

    def e_Name(self, n):
        if n.id in self.env:
            return self.env[n.id]
        if n.id in ("True", "False", "None"):
            return {"True": True, "False": False, "None": None}[n.id]
        ent = self.prog.lookup(self.mod.name, n.id)
        if isinstance(ent, ConstDef):
            return self.prog.const(ent.module, ent.name)
        raise NotConstant(n.id)

    def e_Attribute(self, n):
        if isinstance(n.value, ast.Name):
            ent = self.prog.lookup(self.mod.name, n.value.id)
            if isinstance(ent, ModuleRef) and ent.name == "string":
                return getattr(_string, n.attr)
            if isinstance(ent, ModuleRef) and ent.name in self.prog.modules:
                return self.prog.const(ent.name, n.attr)
        ent = self.prog.resolve_expr(self.mod, n)
        if isinstance(ent, ConstDef):
            return self.prog.const(ent.module, ent.name)
        raise NotConstant(ast.unparse(n))

    def e_BinOp(self, n):
        a, b = self.eval(n.left), self.eval(n.right)
        if isinstance(n.op, ast.Add):
            return a + b
        if isinstance(n.op, ast.Mult):
            return a * b
        if isinstance(n.op, ast.Sub):
            return a - b
        raise NotConstant("binop")

    def e_IfExp(self, n):
        return self.eval(n.body) if self.eval(n.test) else self.eval(n.orelse)

    def e_Compare(self, n):
        left = self.eval(n.left)
        for op, c in zip(n.ops, n.comparators):
            right = self.eval(c)
            ok = {ast.Eq: lambda: left == right, ast.NotEq: lambda: left != right,
                  ast.In: lambda: left in right, ast.NotIn: lambda: left not in right}.get(type(op))
            if ok is None:
                raise NotConstant("compare")
            if not ok():
                return False
            left = right
        return True

    def e_Subscript(self, n):
        v = self.eval(n.value)
        if isinstance(n.slice, ast.Slice):
            lo = self.eval(n.slice.lower) if n.slice.lower else None
            hi = self.eval(n.slice.upper) if n.slice.upper else None
            st = self.eval(n.slice.step) if n.slice.step else None
            return v[lo:hi:st]
        return v[self.eval(n.slice)]

    def e_UnaryOp(self, n):
        v = self.eval(n.operand)
        if isinstance(n.op, ast.USub):
            return -v
        if isinstance(n.op, ast.Not):
            return not v
        raise NotConstant("unary")

    def _comp(self, gens, emit):
        def rec(i):
            if i == len(gens):
                emit()
                return
            g = gens[i]
            for item in self.eval(g.iter):
                self._bind(g.target, item)
                if all(self.eval(c) for c in g.ifs):
                    rec(i + 1)
        rec(0)

    def _bind(self, tgt, val):
        if isinstance(tgt, ast.Name):
            self.env[tgt.id] = val
        elif isinstance(tgt, (ast.Tuple, ast.List)):
            for t, v in zip(tgt.elts, val):
                self._bind(t, v)
        else:
            raise NotConstant("target")

    def e_ListComp(self, n):
        out = []
        self._comp(n.generators, lambda: out.append(self.eval(n.elt)))
        return out

    def e_SetComp(self, n):
        out = set()
        self._comp(n.generators, lambda: out.add(self.eval(n.elt)))
        return out

    def e_DictComp(self, n):
        out = {}
        self._comp(n.generators, lambda: out.__setitem__(self.eval(n.key), self.eval(n.value)))
        return out

    def e_Call(self, n):
        if isinstance(n.func, ast.Name) and n.func.id in self.PURE_FUNCS and not n.keywords:
            return self.PURE_FUNCS[n.func.id](*[self.eval(a) for a in n.args])
        if isinstance(n.func, ast.Attribute) and not n.keywords:
            recv = self.eval(n.func.value)
            args = [self.eval(a) for a in n.args]
            if isinstance(recv, str) and n.func.attr in ("join", "upper", "lower", "strip", "split", "replace"):
                return getattr(recv, n.func.attr)(*args)
            if isinstance(recv, dict) and n.func.attr in ("get", "keys", "values", "items"):
                r = getattr(recv, n.func.attr)(*args)
                return r if n.func.attr == "get" else list(r)
        raise NotConstant("call")


def norm_stmt(node: ast.AST) -> str:
    """Normalised source text of a statement / expression (report + finding keys
    never depend on line numbers or formatting)."""
    try:
        txt = ast.unparse(node)
    except Exception:  # pragma: no cover
        txt = "<%s>" % type(node).__name__
    first = txt.strip().splitlines()[0] if txt.strip() else ""
    return first[:160]
