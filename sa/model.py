"""Repository model: the tables the rules are parameterised with.

Every table is *validated against the program index on every run* (a listed
class / method / field that no longer exists is an ANALYSIS-ERROR; a new
instance field that is not listed as abstract state or cache is reported), so
the model cannot silently drift from the code.
"""
from __future__ import annotations

from dataclasses import replace

from .av import AV, TOP, t
from .index import AnalysisError, Program

FA = "pyformlang.finite_automaton."
ENFA = FA + "epsilon_nfa.EpsilonNFA"
NFA = FA + "nondeterministic_finite_automaton.NondeterministicFiniteAutomaton"
DFA = FA + "deterministic_finite_automaton.DeterministicFiniteAutomaton"
FABASE = FA + "finite_automaton.FiniteAutomaton"
TF = FA + "transition_function.TransitionFunction"
NTF = FA + "nondeterministic_transition_function.NondeterministicTransitionFunction"
FA_EPSILON = FA + "epsilon.Epsilon"
FA_STATE = FA + "state.State"
FA_SYMBOL = FA + "symbol.Symbol"
CFG = "pyformlang.cfg.cfg.CFG"
FCFG = "pyformlang.fcfg.fcfg.FCFG"
PDA = "pyformlang.pda.pda.PDA"
PDA_TF = "pyformlang.pda.transition_function.TransitionFunction"
FST = "pyformlang.fst.fst.FST"
REGEX = "pyformlang.regular_expression.regex.Regex"
PYREGEX = "pyformlang.regular_expression.python_regex.PythonRegex"
IG = "pyformlang.indexed_grammar.indexed_grammar.IndexedGrammar"
RULES = "pyformlang.indexed_grammar.rules.Rules"
FS = "pyformlang.fcfg.feature_structure.FeatureStructure"
RSA = "pyformlang.rsa.recursive_automaton.RecursiveAutomaton"
BOX = "pyformlang.rsa.box.Box"

# ---------------------------------------------------------------------------
# public classes whose non-mutator methods are C19 entry points ("machine /
# grammar / parser classes"), confirmed by reading
# ---------------------------------------------------------------------------
VALUE_CLASSES = [ENFA, NFA, DFA, TF, NTF, CFG, FCFG, PDA, PDA_TF, FST, REGEX, PYREGEX, IG, RULES, RSA, BOX,
                 "pyformlang.cfg.llone_parser.LLOneParser",
                 "pyformlang.cfg.recursive_decent_parser.RecursiveDecentParser",
                 "pyformlang.cfg.parse_tree.ParseTree",
                 "pyformlang.cfg.production.Production",
                 "pyformlang.cfg.variable.Variable",
                 "pyformlang.cfg.terminal.Terminal",
                 "pyformlang.cfg.epsilon.Epsilon",
                 FA_STATE, FA_SYMBOL, FA_EPSILON,
                 "pyformlang.pda.state.State", "pyformlang.pda.symbol.Symbol",
                 "pyformlang.pda.stack_symbol.StackSymbol", "pyformlang.pda.epsilon.Epsilon",
                 "pyformlang.indexed_grammar.consumption_rule.ConsumptionRule",
                 "pyformlang.indexed_grammar.duplication_rule.DuplicationRule",
                 "pyformlang.indexed_grammar.production_rule.ProductionRule",
                 "pyformlang.indexed_grammar.end_rule.EndRule",
                 FS,
                 "pyformlang.fcfg.feature_production.FeatureProduction",
                 ]

# helper classes that are queues / tables / converters by nature: their methods only contribute summaries
HELPER_CLASSES = [
    "pyformlang.cfg.set_queue.SetQueue",
    "pyformlang.finite_automaton.partition.Partition",
    "pyformlang.finite_automaton.hopcroft_processing_list.HopcroftProcessingList",
    "pyformlang.finite_automaton.doubly_linked_list.DoublyLinkedList",
    "pyformlang.finite_automaton.doubly_linked_node.DoublyLinkedNode",
    "pyformlang.finite_automaton.deterministic_finite_automaton.PreviousTransitions",
    "pyformlang.pda.cfg_variable_converter.CFGVariableConverter",
    "pyformlang.pda.utils.PDAObjectCreator",
    "pyformlang.cfg.pda_object_creator.PDAObjectCreator",
    "pyformlang.pda.pda._PDAStateConverter",
    "pyformlang.fcfg.state.State",
    "pyformlang.fcfg.state.StateProcessed",
    "pyformlang.cfg.cyk_table.CYKTable",
    "pyformlang.cfg.cyk_table.CYKNode",
    "pyformlang.fst.fst.FSTStateRemaining",
    "pyformlang.indexed_grammar.rule_ordering.RuleOrdering",
]

# the documented in-place API (explicit; a name-prefix rule would wrongly include the conversions
# remove_epsilon_transitions / remove_useless_symbols / remove_epsilon / remove_useless_rules)
_FA_MUT = ["add_transition", "add_transitions", "remove_transition", "add_start_state", "remove_start_state",
           "add_final_state", "remove_final_state", "add_symbol"]
MUTATORS = {
    ENFA: _FA_MUT, NFA: _FA_MUT, DFA: _FA_MUT,
    TF: ["add_transition", "remove_transition"],
    NTF: ["add_transition", "remove_transition"],
    PDA: ["set_start_state", "set_start_stack_symbol", "add_final_state", "add_transitions", "add_transition"],
    PDA_TF: ["add_transition"],
    FST: ["add_transition", "add_transitions", "add_start_state", "add_final_state"],
    RULES: ["add_production", "remove_production"],
    FS: ["unify", "add_content", "add_content_path", "pointer", "value"],
}

# cache / scratch fields (R4b disciplines). name -> (discipline, owner classes)
CACHE_FIELDS = {
    "_normal_form": ("D1", [CFG]),
    "_generating_symbols": ("D1", [CFG]),
    "_nullable_symbols": ("D1", [CFG]),
    "_impacts": ("D1", [CFG]),
    "_remaining_lists": ("D2", [CFG]),
    "_added_impacts": ("D1", [CFG]),
    "_enfa": ("D3", [REGEX]),
    "_counter": ("scratch", [REGEX]),
    "_cfg_variable_converter": ("scratch", [PDA]),
    "marked": ("D5", [IG]),
    "_hash": ("D1", None),
    "index_cfg_converter": ("D4", None),
    "index": ("scratch", [FA_STATE]),
    "_iter_key": ("scratch", [PDA_TF]),
    "_current_key": ("scratch", [PDA_TF]),
    "_iter_inside": ("scratch", [PDA_TF]),
    "_current_node": ("scratch", ["pyformlang.finite_automaton.doubly_linked_list.DoublyLinkedList"]),
}

# plain dict/list parameters that are documented accumulators (outside R4a; listed so the exclusion is visible)
ACCUMULATOR_PARAMS = {
    ("FeatureStructure.copy", "already_copied"),              # memo dict of the recursive copy
    ("FeatureStructure.from_text", "structure_variables"),    # variable table shared by one production's structures
    ("indexed_grammar.addrec_bis", "marked_left"),            # documented output set of the marking helper
    ("indexed_grammar.addrec_ter", "marked_left"),            # documented output set of the marking helper
}

# navigation accessors: documented to hand out a part of the receiver (not conversions; outside R4c)
NAVIGATION_ACCESSORS = {
    "FeatureStructure.get_dereferenced": "follows forwarding pointers to the representative node of the same structure",
    "FeatureStructure.get_feature_by_path": "documented accessor of the sub-structure at a path (add_content_path "
                                            "mutates through it)",
}

# types of unannotated parameters, from reading the callers (used only for entry-point analysis)
PARAM_TYPES = {
    ("pyformlang.cfg.llone_parser.LLOneParser.__init__", "cfg"): [CFG],
    ("pyformlang.cfg.recursive_decent_parser.RecursiveDecentParser.__init__", "cfg"): [CFG],
    ("pyformlang.cfg.cyk_table.CYKTable.__init__", "cfg"): [CFG],
    ("pyformlang.finite_automaton.finite_automaton.add_start_state_to_graph", "graph"): ["extobj"],
    # the graph handed to from_networkx is a networkx object (documented parameter)
    ("pyformlang.finite_automaton.finite_automaton.FiniteAutomaton.from_networkx", "graph"): ["extobj"],
    ("pyformlang.pda.pda.PDA.from_networkx", "graph"): ["extobj"],
    ("pyformlang.fst.fst.FST.from_networkx", "graph"): ["extobj"],
    ("pyformlang.fst.fst.FST.intersection", "indexed_grammar"): [IG],
    ("pyformlang.fst.fst.FST.union", "other_fst"): [FST],
    ("pyformlang.fst.fst.FST.concatenate", "other_fst"): [FST],
    ("pyformlang.rsa.box.Box.__init__", "enfa"): [ENFA],
    # annotated `State`, but the constructor converts with to_state(): callers pass raw values (0, "q0", ...)
    (DFA + ".__init__", "start_state"): ["?"],
    (DFA + ".is_equivalent_to", "other"): [FABASE],
    (FABASE + ".is_equivalent_to", "other"): [FABASE],
    (DFA + "._is_equivalent_to_minimal", "self_minimal"): [DFA],
    (DFA + "._is_equivalent_to_minimal", "other_minimal"): [DFA],
    (FABASE + ".__eq__", "other"): [FABASE],
}


def abstract_classes(prog: Program):
    """Classes with a method (own or inherited, not overridden) whose body only raises NotImplementedError."""
    import ast
    out = set()
    for q, ci in prog.classes.items():
        names = set()
        for c in ci.mro:
            names |= set(prog.classes[c].methods)
        for name in names:
            fi = prog.find_method(q, name)
            if fi.is_abstract:
                out.add(q)
                break
            if fi.kind == "property":
                continue
            body = [s for s in fi.node.body if not (isinstance(s, ast.Expr) and isinstance(s.value, ast.Constant))]
            if len(body) == 1 and isinstance(body[0], ast.Raise) and body[0].exc is not None and \
                    "NotImplementedError" in ast.unparse(body[0].exc):
                out.add(q)
                break
    return out


EPS_TAG = ("EPSILON", ())


def automaton_of(tf_loc):
    """Location of the automaton owning a transition-function location."""
    root, path = tf_loc
    if path and path[-1] == "_transition_function":
        return (root, path[:-1])
    return None


def _hook_eclose(interp, fi, recv, args, kwargs, res, ev):
    """`r.eclose(x)` is the declared source of the qualifier ECL(r): its body is validated separately as a closure
    worklist over the epsilon successors (C01 obligation eclose-is-closure)."""
    if recv is not None and len(recv.alias) == 1:
        return res.with_quals({("ECL", next(iter(recv.alias)))})
    return res


_CLOSURE_FNS = {}


def _hook_eps_closure(interp, fi, recv, args, kwargs, res, ev):
    """A private helper of an automaton class that is a visited-set worklist and - in this call - follows the epsilon
    edges of its receiver only (`self._reachable_by(seeds, [Epsilon()])`, a cached or iterative variant of eclose)
    returns a union of epsilon closures: it is a source of ECL(r) exactly like `r.eclose(x)` itself."""
    if recv is None or len(recv.alias) != 1 or fi.cls is None or not fi.name.startswith("_") or fi.name.endswith("__"):
        return res
    if res is None or res.types is None or not (res.types <= {"set", "frozenset"}) or not res.types:
        return res
    owner = next(iter(recv.alias))
    if FABASE not in fi.cls.mro and fi.cls.qname != FABASE:
        return res
    # which edges the loop follows: every read of the transition function inside the helper asks for Epsilon only
    # (where the seeds came from - e.g. out of symbol successors - does not matter)
    reads = [e for e in (ev.sub.events if ev is not None and ev.sub is not None else [])
             if e.kind == "call" and e.callee and e.callee.endswith("TransitionFunction.__call__") and len(e.args) >= 2]
    if not reads or not all(e.args[1].types is not None and e.args[1].types and e.args[1].types <= {FA_EPSILON} for e in reads):
        return res
    ok = _CLOSURE_FNS.get(fi.qname)
    if ok is None:
        from .rules.flow import is_worklist_closure
        try:
            ok = bool(is_worklist_closure(fi.node)[0])
        except Exception:
            ok = False
        _CLOSURE_FNS[fi.qname] = ok
    if not ok:
        return res
    return res.with_quals({("ECL", owner)})


def _hook_delta(interp, fi, recv, args, kwargs, res, ev):
    """Reads of a transition function are tagged with the component they cover: symbol edges, epsilon edges."""
    tags = set()
    name = fi.name
    for l in (recv.alias if recv is not None else ()):
        owner = automaton_of(l)
        if owner is None:
            continue
        if name == "__call__" and len(args) >= 2 and not (args[1].has_const() and args[1].const is None):
            sym = args[1]
            eps_sites = interp.tagged_sites.get(EPS_TAG, ())
            eps = (sym.types is not None and sym.types and sym.types <= {FA_EPSILON}) or \
                any(l[0] in eps_sites for l in sym.alias)
            only_eps = sym.types is not None and sym.types and sym.types <= {FA_EPSILON}
            if eps:
                tags.add(("DELTA_EPS", owner))
            if not only_eps:
                tags.add(("DELTA_SYM", owner))
        else:
            tags.add(("DELTA_EPS", owner))
            tags.add(("DELTA_SYM", owner))
    if not tags:
        return res
    res = res.with_deps(tags)
    if res.elem is not None:
        el = res.elem.with_deps(tags)
        owners = {tg[1] for tg in tags}
        # edge tuples: (symbol, target) for items() / get_transitions_from, (source, symbol, target) for get_edges
        if el.items is not None and len(el.items) in (2, 3):
            items = list(el.items)
            off = len(items) - 2
            items[off] = items[off].with_deps({("EDGE_SYMBOL", o) for o in owners})
            items[off + 1] = items[off + 1].with_deps({("EDGE_TARGET", o) for o in owners})
            if off:
                items[0] = items[0].with_deps({("EDGE_SOURCE", o) for o in owners})
            el = replace(el, items=tuple(items))
        res = replace(res, elem=el)
    return res


def _hook_pair(interp, fi, recv, args, kwargs, res, ev):
    """combine_state_pair(a, b): the product state remembers the must-qualifiers of its two coordinates."""
    q = set()
    if len(args) >= 2:
        q |= {("PAIR0", x) for x in args[0].quals}
        q |= {("PAIR1", x) for x in args[1].quals}
    return res.with_quals(q) if q else res


def _tag_hook(tagname):
    def hook(interp, fi, recv, args, kwargs, res, ev):
        tags = {(tagname, l) for l in (recv.alias if recv is not None else ())}
        if not tags:
            return res
        res = res.with_deps(tags)
        if res.elem is not None:
            res = replace(res, elem=res.elem.with_deps(tags))
        return res
    return hook


CFG_TAGS = {"get_generating_symbols": "GENERATING", "get_reachable_symbols": "REACHABLE",
            "get_nullable_symbols": "NULLABLE", "get_unit_pairs": "UNITPAIRS"}


def _hook_epsilon_new(interp, fi, recv, args, kwargs, res, ev):
    return res


def install(interp):
    """Parameter typing overrides for entry points, qualifier sources and component tags."""
    prog = interp.prog
    hooks = {ENFA + ".eclose": _hook_eclose}
    for tfc in (TF, NTF):
        for m in ("__call__", "get_edges", "get_transitions_from", "to_dict", "__iter__"):
            hooks[tfc + "." + m] = _hook_delta
    hooks[FA + "epsilon_nfa.combine_state_pair"] = _hook_pair
    for m, tg in CFG_TAGS.items():
        hooks[CFG + "." + m] = _tag_hook(tg)
    for h in hooks:
        if h not in prog.functions:
            raise AnalysisError("model: hooked function vanished: %s" % h)
    from . import av as _av
    _av.IMPLIED_QUALS["DET"] = frozenset({DFA})
    interp.model_hooks = hooks
    interp.generic_hooks = [_hook_eps_closure]
    interp.ctor_tags = {FA_EPSILON: EPS_TAG}
    overrides = {}
    for (fq, pname), tys in PARAM_TYPES.items():
        if fq not in prog.functions:
            short = fq.rsplit(".", 1)[-1]
            if short.startswith("_") and not short.endswith("__"):
                # a private helper is not an anchor: it may have been moved (mixin, module level) or merged away; the
                # hint follows it to a function of the same name in the same module, otherwise it is simply dropped
                mod = next((m for m in sorted(prog.modules, key=len, reverse=True) if fq.startswith(m + ".")), None)
                cands = [q for q, f in prog.functions.items() if f.module == mod and f.name == short and pname in f.params]
                if len(cands) == 1:
                    fq = cands[0]
                else:
                    continue
            else:
                raise AnalysisError("model: function of PARAM_TYPES vanished: %s" % fq)
        if pname not in prog.functions[fq].params:
            if fq.rsplit(".", 1)[-1].startswith("_") and not fq.endswith("__"):
                continue
            raise AnalysisError("model: parameter %s of %s vanished" % (pname, fq))
        if tys == ["?"]:
            overrides[(fq, pname)] = AV()        # annotated with a class, but any raw value is accepted and converted
            continue
        names = set()
        for ty in tys:
            if ty in prog.classes:
                names |= set(interp.concrete_subclasses(ty))
            else:
                names.add(ty)
        overrides[(fq, pname)] = AV(types=frozenset(names))
    interp.param_overrides = overrides


def validate(prog: Program):
    problems = []
    for q in VALUE_CLASSES + HELPER_CLASSES:
        if q not in prog.classes:
            problems.append("class vanished: %s" % q)
    for q, ms in MUTATORS.items():
        if q not in prog.classes:
            problems.append("mutator owner vanished: %s" % q)
            continue
        for m in ms:
            if prog.find_method(q, m) is None and prog.find_setter(q, m) is None:
                problems.append("mutator vanished: %s.%s" % (q, m))
    listed = set(VALUE_CLASSES) | set(HELPER_CLASSES)
    return problems
