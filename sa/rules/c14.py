"""C14 - LL(1): FIRST / FOLLOW, table, parser."""
from __future__ import annotations

import ast

from .common import site_of
from .flow import (fold_consts, code_nodes, own, facts_imply_nonempty, helpers_of, both_answers, Oblig, calls, events, deps_of, arg_deps, SELF, P, facts_on_path, has_fact, check_escapes)

LL = "pyformlang.cfg.llone_parser.LLOneParser"
EXPLANATION = (
    "Decides: only NotParsableException is raised explicitly on the path of get_llone_parse_tree; the stack item whose "
    "`.value` is read can be the bare string sentinel `$` (typed str) unless a guard excludes it; the look-ahead "
    "`word[-1]` follows a pop that no guard keeps from consuming the end sentinel; table lookups use .get (R6); the "
    "FIRST-based fill of the table must range over all productions, not over a nullability-filtered subset (R1); both "
    "fills accumulate in the cell list and is_llone_parsable reads every cell's length (R1); the FIRST and FOLLOW "
    "worklists re-queue dependants only when a set grew (R10a). Not decided: that FIRST / FOLLOW equal the textbook "
    "sets.")


def _requeues(call, helpers, depth=0):
    """The call puts something on a worklist: `.append(..)` / `.put(..)`, or a private helper that does."""
    if isinstance(call.func, ast.Attribute) and call.func.attr in ("append", "put", "appendleft", "extend"):
        return True
    name = call.func.attr if isinstance(call.func, ast.Attribute) else getattr(call.func, "id", None)
    h = helpers.get(name) if name and name.startswith("_") else None
    if h is not None and depth < 2:
        return any(_requeues(c, helpers, depth + 1) for c in ast.walk(h) if isinstance(c, ast.Call))
    return False


def run(eng, rep, tier):
    prog, interp = eng.prog, eng.interp
    rep.explanation = EXPLANATION
    ob = Oblig(eng, rep, "C14")
    fi = prog.method("LLOneParser", "get_llone_parse_tree")
    summ = interp.run_entry(fi, LL)

    # -------------------------------------------------------------- C14.1 exceptions of the parser
    own_raises = [ev for ev in own(summ) if ev.kind == "raise" and not ev.caught]
    bad = [ev for ev in own_raises if any(x.rsplit(".", 1)[-1] != "NotParsableException" for x in ev.exc)]
    ob.decide("R6", "C14.1", fi, "explicit-raises", bool(own_raises) and not bad,
              "the parser itself raises only NotParsableException",
              "the parser raises %s" % (bad[0].exc if bad else "nothing at all for non-members"), summ,
              site=(bad[0].site.to_json() if bad else site_of(prog, fi, fi.node)))
    missing = [ev for ev in own(summ) if ev.kind == "attr" and ev.note.startswith("missing-on:")]
    # a sentinel comparison whose satisfied branch leaves the function discharges the site, provided every bare string
    # ever put on that stack is that sentinel
    sentinels = {c.value for c in ast.walk(fi.node) if isinstance(c, ast.Constant) and isinstance(c.value, str)
                 and c.value not in ((ast.get_docstring(fi.node) or ""),)}
    sentinels = {x for x in sentinels if len(x) <= 3}

    def sentinel_guarded(ev):
        base = ast.unparse(ev.node.value) if isinstance(ev.node, ast.Attribute) else None
        if base is None or len(sentinels) != 1:
            return False
        lit = next(iter(sentinels))
        return any(f[0] in ("%s == %r" % (base, lit), '%s == "%s"' % (base, lit)) and f[1] is False for f in ev.facts)
    missing = [ev for ev in missing if not sentinel_guarded(ev)]
    for ev in missing[:1]:
        rep.violation("R6", "C14.1", fi.qname, "attribute-on-sentinel",
                      "`%s` is evaluated on a stack item that can be the bare string sentinel (%s): AttributeError instead "
                      "of NotParsableException" % (ev.site.text, ev.note.split(":", 1)[1]), site=ev.site.to_json())
    if not missing:
        rep.holds("R6", "C14.1", fi.qname, "attribute-on-sentinel", "no attribute is read from a value that can be a "
                  "bare string sentinel")
    # the look-ahead: `<seq>[-1]` on a sequence that the same loop pops (whatever the local is called)
    looks = [ev for ev in own(summ) if ev.kind == "subscript" and ev.args and ev.args[0].has_const() and
             ev.args[0].const == -1]
    seqs = {ast.unparse(ev.node.value) for ev in looks}
    pops = [ev for ev in own(summ) if ev.kind == "write" and ev.wkind == "mutate:pop" and isinstance(ev.node, ast.Call)
            and isinstance(ev.node.func, ast.Attribute) and ast.unparse(ev.node.func.value) in seqs]
    popped = {ast.unparse(ev.node.func.value) for ev in pops}
    looks = [ev for ev in looks if ast.unparse(ev.node.value) in popped]
    unguarded = [ev for ev in looks if not facts_imply_nonempty(ev.facts, ast.unparse(ev.node.value))]
    pop_guarded = all(any("$" in f[0] for f in ev.facts) and False for ev in pops) if pops else True
    in_loop = bool(pops)
    ok = not (in_loop and unguarded)
    ob.decide("R6", "C14.1b", fi, "lookahead-subscript", ok,
              "the look-ahead is read from a list known to be non-empty",
              "`word[-1]` is read in the loop in which `word.pop()` runs, with no emptiness guard: once the end "
              "sentinel has been consumed (a grammar symbol spelled `$`) it raises IndexError", summ,
              site=(unguarded[0].site.to_json() if unguarded else None))
    gets = [ev for ev in own(summ) if ev.kind == "bcall" and ev.callee == "get"]
    # the parsing table (and its rows) = what get_llone_parsing_table returned, whatever local holds it
    tbl_locs = frozenset().union(*[ev.result.alias for ev, _ in calls(summ, "get_llone_parsing_table", own=True)
                                   if ev.result is not None] or [frozenset()])
    def _of_table(av):
        return any(l[0] == t_[0] and l[1][:len(t_[1])] == t_[1] for l in av.alias for t_ in tbl_locs)
    # (a constant index into a cell - `rules[0]` after the length test - is not a lookup by an input-derived key)
    tbl_sub = [ev for ev in own(summ) if ev.kind == "subscript" and ev.recv is not None and tbl_locs and _of_table(ev.recv)
               and not (ev.args and (ev.args[0].has_const() or ev.args[0].only("int", "bool")))
               and not ev.recv.only("list", "tuple", "str")]       # positions in a production body are not table keys
    ob.decide("R6", "C14.1", fi, "table-lookups-use-get", len(gets) >= 2 and not tbl_sub,
              "table lookups use .get with defaults", "the parsing table is subscripted with input-derived keys", summ,
              site=(tbl_sub[0].site.to_json() if tbl_sub else None))

    # -------------------------------------------------------------- C14.2 table construction
    ft = prog.method("LLOneParser", "get_llone_parsing_table")
    st_ = interp.run_entry(ft, LL)
    firsts = [ev for ev, _ in calls(st_, "_get_first_set_production", own=True)]
    restricted = [ev for ev in firsts if any(isinstance(d, tuple) and d and d[0] == "NULLABLE" for d in arg_deps(ev, 0))]
    # two different obligations, two different keys: a finding about the *range* of the fill must not hide a fill that no
    # longer computes FIRST of the whole body
    ob.decide("R1", "C14.2", ft, "first-of-whole-body", bool(firsts),
              "predict symbols of a production come from FIRST of its whole body (the helper that walks the body while "
              "its prefix is nullable)",
              "the table no longer takes FIRST of the whole body of a production (only of its leading symbol, or of "
              "nothing): a production whose leading variable is nullable gets the wrong predict symbols", st_,
              site=site_of(prog, ft, ft.node))
    if restricted:
        # the productions may be split into two lists by the nullable test and BOTH lists get FIRST-based entries (one loop
        # each): then the range of the fill is complete although every single call is on a restricted list
        from ..av import loc_ext as _lx
        fills = {}
        for ev in own(st_):
            if ev.kind == "write" and ev.wkind == "mutate:append" and ev.recv is not None:
                for text, pol, _n in ev.facts:
                    if "nullable" in text.lower() or any(isinstance(d, tuple) and d and d[0] == "NULLABLE" for d in ev.ctrl):
                        for l in ev.recv.alias:
                            fills.setdefault(text, {}).setdefault(pol, set()).add(_lx(l, "[]"))
        for text, by_pol in fills.items():
            if True in by_pol and False in by_pol:
                src = set()
                for ev in firsts:
                    src |= set(ev.args[0].alias) if ev.args else set()
                if src & by_pol[True] and src & by_pol[False]:
                    restricted = []
    ob.decide("R1", "C14.2", ft, "first-fill-range", not restricted,
              "the FIRST-based fill ranges over all productions",
              "the FIRST-based fill only ranges over productions selected by a nullability test: a nullable production "
              "with a non-empty body gets no FIRST entries", st_,
              site=(restricted[0].site.to_json() if restricted else site_of(prog, ft, ft.node)))
    rd = deps_of(st_.ret)
    CFGL = ("self", ("_cfg",))
    def _nullable_dep(ds):
        return any(isinstance(d, tuple) and d and d[0] == "NULLABLE" for d in ds)
    uses_nullable = _nullable_dep(rd) or any(
        _nullable_dep(ev.ctrl) or (ev.recv is not None and _nullable_dep(deps_of(ev.recv))) or
        any(_nullable_dep(deps_of(a)) for a in ev.args) for ev, _ in events(st_, None, own=True)
        if ev.kind in ("write", "call", "bcall", "iter"))
    ob.decide("R1", "C14.2", ft, "follow-fill-for-nullable", uses_nullable,
              "nullable productions are entered under the FOLLOW symbols of their head",
              "the table does not use nullability at all", st_, site=site_of(prog, ft, ft.node))
    overwrites = []
    ft_nodes = code_nodes(prog, ft)          # the fill may live in private helpers / module functions
    for sub in (x for fn_ in ft_nodes for x in ast.walk(fn_)):
        if isinstance(sub, ast.Assign) and any(isinstance(tg, ast.Subscript) and isinstance(tg.value, ast.Subscript)
                                               for tg in sub.targets):
            if not (isinstance(sub.value, ast.List) and not sub.value.elts):
                overwrites.append(sub)
    # accumulating stores into a cell: `table[h][t].append(p)`, `row.setdefault(t, []).append(p)`, `row[t].append(p)`
    def _cell_expr(e):
        return isinstance(e, ast.Subscript) or (isinstance(e, ast.Call) and isinstance(e.func, ast.Attribute)
                                                and e.func.attr in ("setdefault", "get"))
    appends = [(fn_, c) for fn_ in ft_nodes for c in ast.walk(fn_) if isinstance(c, ast.Call) and isinstance(c.func, ast.Attribute)
               and c.func.attr == "append" and _cell_expr(c.func.value)]
    from .flow import _path_to
    conditional = []
    for fn_, c in appends:
        anc = _path_to(fn_, c)
        fors = [i for i, a in enumerate(anc) if isinstance(a, ast.For)]
        inner = anc[fors[-1]:] if fors else anc
        if any(isinstance(a, ast.If) for a in inner):
            conditional.append(c)
    # how many fills reach a cell: counted on the events (a shared helper is one append site but two fills)
    roots = {l[0] for l in st_.ret.alias if l[0].startswith("fresh:")}
    cell_appends = [ev for ev in own(st_) if ev.kind == "write" and ev.wkind == "mutate:append" and ev.recv is not None
                    and any(l[0] in roots and len(l[1]) >= 2 and l[1][-2:] == ("[]", "[]") for l in ev.recv.alias)]
    ob.decide("R1", "C14.3", ft, "every-production-recorded", bool(appends) and not conditional,
              "inside the fill loops every production is appended to its cell unconditionally",
              "a production is only recorded when its cell is new: a second production for the same cell is dropped and "
              "the conflict is hidden from is_llone_parsable", None,
              site=site_of(prog, ft, conditional[0] if conditional else ft.node))
    ob.decide("R1", "C14.3", ft, "cells-accumulate", (len(cell_appends) >= 2 or len(appends) >= 2) and not overwrites,
              "both fills append to the cell (conflicts stay visible)",
              "a table cell is overwritten instead of accumulated: conflicts are hidden from is_llone_parsable", None,
              site=site_of(prog, ft, (overwrites[0] if overwrites else ft.node)))
    fp = prog.method("LLOneParser", "is_llone_parsable")
    sp = interp.run_entry(fp, LL)
    consts = {ev.value.const for ev in sp.events if ev.kind == "ret" and ev.value is not None and ev.value.has_const()}
    lens = [ev for ev in own(sp) if ev.kind == "bcall" and ev.callee == "len"]
    ob.decide("R1", "C14.3", fp, "verdict-reads-every-cell", both_answers(sp) and bool(lens),
              "the LL(1) verdict is False exactly when some cell holds more than one production",
              "is_llone_parsable does not inspect the length of the cells", sp, site=site_of(prog, fp, fp.node))

    # -------------------------------------------------------------- C14.4 fixpoint worklists
    for meth in ("get_first_set", "get_follow_set"):
        f = prog.method("LLOneParser", meth)
        sm = interp.run_entry(f, LL)
        evs = own(sm)
        # the worklist = what is popped in the loop; a re-queue = an append on it inside the loop; `under the test the
        # set grew` = some branch fact at the append says len(<set>) != <length before> (written as `!=` taken, or as
        # `==` not taken through an early continue)
        def _op(ev, names):
            """the event is `<recv>.<name>(..)` for a builtin container (write event) or a repository queue class (call)"""
            if ev.recv is None:
                return False
            if ev.kind == "write" and ev.wkind in tuple("mutate:" + n for n in names):
                return True
            return ev.kind == "call" and (ev.callee or "").rsplit(".", 1)[-1] in names
        popped = frozenset().union(*[ev.recv.alias for ev in evs if _op(ev, ("pop", "popleft", "get"))] or [frozenset()])
        requeues = [ev for ev in evs if _op(ev, ("append", "extend", "put", "appendleft")) and ev.recv.alias & popped and ev.ctrl]

        _hs = helpers_of(prog, f)

        def _growth_test(e, pol):
            return isinstance(e, ast.Compare) and len(e.ops) == 1 and any(
                isinstance(c, ast.Call) and getattr(c.func, "id", "") == "len" for c in ast.walk(e)) and (
                (isinstance(e.ops[0], ast.NotEq) and pol) or (isinstance(e.ops[0], ast.Eq) and not pol) or
                (isinstance(e.ops[0], (ast.Gt, ast.Lt)) and pol))

        def grew(ev):
            for text, pol, _n in ev.facts:
                try:
                    e = ast.parse(text, mode="eval").body
                except SyntaxError:
                    continue
                if isinstance(e, ast.Call) and pol:
                    # `if self._add(sets, key, new):` - a private helper that adds and reports whether the set grew
                    nm = e.func.attr if isinstance(e.func, ast.Attribute) else getattr(e.func, "id", None)
                    h = _hs.get(nm) if nm and nm.startswith("_") else None
                    if h is not None and any(isinstance(r, ast.Return) and r.value is not None and _growth_test(r.value, True)
                                             for r in ast.walk(h)):
                        return True
                if isinstance(e, ast.Compare) and len(e.ops) == 1 and any(
                        isinstance(c, ast.Call) and getattr(c.func, "id", "") == "len" for c in ast.walk(e)):
                    if (isinstance(e.ops[0], ast.NotEq) and pol) or (isinstance(e.ops[0], ast.Eq) and not pol) or \
                            (isinstance(e.ops[0], (ast.Gt, ast.Lt)) and pol):
                        return True
            return False
        guarded = [ev for ev in requeues if grew(ev)]
        if not popped:
            # no worklist is popped at all: the fixpoint is reached by other means (memoised recursion plus a completion
            # pass, iteration until nothing changes) - its exactness is not a matter of re-queueing
            rep.error("R10a", "C14.4", f.qname, "requeue-on-growth",
                      "%s is not written as a worklist fixpoint any more; the rule cannot follow how the sets are completed"
                      % meth, site=site_of(prog, f, f.node))
            continue
        ob.decide("R10a", "C14.4", f, "requeue-on-growth", bool(popped) and bool(guarded),
                  "dependants are re-queued under the test `the set grew`",
                  "%s does not re-queue dependants when a set grows (or always does)" % meth, sm,
                  site=site_of(prog, f, f.node))
    fs = prog.method("LLOneParser", "get_follow_set")
    sf = interp.run_entry(fs, LL)
    ob.decide("R1", "C14.4", fs, "follow-of-start-has-end-marker",
              any(ev.kind == "write" and ev.value is not None and ev.value.elem is not None and ev.value.elem.has_const()
                  and ev.value.elem.const == "$" for ev, _ in sf.walk()) or
              any(isinstance(c, ast.Constant) and c.value == "$"
                  for fn_ in code_nodes(prog, fs) for c in ast.walk(fold_consts(prog, fs.module, fn_, fs.cls))),
              "FOLLOW(start) contains the end marker", "FOLLOW of the start symbol lacks the end marker", sf,
              site=site_of(prog, fs, fs.node))
    rep.stats.update(eng.stats())
    rep.floor = 10
