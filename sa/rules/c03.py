"""C03 - boolean and rational operations on automata."""
from __future__ import annotations

import ast

from ..model import ENFA, NFA, DFA, REGEX
from . import names
from .common import site_of
from .flow import (Oblig, calls, events, receivers, START, FINAL, STATES, SYMBOLS, DELTA_SYM, DELTA_EPS, ECL, ELEM_ECL,
                   SELF, P, qual_all, result_locs, deps_of, is_worklist_closure, arg_deps, comp)

EXPLANATION = (
    "Decides: the final-state flip of get_complement is applied to a DeterministicFiniteAutomaton (R3a); product "
    "coordinates are elements of epsilon-closed sets of the respective operand for start and successor pairs (R2); "
    "final pairs / alphabet / edges depend on both operands (R1, R10a); get_difference completes a fresh copy of the "
    "other operand over self's alphabet (R4/R1); reverse swaps START/FINAL and edge direction for symbol and epsilon "
    "edges (R1); union / concatenate / kleene_star go through both operands' to_regex and the matching Regex "
    "combinator, operator forms delegate (R7); TrashNode fresh, pair names injective (R5). Not decided: that "
    "product / flip / reversal produce exactly the set-theoretic language.")

OTHER = P("other")


def run(eng, rep, tier):
    prog, interp = eng.prog, eng.interp
    rep.explanation = EXPLANATION
    ob = Oblig(eng, rep, "C03")

    # ------------------------------------------------------------------ C03.1 complement: flip only on a DFA
    for recv_q, fi, summ in receivers(eng, "EpsilonNFA", "get_complement"):
        label = prog.classes[recv_q].name
        rem = [(ev, ch) for ev, ch in calls(summ, "remove_final_state", own=True) if FINAL() in ev.ctrl]
        add = [(ev, ch) for ev, ch in calls(summ, "add_final_state", own=True) if FINAL() in ev.ctrl]
        res_c = result_locs(summ)
        if add and not rem and all(ev.recv is not None and ev.recv.alias and ev.recv.alias <= res_c for ev, _ in add) and \
                any(DELTA_SYM() in arg_deps(ev, 0) or START() in arg_deps(ev, 0) for ev, _ in add):
            # no flip at all: the complement is built directly (a subset construction whose states are final when they
            # hold no final state of the operand) - finality of the fresh result is decided under a test on FINAL
            ob.decide("R3a", "C03.1", fi, "final-flip-present:" + label, True,
                      "the complement is constructed directly: states of a fresh automaton, built from sets of the operand's "
                      "states, are made final under a test on FINAL (no flip on a copy)", "", summ,
                      site=site_of(prog, fi, fi.node))
            continue
        if not rem or not add:
            ob.decide("R3a", "C03.1", fi, "final-flip-present:" + label, False, "",
                      "get_complement no longer flips finality under a test on FINAL (no remove/add pair)", summ,
                      site=site_of(prog, fi, fi.node))
            continue
        flipped = [ev.recv for ev, _ in rem + add]
        ok = all(r is not None and r.only(DFA) for r in flipped)
        bad = next((ev for ev, _ in rem + add if not (ev.recv is not None and ev.recv.only(DFA))), None)
        r = ob.decide("R3a", "C03.1", fi, "final-flip-receiver", ok,
                      "the final-state flip is applied to a DeterministicFiniteAutomaton (receiver class %s)" % label,
                      "final states are flipped on an automaton that is not deterministic (receiver class %s, flipped "
                      "object: %s): complement by flipping is only sound on a deterministic complete automaton"
                      % (label, flipped[0].short()[:80] if flipped else "?"), summ,
                      site=(bad.site.to_json() if bad else None))
        # completion: missing (state, symbol) pairs go to the trash state, trash loops on every symbol
        res = result_locs(summ)
        adds = list(calls(summ, "add_transition", own=True, recv_locs=res))
        ob.flow("R1", "C03.1", fi, summ, "completion-over-alphabet:" + label, adds, 1, SYMBOLS(),
                "completion edges range over the automaton's own alphabet")
        ob.flow("R1", "C03.1", fi, summ, "completion-depends-on-delta:" + label, adds, None, DELTA_SYM(),
                "an edge to the trash state is added only where no successor exists", ctrl_ok=True)

    # ------------------------------------------------------------------ C03.3 intersection
    fi = prog.method("EpsilonNFA", "get_intersection")
    for recv_q, _, summ in receivers(eng, "EpsilonNFA", "get_intersection"):
        label = prog.classes[recv_q].name
        need_self = recv_q == ENFA or True
        res = result_locs(summ)
        starts = list(calls(summ, "add_start_state", own=True, recv_locs=res))
        trans = list(calls(summ, "add_transition", own=True, recv_locs=res))
        fins = list(calls(summ, "add_final_state", own=True, recv_locs=res))
        q0, q1 = ("PAIR0", ELEM_ECL()), ("PAIR1", ELEM_ECL(OTHER))
        sinks = [(ev, 0) for ev, _ in starts] + [(ev, 0) for ev, _ in trans] + [(ev, 2) for ev, _ in trans]
        for coord, q, who in ((0, q0, "self"), (1, q1, "other")):
            bad = [ev for ev, i in sinks if i >= len(ev.args) or q not in ev.args[i].quals]
            ob.decide("R2", "C03.3", fi, "pair-coord-%d:%s" % (coord, label), bool(sinks) and not bad,
                      "coordinate %d of every start / source / successor pair is an element of an epsilon-closed set of %s"
                      % (coord, who),
                      "a product state is built from a %s-state that does not come from an epsilon-closed set" % who,
                      summ, site=(bad[0].site.to_json() if bad else site_of(prog, fi, fi.node)))
        for tag_s, tag_o, role, evs, idx in (
                (START(), START(OTHER), "start-pairs", starts, 0),
                (FINAL(), FINAL(OTHER), "final-pairs", fins, 0),
                (SYMBOLS(), SYMBOLS(OTHER), "alphabet", trans, 1),
                (DELTA_SYM(), DELTA_SYM(OTHER), "successors", trans, 2)):
            ob.flow("R1", "C03.3", fi, summ, "%s-depend-on-self:%s" % (role, label), evs, idx, tag_s,
                    "%s of the product depend on self" % role)
            ob.flow("R1", "C03.3", fi, summ, "%s-depend-on-other:%s" % (role, label), evs, idx, tag_o,
                    "%s of the product depend on other" % role)
    ob.worklist("C03.3", fi, "pair-worklist", "the product is explored by a visited-set worklist",
                "pair exploration is not a closure worklist")

    # ------------------------------------------------------------------ C03.4 difference
    for recv_q, fi, summ in receivers(eng, "EpsilonNFA", "get_difference"):
        label = prog.classes[recv_q].name
        syms = list(calls(summ, "add_symbol", own=True))
        fresh = bool(syms) and all(ev.recv is not None and ev.recv.alias and
                                   all(l[0].startswith("fresh:") for l in ev.recv.alias) for ev, _ in syms)
        ob.decide("R4a", "C03.4", fi, "add_symbol-receiver:" + label, fresh,
                  "the alphabet of the other operand is extended on a fresh copy",
                  "get_difference extends the alphabet of its argument in place (or not at all)", summ,
                  site=(syms[0][0].site.to_json() if syms else site_of(prog, fi, fi.node)))
        comps = list(calls(summ, "get_complement", own=True))
        okc = bool(comps) and all(SYMBOLS() in deps_of(ev.recv) and OTHER in deps_of(ev.recv) for ev, _ in comps)
        ob.decide("R1", "C03.4", fi, "complement-over-joint-alphabet:" + label, okc,
                  "the complemented operand is `other` completed with self's symbols",
                  "the complement is not taken over the joint alphabet (self's symbols are not added before "
                  "get_complement)", summ, site=(comps[0][0].site.to_json() if comps else site_of(prog, fi, fi.node)))
        inter = list(calls(summ, "get_intersection", own=True))
        oki = bool(inter) and all(ev.recv is not None and SELF in ev.recv.alias and comps and
                                  ev.args and (ev.args[0].alias & comps[0][0].result.alias) for ev, _ in inter)
        rets = [ev for ev in summ.events if ev.kind == "ret" and ev.value is not None]
        inter_res = frozenset().union(*[ev.result.alias for ev, _ in inter]) if inter else frozenset()
        oki = oki and all(ev.value.alias and ev.value.alias <= inter_res for ev in rets)
        ob.decide("R1", "C03.4", fi, "difference=self&complement:" + label, oki,
                  "every return path yields self intersected with that complement",
                  "some return path of get_difference is not the intersection of self with the complement of other", summ,
                  site=site_of(prog, fi, fi.node))

    # ------------------------------------------------------------------ C03.5 reverse
    for recv_q, fi, summ in receivers(eng, "EpsilonNFA", "reverse"):
        label = prog.classes[recv_q].name
        res = result_locs(summ)
        ob.flow("R1", "C03.5", fi, summ, "start->add_final_state:" + label, calls(summ, "add_final_state", own=True, recv_locs=res),
                0, START(), "START becomes FINAL")
        ob.flow("R1", "C03.5", fi, summ, "final->add_start_state:" + label, calls(summ, "add_start_state", own=True, recv_locs=res),
                0, FINAL(), "FINAL becomes START")
        bad_f = [ev for ev, _ in calls(summ, "add_final_state", own=True, recv_locs=res) if FINAL() in arg_deps(ev, 0)]
        bad_s = [ev for ev, _ in calls(summ, "add_start_state", own=True, recv_locs=res) if START() in arg_deps(ev, 0)]
        ob.decide("R1", "C03.5", fi, "no-unswapped-extremity:" + label, not bad_f and not bad_s,
                  "no start state stays start, no final state stays final by construction",
                  "reverse keeps START as start or FINAL as final", summ,
                  site=((bad_f + bad_s)[0].site.to_json() if (bad_f + bad_s) else None))
        adds = list(calls(summ, "add_transition", own=True, recv_locs=res))
        ob.flow("R1", "C03.5", fi, summ, "edge.dst->add_transition#0:" + label, adds, 0, DELTA_SYM(),
                "the target of a symbol edge becomes the source", )
        if recv_q == ENFA:
            ob.flow("R1", "C03.5", fi, summ, "eps-edge.dst->add_transition#0:" + label, adds, 0, DELTA_EPS(),
                    "the target of an epsilon edge becomes the source")
        wrong = [ev for ev, _ in adds if DELTA_SYM() in arg_deps(ev, 2) or DELTA_EPS() in arg_deps(ev, 2)]
        ob.decide("R1", "C03.5", fi, "edge.src->add_transition#2:" + label, bool(adds) and not wrong,
                  "the source of an edge becomes the target",
                  "reverse keeps the direction of an edge", summ, site=(wrong[0].site.to_json() if wrong else None))

    # ------------------------------------------------------------------ C03.6 rational operations through Regex
    regexable = prog.cls("Regexable")
    for meth, comb, binary in (("union", "union", True), ("concatenate", "concatenate", True),
                               ("kleene_star", "kleene_star", False)):
        fi = prog.method("Regexable", meth)
        summ = interp.run_entry(fi, ENFA)
        tor = list(calls(summ, "to_regex", own=True))
        recvs = [ev.recv for ev, _ in tor if ev.recv is not None]
        has_self = any(SELF in r.alias for r in recvs)
        has_other = any(OTHER in r.alias for r in recvs)
        ob.decide("R1", "C03.6", fi, "operands->to_regex", has_self and (has_other or not binary),
                  "both operands are turned into regular expressions",
                  "%s does not use the regular expression of %s" % (meth, "self" if not has_self else "other"), summ,
                  site=site_of(prog, fi, fi.node))
        combs = [ev for ev, _ in calls(summ, comb) if ev.callee == REGEX + "." + comb]
        okc = False
        for ev in combs:
            srcs = set()
            for r in [ev.recv] + list(ev.args):
                for t_ev, _ in tor:
                    if r is not None and t_ev.result is not None and (r.alias & t_ev.result.alias):
                        srcs.add(id(t_ev))
            if len(srcs) >= (2 if binary else 1):
                okc = ev
        ob.decide("R7", "C03.6", fi, "combinator=Regex." + comb, bool(okc),
                  "the operands' expressions are combined by Regex.%s" % comb,
                  "%s does not combine the operands with Regex.%s" % (meth, comb), summ, site=site_of(prog, fi, fi.node))
        toe = [ev for ev, _ in calls(summ, "to_epsilon_nfa", own=True)]
        okr = bool(okc) and any(ev.recv is not None and (ev.recv.alias & okc.result.alias) and
                                (summ.ret.alias & ev.result.alias) for ev in toe)
        ob.decide("R7", "C03.6", fi, "result=to_epsilon_nfa(combined)", okr,
                  "the result is the automaton of the combined expression",
                  "%s does not return the automaton of the combined expression" % meth, summ,
                  site=site_of(prog, fi, fi.node))
    for dunder, target, binary in (("__and__", "get_intersection", True), ("__sub__", "get_difference", True),
                                   ("__neg__", "get_complement", False), ("__invert__", "reverse", False)):
        fi = prog.method("EpsilonNFA", dunder)
        summ = interp.run_entry(fi, ENFA)
        cs = [ev for ev, _ in calls(summ, target, own=True)]
        ok = any(ev.recv is not None and SELF in ev.recv.alias and (not binary or (ev.args and OTHER in ev.args[0].alias))
                 and bool(summ.ret.alias & ev.result.alias) for ev in cs)
        ob.decide("R7", "C03.6", fi, "delegates-to:" + target, ok, "%s delegates to %s with the same operands" % (dunder, target),
                  "%s does not delegate to %s with the same operands" % (dunder, target), summ,
                  site=site_of(prog, fi, fi.node))

    names.check(eng, rep, "C03")
    rep.stats.update(eng.stats())
    rep.floor = 60
