"""C11 - intersection with a regular language (CFG and PDA)."""
from __future__ import annotations

import ast

from ..model import CFG, PDA, IG, DFA, ENFA, NFA, REGEX
from . import names
from .common import site_of
from .flow import (own, Oblig, calls, events, deps_of, arg_deps, SELF, P, result_locs, START, FINAL, DELTA_SYM,
                   is_worklist_closure, check_escapes)

OTHER = P("other")
PROD = "pyformlang.cfg.production.Production"
CVC = "pyformlang.pda.cfg_variable_converter.CFGVariableConverter"
EXPLANATION = (
    "Decides: every value indexed as `automaton(state, symbol)[k]` on the path of CFG.intersection is a "
    "DeterministicFiniteAutomaton's successor list (typestate R3b; a merely deterministic-shaped epsilon-NFA returns "
    "a set); PDA.intersection only iterates successors; the three intersection methods accept Regex and "
    "FiniteAutomaton and end their dispatch with NotImplementedError (R7 sibling); the Start -> epsilon production "
    "depends on both self.contains([]) and other.accepts([]), start rules on START / FINAL of the automaton and the "
    "grammar's start symbol, both normal-form production shapes are handled, product finality of the PDA depends on "
    "both FINAL sets, epsilon moves keep the automaton state, pair worklist (R1, R10a); a new converter per call (R4); "
    "result names closed-world / injective (R5). Not decided: exactness of the Bar-Hillel and product constructions.")


def run(eng, rep, tier):
    prog, interp = eng.prog, eng.interp
    rep.explanation = EXPLANATION
    ob = Oblig(eng, rep, "C11")

    # -------------------------------------------------------------- C11.1 successor indexing needs a DFA
    fi = prog.method("CFG", "intersection")
    summ = interp.run_entry(fi, CFG)
    for f_, s_, label in ((fi, summ, "CFG"), (prog.method("PDA", "intersection"), None, "PDA")):
        if s_ is None:
            s_ = interp.run_entry(f_, PDA)
        def _is_other(av):
            """the automaton operand itself, or a fresh automaton made from it (a determinised / copied `other`)"""
            if av is None:
                return False
            if OTHER in av.alias:
                return True
            return bool(av.alias) and all(l[0].startswith("fresh:") for l in av.alias) and \
                any(isinstance(d, tuple) and d and d[0] == OTHER[0] for d in deps_of(av)) and \
                av.types is not None and bool(av.types) and av.types <= {DFA, ENFA, NFA}
        succ = []
        for ev, chain in s_.walk():
            if ev.kind == "call" and ev.callee.endswith("FiniteAutomaton.__call__") and _is_other(ev.recv) \
                    and ev.result is not None:
                succ.append(ev)
        idx = []
        for ev, chain in s_.walk():
            if ev.kind == "subscript" and ev.recv is not None and ev.args and ev.args[0].has_const() and \
                    isinstance(ev.args[0].const, int):
                src = [c for c in succ if set(ev.recv.alias) & set(c.result.alias)]
                if src:
                    idx.append((ev, chain, src))
        for ev, chain, src in idx:
            non_dfa = sorted({t_.rsplit(".", 1)[-1] for c in src for t_ in (c.recv.types or {"?"}) if t_ != DFA})
            ob.decide("R3b", "C11.1", ev.func, "successor-index", not non_dfa,
                      "the indexed successor collection always comes from a DeterministicFiniteAutomaton",
                      "`%s` indexes the successors of an automaton that can be a %s here (kept as it is because "
                      "is_deterministic() was true): its successors are a set - TypeError"
                      % (ev.site.text, " / ".join(non_dfa)), s_, site=ev.site.to_json(),
                      path=[str(c.site) for c in chain])
        if not idx:
            ob.decide("R3b", "C11.1", f_, "successors-only-iterated:" + label, bool(succ),
                      "successors of the automaton are only iterated, never indexed",
                      "the automaton's successors are not used at all in %s.intersection" % label, s_,
                      site=site_of(prog, f_, f_.node))
    f2 = prog.method("PDA", "intersection")
    s2 = interp.run_entry(f2, PDA)
    from ..av import has_qual
    for f_, s_, label in ((fi, summ, "CFG"), (f2, s2, "PDA")):
        # picking ONE start state: a constant index into the start collection, or next(iter(..)) of it
        picks = [ev for ev, _ in s_.walk() if ev.kind == "subscript" and ev.args and ev.args[0].has_const() and
                 ev.recv is not None and START(OTHER) in deps_of(ev.recv)]
        picks += [ev for ev, _ in s_.walk() if ev.kind == "bcall" and ev.callee == "next" and ev.args and
                  START(OTHER) in (deps_of(ev.args[0]) | deps_of(ev.args[0].elem))]
        src = [ev for ev, _ in s_.walk() if ev.kind == "call" and ev.callee.endswith(".start_states") and _is_other(ev.recv)]
        # a pick made inside a method of the deterministic class on its own start set (DFA.to_deterministic building a
        # fresh copy of itself) is a pick on a deterministic automaton by class invariant
        picks = [ev for ev in picks if not (ev.recv_cls == DFA and ev.func.cls is not None and ev.func.cls.qname == DFA)]
        okd = bool(src) and (not picks or all(has_qual(ev.recv, "DET") for ev in src))
        bad = next((ev for ev in src if not has_qual(ev.recv, "DET")), None)
        ob.decide("R3c", "C11.1", f_, "single-start-pick:" + label, okd,
                  "the automaton whose start set is indexed is deterministic on every path (is_deterministic() was true, or "
                  "it was determinised)",
                  "`list(other.start_states)[0]` picks *the* start state of an automaton that can have several start states "
                  "here (class %s, not known to be deterministic): words accepted from the other start states are lost"
                  % (sorted(x.rsplit(".", 1)[-1] for x in (bad.recv.types or [])) if bad else "?"), s_,
                  site=(picks[0].site.to_json() if picks else site_of(prog, f_, f_.node)))
    # the seeded start pair is tested for finality like every other pair
    fins2 = [ev for ev, _ in calls(s2, "add_final_state", own=True)]
    ob.decide("R1", "C11.3", f2, "start-pair-tested-for-finality",
              bool(fins2) and _start_pair_tested(s2),
              "the finality test is applied to the popped pair, which includes the start pair",
              "the start pair (PDA start state, automaton start state) is never tested for finality: words accepted in "
              "it, the empty word included, are lost", s2, site=site_of(prog, f2, f2.node))

    # -------------------------------------------------------------- C11.2 sibling dispatch
    # decided by analysing each sibling with `other` typed as a Regex, as each finite-automaton class, and as a value of
    # an unsupported type: the first two must come back with a result and never raise NotImplementedError, the last
    # must leave by NotImplementedError on every path (wherever the type test and the raise are written)
    from ..av import AV as _AV
    from .flow import escaping_raises, short_exc
    REGEX_Q = prog.cls("Regex").qname
    fa_classes = [q for q in prog.subclasses(prog.cls("FiniteAutomaton").qname) if q not in eng.abstract]

    def outcome(f, cq, ty):
        other = _AV(types=frozenset({ty}), alias=frozenset({("p:other", ())}))
        s_ = interp.run_entry(f, cq, args=[other])
        # raises of the dispatcher itself (entry frame and its private helpers), not of the algorithms it calls
        excs = {short_exc(x) for ev, _ in events(s_, "raise", own=True) if not ev.caught for x in ev.exc}
        returns = any(ev.kind == "ret" for ev in s_.events)
        return returns, excs, s_
    for cname in ("CFG", "PDA", "IndexedGrammar"):
        f = prog.method(cname, "intersection")
        cq = prog.cls(cname).qname
        good, why = True, ""
        for ty in [REGEX_Q] + fa_classes:
            returns, excs, _s = outcome(f, cq, ty)
            if not returns or "NotImplementedError" in excs:
                good, why = False, "%s operand: returns=%s, raises %s" % (ty.rsplit(".", 1)[-1], returns, sorted(excs))
        returns, excs, s_bad = outcome(f, cq, "int")
        ob.decide("R7", "C11.2", f, "dispatch:" + cname, good,
                  "accepts a Regex and every finite-automaton class (returns a result, no NotImplementedError)",
                  "%s.intersection does not accept the documented operand types like its siblings (%s)" % (cname, why), None,
                  site=site_of(prog, f, f.node))
        ob.decide("R6", "C11.2", f, "dispatcher-raises-only-NotImplementedError:" + cname,
                  excs == {"NotImplementedError"} and not returns,
                  "an operand of another type leaves by NotImplementedError on every path",
                  "%s.intersection with an unsupported operand: returns=%s, raises %s (documented: NotImplementedError)"
                  % (cname, returns, sorted(excs) or "nothing"), s_bad, site=site_of(prog, f, f.node))

    # -------------------------------------------------------------- C11.3 empty word, start rules, shapes
    eps = [ev for ev in own(summ) if ev.kind == "new" and ev.callee == PROD and len(ev.args) > 1 and
           ev.args[1].only("list") and ev.args[1].elem is None]
    okc = bool(eps) and all(("self", ("_productions",)) in ev.ctrl | _xc(ev) or SELF in ev.ctrl | _xc(ev) for ev in eps) and \
        all(any(isinstance(d, tuple) and d[0] == "p:other" for d in ev.ctrl | _xc(ev)) for ev in eps)
    cont = [ev for ev, _ in calls(summ, "contains", own=True)]
    acc = [ev for ev, _ in calls(summ, "accepts", own=True)]
    ob.decide("R1", "C11.3", fi, "start->epsilon-iff-both", okc and bool(cont) and bool(acc),
              "the production Start -> epsilon is added under a test on self.contains([]) and other.accepts([])",
              "the empty word of the intersection does not depend on both operands", summ,
              site=(eps[0].site.to_json() if eps else site_of(prog, fi, fi.node)))
    fs = prog.method("CFG", "_intersection_starting_rules")
    cvs = [ev for ev, _ in calls(summ, "to_cfg_combined_variable") if ev.func is fs]
    oks = bool(cvs) and all(START(OTHER) in arg_deps(ev, 0) and FINAL(OTHER) in arg_deps(ev, 2) and
                            any(isinstance(d, tuple) and d[1] and d[1][-1] == "_start_symbol" for d in arg_deps(ev, 1)
                                if isinstance(d[1], tuple)) for ev in cvs)
    ob.decide("R1", "C11.3", fs, "start-rules", oks,
              "Start -> (q0, S, f) for the automaton's start state, the grammar's start symbol and every final state f",
              "the starting rules are not built from (start state, start symbol, final state)", summ,
              site=site_of(prog, fs, fs.node))
    two = [ev for ev, _ in calls(summ, "_intersection_when_two_non_terminals", own=True)]
    one = [ev for ev, _ in calls(summ, "_intersection_when_terminal", own=True)]
    ob.decide("R7", "C11.3", fi, "both-normal-form-shapes", bool(two) and bool(one),
              "productions with two variables and productions with one terminal are both translated",
              "one of the two Chomsky production shapes is not translated", summ, site=site_of(prog, fi, fi.node))
    nf = [ev for ev, _ in calls(summ, "to_normal_form", own=True)]
    ob.decide("R1", "C11.3", fi, "works-on-normal-form", bool(nf) and all(SELF in ev.recv.alias for ev in nf),
              "the construction runs on self's normal form", "CFG.intersection does not normalise self", summ,
              site=site_of(prog, fi, fi.node))
    # PDA side
    res = result_locs(s2)
    fins = [ev for ev, _ in calls(s2, "add_final_state", own=True, recv_locs=res)]
    ob.decide("R1", "C11.3", f2, "product-final-iff-both",
              bool(fins) and all(("self", ("_final_states",)) in ev.ctrl and FINAL(OTHER) in ev.ctrl for ev in fins),
              "a product state is final under a test on both FINAL sets",
              "finality of the product PDA does not depend on both operands", s2, site=site_of(prog, f2, f2.node))
    ob.worklist("C11.3", f2, "pair-worklist", "reachable pairs by a visited-set worklist",
                "PDA.intersection is not a closure worklist")
    # A product state is (PDA state, automaton state).  On an epsilon move of the PDA the automaton stays where it is,
    # so some *target* pair must be able to carry the automaton state that was popped.  Decided on identities: a target
    # pair is one whose PDA component cannot be the PDA's start state (it comes out of the transition function); the
    # popped automaton state is the only automaton-side value that can be the automaton's start state.
    def _has_start(av):
        return any("_start_state" in l[1] or "start_states" in l[1] for l in av.alias)
    pairs = [ev for ev, _ in calls(s2, "to_pda_combined_state", own=True) if len(ev.args) >= 2]
    targets = [ev for ev in pairs if not _has_start(ev.args[0])]
    keep = any(_has_start(ev.args[1]) for ev in targets)
    if not pairs or not targets:
        rep.error("R1", "C11.3", f2.qname, "epsilon-keeps-automaton-state",
                  "the product pairs of PDA.intersection are not built through to_pda_combined_state any more; the rule "
                  "cannot follow them", site=site_of(prog, f2, f2.node))
        keep = None
    if keep is not None:
      ob.decide("R1", "C11.3", f2, "epsilon-keeps-automaton-state", keep,
              "on an epsilon move of the PDA the automaton stays in its state",
              "epsilon moves of the PDA are not paired with `the automaton stays`", None, site=site_of(prog, f2, f2.node))
    adds = [ev for ev, _ in calls(s2, "add_transition", own=True, recv_locs=res)]
    ob.decide("R1", "C11.3", f2, "edges-depend-on-both",
              bool(adds) and any(DELTA_SYM(OTHER) in deps_of(ev.args[3]) for ev in adds if len(ev.args) > 3) and
              any(("self", ("_transition_function", "_transitions")) in deps_of(ev.args[3]) | ev.ctrl for ev in adds if len(ev.args) > 3),
              "product edges pair a PDA move with an automaton move", "product edges do not depend on both operands", s2,
              site=site_of(prog, f2, f2.node))
    # -------------------------------------------------------------- C11.4 fresh converter
    for f, s, label in ((fi, summ, "CFG"), (f2, s2, "PDA")):
        convs = [ev for ev in own(s) if ev.kind == "new" and ("Converter" in ev.callee)]
        ob.decide("R4", "C11.4", f, "fresh-converter:" + label, bool(convs),
                  "a new converter is created in every call", "%s.intersection reuses a converter across calls" % label, s,
                  site=site_of(prog, f, f.node))
    # premise of the closed-world names above ("Start" cannot be captured): every other variable of the result is made by
    # the converter from its integer counter - never from user-supplied values
    VAR_Q = prog.cls("pyformlang.cfg.variable.Variable").qname if "pyformlang.cfg.variable.Variable" in prog.classes else None
    made = [ev for ev, _ in summ.walk() if ev.kind == "new" and ev.callee == VAR_Q and ev.func.cls is not None
            and ev.func.cls.name == "CFGVariableConverter"]
    if not made:
        rep.error("R5", "C11.R5", fi.qname, "combined-variable-is-counter",
                  "no Variable construction by the CFGVariableConverter was found in the closure of CFG.intersection")
    else:
        bad = [ev for ev in made if not ev.args or ev.args[0].types is None or not ev.args[0].types <= {"int", "bool"}]
        unknown = [ev for ev in bad if not ev.args or ev.args[0].types is None]
        if unknown and len(unknown) == len(bad):
            rep.error("R5", "C11.R5", fi.qname, "combined-variable-is-counter",
                      "the value naming a combined variable has an unknown type", site=unknown[0].site.to_json())
        else:
            ob.decide("R5", "C11.R5", made[0].func, "combined-variable-is-counter", not bad,
                      "combined variables are named by the converter's integer counter (%d construction sites)" % len(made),
                      "a combined variable is named from %s instead of the converter's counter: names built from user "
                      "values are not injective over (state, symbol, state) and can capture `Start`"
                      % (sorted(bad[0].args[0].types) if bad and bad[0].args and bad[0].args[0].types else "?"), summ,
                      site=(bad[0].site.to_json() if bad else made[0].site.to_json()))
    names.check(eng, rep, "C11")
    rep.stats.update(eng.stats())
    rep.floor = 18


def _start_pair_tested(s2):
    """Some finality test (membership in a FINAL set) is applied to a value that may be the seeded start state."""
    from .flow import may_be_element_of
    ok_self = ok_other = False
    for ev in own(s2):
        if ev.kind != "member" or ev.recv is None or not ev.args:
            continue
        a = ev.args[0]
        if ("self", ("_final_states",)) in ev.recv.alias and ("self", ("_start_state",)) in a.alias:
            ok_self = True
        if FINAL(OTHER) in ev.recv.alias and may_be_element_of(a, START(OTHER)):
            ok_other = True
    return ok_self and ok_other


def _xc(ev):
    return ev.xctrl


def _classes(ev, chain):
    for c in reversed(chain):
        pass
    return "EpsilonNFA / NondeterministicFiniteAutomaton for which is_deterministic() is true"


def _det_facts(ev, summ):
    return True
