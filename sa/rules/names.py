"""R5 / R5b - library-invented identifiers: freshness and injectivity.

Every construction of an identifier object (State, Symbol, Variable, Terminal,
StackSymbol, directly or through the to_* wrappers or a constructor passed as a
parameter) whose argument contains a string literal - directly, through a local
defined that way, a join, an f-string - is a *site*.  Each site must be proved

  FRESH      built inside / obtained from a freshness loop `v = mk(..); while v in C: v = mk(..)`
  INJ        injective encoding (tuple value, str(tuple))
  or be listed in the table below, confirmed by reading, as closed-world /
  template / denotation label / parameter default - with the checkable part of
  that claim re-checked on every run - or as a confirmed finding.

A site that is none of these is a violation: a non-fresh, non-injective name
identifies two states / variables for the user input that uses that spelling.
"""
from __future__ import annotations

import ast
from dataclasses import dataclass, field
from typing import Dict, List, Optional

from ..index import ClassInfo, FuncInfo, norm_stmt, AnalysisError

ID_CLASSES = {
    "pyformlang.finite_automaton.state.State", "pyformlang.finite_automaton.symbol.Symbol",
    "pyformlang.cfg.variable.Variable", "pyformlang.cfg.terminal.Terminal",
    "pyformlang.pda.state.State", "pyformlang.pda.symbol.Symbol", "pyformlang.pda.stack_symbol.StackSymbol",
}
WRAPPERS = {
    "pyformlang.finite_automaton.finite_automaton.to_state", "pyformlang.finite_automaton.finite_automaton.to_symbol",
    "pyformlang.cfg.utils.to_variable", "pyformlang.cfg.utils.to_terminal",
}
# reduced-rule constructors take bare strings as non-terminal names
RULE_CLASSES = {
    "pyformlang.indexed_grammar.duplication_rule.DuplicationRule",
    "pyformlang.indexed_grammar.production_rule.ProductionRule",
    "pyformlang.indexed_grammar.end_rule.EndRule",
    "pyformlang.indexed_grammar.consumption_rule.ConsumptionRule",
}


@dataclass
class NameSite:
    func: FuncInfo
    node: ast.Call
    kind: str                 # ctor | wrapper | ctor-param | rule | graph-node
    cls: str                  # constructed class / wrapper
    literals: List[str]
    expr: ast.expr
    str_wrapped: bool = True  # R5b: every non-literal operand of a `+` goes through str()
    bare_operands: List[str] = field(default_factory=list)
    category: str = ""
    why: str = ""

    @property
    def sig(self) -> str:
        return "|".join(dict.fromkeys(self.literals))      # each literal once, in order of first appearance

    def key(self):
        from ..report import short_fn
        return (short_fn(self.func.qname), self.sig)

    def ckey(self):
        """key under which the table is consulted: the literal part of a name is identified by the characters it is made
        of, not by how the pieces are cut (`"(" + v + ")" + "."` and f"({v}).") or ordered"""
        k = self.key()
        return (k[0], canon(k[1]))


def canon(sig: str) -> str:
    if sig.startswith("<"):
        return sig
    return "".join(sorted(set("".join(sig.split("|")))))


def _local_imports(prog, fi):
    out = {}
    for sub in ast.walk(fi.node):
        if isinstance(sub, (ast.Import, ast.ImportFrom)):
            out.update(prog.import_bindings(prog.modules[fi.module], sub))
    return out


def _assignments(fn_node) -> Dict[str, List[ast.expr]]:
    out: Dict[str, List[ast.expr]] = {}
    for sub in ast.walk(fn_node):
        if isinstance(sub, ast.Assign):
            for tgt in sub.targets:
                if isinstance(tgt, ast.Name):
                    out.setdefault(tgt.id, []).append(sub.value)
        elif isinstance(sub, ast.AugAssign) and isinstance(sub.target, ast.Name):
            out.setdefault(sub.target.id, []).append(sub.value)
    return out


def literal_parts(expr, assigns, depth=0, seen=None):
    """String literals that can end up in the value of `expr` (through `+`, join, f-strings, str(), locals)."""
    seen = seen if seen is not None else set()
    lits: List[str] = []
    if isinstance(expr, ast.Constant):
        if isinstance(expr.value, str):
            lits.append(expr.value)
    elif isinstance(expr, ast.JoinedStr):
        for v in expr.values:
            if isinstance(v, ast.Constant) and isinstance(v.value, str):
                lits.append(v.value)
            elif isinstance(v, ast.FormattedValue):
                lits += literal_parts(v.value, assigns, depth, seen)
    elif isinstance(expr, ast.BinOp) and isinstance(expr.op, (ast.Add, ast.Mod)):
        lits += literal_parts(expr.left, assigns, depth, seen) + literal_parts(expr.right, assigns, depth, seen)
    elif isinstance(expr, ast.Call):
        f = expr.func
        if isinstance(f, ast.Attribute) and f.attr == "join":
            lits += literal_parts(f.value, assigns, depth, seen)
            for a in expr.args:
                lits += literal_parts(a, assigns, depth, seen)
        elif isinstance(f, ast.Name) and f.id in ("str", "sorted", "list", "tuple", "map", "reversed", "format"):
            for a in expr.args:
                lits += literal_parts(a, assigns, depth, seen)
        elif isinstance(f, ast.Attribute) and f.attr == "format":
            lits += literal_parts(f.value, assigns, depth, seen)
            for a in expr.args:
                lits += literal_parts(a, assigns, depth, seen)
        else:
            # a private string helper of the module / class (`_concat(a, b)` returning a + "." + b): what it returns is made
            # of its arguments and of the literals of its return expressions
            nm = f.id if isinstance(f, ast.Name) else (f.attr if isinstance(f, ast.Attribute) and isinstance(f.value, ast.Name)
                                                        and f.value.id in ("self", "cls") else None)
            h = assigns.get("@helpers", {}).get(nm) if nm and nm.startswith("_") else None
            if h is not None and depth < 3 and ("@fn:" + nm) not in seen:
                seen.add("@fn:" + nm)
                for a in expr.args:
                    lits += literal_parts(a, assigns, depth, seen)
                hassigns = _assignments(h)
                hassigns["@consts"] = assigns.get("@consts", {})
                hassigns["@helpers"] = assigns.get("@helpers", {})
                for r in ast.walk(h):
                    if isinstance(r, ast.Return) and r.value is not None:
                        lits += literal_parts(r.value, hassigns, depth + 1, set(x for x in seen if x.startswith("@fn:")))
    elif isinstance(expr, ast.Name) and expr.id in assigns.get("@consts", {}):
        lits.append(assigns["@consts"][expr.id])
    elif isinstance(expr, ast.Name) and depth < 3 and expr.id not in seen:
        seen.add(expr.id)
        for v in assigns.get(expr.id, []):
            lits += literal_parts(v, assigns, depth + 1, seen)
        # lists filled by append: values.append("TRASH")
        for v in assigns.get("@append:" + expr.id, []):
            lits += literal_parts(v, assigns, depth + 1, seen)
    elif isinstance(expr, ast.IfExp):
        lits += literal_parts(expr.body, assigns, depth, seen) + literal_parts(expr.orelse, assigns, depth, seen)
    elif isinstance(expr, (ast.ListComp, ast.GeneratorExp, ast.SetComp)):
        lits += literal_parts(expr.elt, assigns, depth, seen)      # the pieces joined are what the comprehension yields
    elif isinstance(expr, (ast.List, ast.Tuple, ast.Set)):
        for e in expr.elts:
            lits += literal_parts(e.value if isinstance(e, ast.Starred) else e, assigns, depth, seen)
    return lits


def str_locals(fn_node, assigns) -> set:
    """Locals that are certainly strings: every assignment is a string expression (greatest fixpoint)."""
    cand = {k for k in assigns if not k.startswith("@")}
    changed = True
    while changed:
        changed = False
        for name in sorted(cand):
            if not all(_is_strish(v, cand) for v in assigns[name]):
                cand.discard(name)
                changed = True
    return cand


def _is_strish(v, strnames) -> bool:
    if isinstance(v, ast.Constant):
        return isinstance(v.value, str)
    if isinstance(v, ast.JoinedStr):
        return True
    if isinstance(v, ast.Name):
        return v.id in strnames or v.id.isupper()
    if isinstance(v, ast.Call) and isinstance(v.func, ast.Name) and v.func.id in ("str", "chr", "repr"):
        return True
    if isinstance(v, ast.Call) and isinstance(v.func, ast.Attribute) and v.func.attr in ("join", "strip", "replace",
                                                                                         "lstrip", "rstrip"):
        return True
    if isinstance(v, ast.BinOp) and isinstance(v.op, ast.Add):
        return _is_strish(v.left, strnames) and _is_strish(v.right, strnames)
    return False


def bare_plus_operands(expr, assigns, strnames, depth=0):
    """R5b: operands of a name-building `+` that are not certainly strings and not wrapped in str()."""
    out = []
    if isinstance(expr, ast.BinOp) and isinstance(expr.op, ast.Add):
        for side in (expr.left, expr.right):
            if isinstance(side, ast.BinOp):
                out += bare_plus_operands(side, assigns, strnames, depth)
            elif _is_strish(side, strnames):
                continue
            else:
                out.append(side)
    elif isinstance(expr, ast.Name) and depth < 2 and expr.id not in strnames:
        for v in assigns.get(expr.id, []):
            out += bare_plus_operands(v, assigns, strnames, depth + 1)
    return out


def enumerate_sites(prog) -> List[NameSite]:
    sites: List[NameSite] = []
    for fq, fi in sorted(prog.functions.items()):
        if fq.endswith("#setter") or isinstance(fi.node, ast.Lambda):
            continue
        mod = prog.modules[fi.module]
        limp = _local_imports(prog, fi)
        assigns = _assignments(fi.node)
        for sub in ast.walk(fi.node):
            if isinstance(sub, ast.Expr) and isinstance(sub.value, ast.Call) and \
                    isinstance(sub.value.func, ast.Attribute) and sub.value.func.attr == "append" and \
                    isinstance(sub.value.func.value, ast.Name) and sub.value.args:
                assigns.setdefault("@append:" + sub.value.func.value.id, []).append(sub.value.args[0])
        params = set(fi.params)
        consts = {}
        for nm, d in mod.defs.items():
            if nm.isupper() and hasattr(d, "node") and isinstance(getattr(d, "node", None), ast.Constant) \
                    and isinstance(d.node.value, str):
                consts[nm] = d.node.value
        assigns["@consts"] = consts
        helpers = {}
        for q2, g in prog.functions.items():
            if g.module == fi.module and isinstance(g.node, ast.FunctionDef) and g.name.startswith("_") and \
                    not g.name.endswith("__") and (g.cls is None or (fi.cls is not None and g.cls.qname in fi.cls.mro)):
                helpers.setdefault(g.name, g.node)
        assigns["@helpers"] = helpers
        strnames = str_locals(fi.node, assigns)
        # name-building assignments inside freshness loops over bare values (FST states are arbitrary hashables)
        loops = freshness_loop_vars(fi.node)
        for sub in ast.walk(fi.node):
            if isinstance(sub, ast.Assign) and len(sub.targets) == 1 and isinstance(sub.targets[0], ast.Name) and \
                    sub.targets[0].id in loops and isinstance(sub.value, ast.BinOp):
                bare = bare_plus_operands(sub.value, assigns, strnames)
                sites.append(NameSite(fi, sub, "loop-name", sub.targets[0].id, ["<counter>"], sub.value, not bare,
                                      [ast.unparse(b) for b in bare]))
        for call in ast.walk(fi.node):
            if not isinstance(call, ast.Call):
                continue
            ent = prog.resolve_expr(mod, call.func, limp) if isinstance(call.func, (ast.Name, ast.Attribute)) else None
            kind = cls = None
            arg_exprs = []
            if isinstance(ent, ClassInfo) and ent.qname in ID_CLASSES:
                kind, cls = "ctor", ent.qname
                arg_exprs = call.args[:1]
            elif isinstance(ent, FuncInfo) and ent.qname in WRAPPERS:
                kind, cls = "wrapper", ent.qname
                arg_exprs = call.args[:1]
            elif isinstance(ent, ClassInfo) and ent.qname in RULE_CLASSES:
                kind, cls = "rule", ent.qname
                arg_exprs = list(call.args)
            elif isinstance(call.func, ast.Name) and call.func.id in params and len(call.args) == 1 and not call.keywords \
                    and ent is None and not _is_instance_param(prog, mod, fi, call.func.id):
                # (one argument: an identifier class is built from its value; `other(state, symbol)` is a transition
                # function being applied)
                # constructor handed in as a parameter: type_generating(prefix)
                kind, cls = "ctor-param", call.func.id
                arg_exprs = call.args[:1]
            elif isinstance(call.func, ast.Attribute) and call.func.attr in ("add_node", "add_edge") and call.args:
                kind, cls = "graph-node", call.func.attr
                arg_exprs = call.args[:2] if call.func.attr == "add_edge" else call.args[:1]
            if kind is None:
                continue
            for ae in arg_exprs:
                lits = literal_parts(ae, assigns)
                if kind == "ctor-param" and not lits:
                    # prefix parameter: the literal comes from the callers; the site is judged by the loop around it
                    lits = ["<param:%s>" % ast.unparse(ae)[:30]] if _mentions_param(ae, params) else []
                if not lits and _is_tuple_encoding(ae):
                    lits = ["<tuple>"]
                if not lits:
                    continue
                bare = bare_plus_operands(ae, assigns, strnames)
                sites.append(NameSite(fi, call, kind, cls, lits, ae, not bare, [ast.unparse(b) for b in bare]))
    return sites


def _is_instance_param(prog, mod, fi, name):
    """`self`, or a parameter annotated with a repository class: calling it is `__call__` on an instance (the
    transition function of an automaton), not a constructor handed in as a value."""
    args = fi.node.args.posonlyargs + fi.node.args.args + fi.node.args.kwonlyargs
    if fi.cls is not None and fi.kind != "static" and args and args[0].arg == name and \
            not any(isinstance(d, ast.Name) and d.id == "staticmethod" for d in fi.node.decorator_list):
        return True
    for a in args:
        if a.arg == name and a.annotation is not None:
            ent = prog.resolve_expr(mod, a.annotation)
            if isinstance(ent, ClassInfo):
                return True
    return False


def _mentions_param(expr, params):
    return any(isinstance(x, ast.Name) and x.id in params for x in ast.walk(expr))


# --------------------------------------------------------------------- freshness
def freshness_loop_vars(fn_node) -> Dict[str, str]:
    """Variables established by a freshness loop in this function: name -> collection text.

        v = mk(..)
        while v in C:      (also: `if s in C:` ... `while v in C:` as in FSTStateRemaining.add_state)
            ... v = mk(..)
    """
    out = {}
    for sub in ast.walk(fn_node):
        left = sub.test.left if isinstance(sub, ast.While) and isinstance(sub.test, ast.Compare) else None
        if isinstance(left, ast.Call) and len(left.args) == 1 and isinstance(left.args[0], ast.Name) and not left.keywords:
            left = left.args[0]          # `while to_variable(name) in reserved:` tests the name through its wrapper
        if isinstance(sub, ast.While) and isinstance(sub.test, ast.Compare) and len(sub.test.ops) == 1 and \
                isinstance(sub.test.ops[0], ast.In) and isinstance(left, ast.Name):
            var = left.id
            coll = ast.unparse(sub.test.comparators[0])
            reassigned = any((isinstance(s, ast.Assign) and any(isinstance(tg, ast.Name) and tg.id == var for tg in s.targets)) or
                             (isinstance(s, ast.AugAssign) and isinstance(s.target, ast.Name) and s.target.id == var)
                             for s in ast.walk(sub))
            if reassigned:
                out[var] = coll
    return out


def is_fresh_generator(fi: FuncInfo):
    """The function returns a name that went through a freshness loop against a collection given by a parameter or
    a field: (True, collection text, returned variable)."""
    loops = freshness_loop_vars(fi.node)
    if not loops:
        return False, None, None
    for sub in ast.walk(fi.node):
        if isinstance(sub, ast.Return) and sub.value is not None:
            names = [x.id for x in ast.walk(sub.value) if isinstance(x, ast.Name)]
            for nm in names:
                if nm in loops:
                    return True, loops[nm], nm
    return False, None, None


def classify(prog, sites: List[NameSite]):
    """Fill category for FRESH / INJ sites; the rest stays '' for the table."""
    gens = {}
    for fq, fi in prog.functions.items():
        ok, coll, var = is_fresh_generator(fi)
        if ok:
            gens[fq] = (coll, var)
    for s in sites:
        loops = freshness_loop_vars(s.func.node)
        # (a) the constructed value is assigned to a loop-checked variable
        if s.kind == "loop-name":
            s.category, s.why = "FRESH", "name built inside freshness loop against %s" % loops.get(s.cls)
            continue
        if isinstance(s.expr, ast.Name) and s.expr.id in loops:
            # the name handed over IS the loop-checked variable (`while name in used: name += "_"` ... `add_node(name)`)
            s.category, s.why = "FRESH", "name went through the freshness loop against %s" % loops[s.expr.id]
            continue
        par_assign = _assigned_name(s.func.node, s.node)
        if par_assign is not None and par_assign in loops:
            s.category, s.why = "FRESH", "inside freshness loop against %s" % loops[par_assign]
            continue
        # (a') the value is a local whose only literal-bearing assignments are calls of a freshness generator of the
        # class / module (`value = self._fresh_name(value)`): the name went through that generator's loop
        if isinstance(s.expr, ast.Name):
            vals = _assignments(s.func.node).get(s.expr.id, [])
            helpers = {}
            for q2, g in prog.functions.items():
                if g.module == s.func.module and q2 in gens:
                    helpers[g.name] = q2
            def _gen_call(v):
                if not isinstance(v, ast.Call):
                    return None
                nm = v.func.attr if isinstance(v.func, ast.Attribute) else getattr(v.func, "id", None)
                return helpers.get(nm)
            bearing = [v for v in vals if _gen_call(v) or literal_parts(v, {"@consts": {}, "@helpers": {}})]
            if bearing and all(_gen_call(v) for v in bearing):
                g = _gen_call(bearing[0])
                s.category, s.why = "FRESH", "name obtained from the freshness loop of %s (checked against %s)" % (
                    g.rsplit(".", 1)[-1], gens[g][0])
                continue
        # (b) tuple value / str(tuple)
        if _is_tuple_encoding(s.expr):
            s.category, s.why = "INJ", "tuple-valued name (injective)"
            continue
    return gens


def _assigned_name(fn_node, call) -> Optional[str]:
    for sub in ast.walk(fn_node):
        if isinstance(sub, ast.Assign) and any(x is call for x in ast.walk(sub.value)):
            # the call (or an expression built from it) is the assigned value
            if len(sub.targets) == 1 and isinstance(sub.targets[0], ast.Name):
                return sub.targets[0].id
    return None


def _is_tuple_encoding(expr) -> bool:
    if isinstance(expr, ast.Tuple):
        return True
    if isinstance(expr, ast.Call) and isinstance(expr.func, ast.Name) and expr.func.id == "str" and expr.args and \
            isinstance(expr.args[0], ast.Tuple):
        return True
    return False


def fresh_call_sites(prog, gens):
    """Call sites of the freshness generators: (caller FuncInfo, call node, generator qname)."""
    out = []
    for fq, fi in sorted(prog.functions.items()):
        if isinstance(fi.node, ast.Lambda) or fq.endswith("#setter"):
            continue
        mod = prog.modules[fi.module]
        limp = _local_imports(prog, fi)
        for call in ast.walk(fi.node):
            if not isinstance(call, ast.Call):
                continue
            target = None
            if isinstance(call.func, ast.Name):
                ent = prog.resolve_expr(mod, call.func, limp)
                if isinstance(ent, FuncInfo) and ent.qname in gens:
                    target = ent.qname
            elif isinstance(call.func, ast.Attribute) and isinstance(call.func.value, ast.Name) and \
                    call.func.value.id == "self" and fi.cls is not None:
                m = prog.find_method(fi.cls.qname, call.func.attr)
                if m is not None and m.qname in gens:
                    target = m.qname
            if target:
                out.append((fi, call, target))
    return out


# ------------------------------------------------------------------------------------------------
# The table: every literal-bearing site of today's tree, confirmed by reading (one line of reason).
# key = (function, literal signature).  category:
#   finding        not fresh / not injective: a confirmed defect (role = finding key)
#   closed-world   lives only among library-generated names of a disjoint shape (re-checked: no user-valued
#                  construction of the same class in the same function)
#   template       throw-away grammar whose every variable is renamed by substitute (re-checked: only used as the
#                  receiver of .substitute)
#   label          denotation label on a private copy (two equal texts are the same expression)
#   default        default value of a user-facing parameter, not an invented name
#   spelling       the epsilon spelling, not a name
#   out-of-scope   not anchored by any property (listed so that the site count is complete)
# ------------------------------------------------------------------------------------------------
T = {
    ("epsilon_nfa.to_single_state", ";|TRASH"): ("C01", "finding", "merged-name",
        "';'.join(sorted(str)) is not injective: {'a;b'} and {'a','b'} get the same DFA state"),
    ("DeterministicFiniteAutomaton.minimize", "Empty"): ("C01", "closed-world", "empty-dfa-state",
        "only state of the automaton returned on the empty-language early exit"),
    ("EpsilonNFA.get_complement", "TrashNode"): ("C03", "finding", "trash-name",
        "State('TrashNode') is not checked against the user's states"),
    ("epsilon_nfa.combine_state_pair", "; "): ("C03", "finding", "pair-name",
        "str(a)+'; '+str(b) is not injective: ('a; b','c') and ('a','b; c') collide"),
    ("Regex._get_production", "A"): ("C05", "finding", "generated-variable-name",
        "'A'+count is not checked against the caller-supplied starting symbol"),
    ("EpsilonNFA._remove_state", "(|)|."): ("C06", "label", "regex-text-label",
        "regex text placed as a Symbol on a private copy during state elimination"),
    ("CFG._get_productions_with_only_single_terminals", "#CNF#"): ("C09", "finding", "lifted-terminal-name",
        "<terminal>#CNF# is not checked against the grammar's variables"),
    ("CFG.substitute", "#SUBS#"): ("C10", "counter-suffix", "renamed-variable-name",
        "value + '#SUBS#' + k with k unique per source variable: injective on the renamed set, and every variable of "
        "the result is renamed"),
    ("CFG.union", "#STARTUNION#"): ("C10", "template", "template-start", "template eliminated by substitute"),
    ("CFG.union", "#0UNION#"): ("C10", "template", "template-terminal", "placeholder replaced by substitute"),
    ("CFG.union", "#1UNION#"): ("C10", "template", "template-terminal", "placeholder replaced by substitute"),
    ("CFG.concatenate", "#STARTCONC#"): ("C10", "template", "template-start", "template eliminated by substitute"),
    ("CFG.concatenate", "#0CONC#"): ("C10", "template", "template-terminal", "placeholder replaced by substitute"),
    ("CFG.concatenate", "#1CONC#"): ("C10", "template", "template-terminal", "placeholder replaced by substitute"),
    ("CFG.get_closure", "#STARTCLOS#"): ("C10", "template", "template-start", "template eliminated by substitute"),
    ("CFG.get_closure", "#1CLOS#"): ("C10", "template", "template-terminal", "placeholder replaced by substitute"),
    ("CFG.get_positive_closure", "#STARTPOSCLOS#"): ("C10", "template", "template-start", "eliminated by substitute"),
    ("CFG.get_positive_closure", "#VARPOSCLOS#"): ("C10", "template", "template-start", "eliminated by substitute"),
    ("CFG.get_positive_closure", "#1POSCLOS#"): ("C10", "template", "template-terminal", "replaced by substitute"),
    ("CFG.intersection", "Start"): ("C11", "closed-world", "result-start",
        "every other variable of the result is an integer made by CFGVariableConverter"),
    ("CFG._intersection_starting_rules", "Start"): ("C11", "closed-world", "result-start",
        "same object family as CFG.intersection's start"),
    ("CFG.to_pda", "q"): ("C13", "closed-world", "single-state", "the only state of the produced PDA"),
    ("PDAObjectCreator.get_stack_symbol_from", "#TERM#"): ("C13", "finding", "terminal-stack-name",
        "'#TERM#'+value is not checked against the stack symbols made from variables"),
    ("PDA.to_cfg", "#StartCFG#"): ("C13", "closed-world", "result-start",
        "every other variable of the result is an integer made by CFGVariableConverter"),
    ("FCFG._get_final_state", "Gamma"): ("C18", "finding", "dummy-head-name",
        "Variable('Gamma') is not checked against the grammar's variables"),
    ("finite_automaton.add_start_state_to_graph", "starting_"): ("C20", "finding", "pseudo-node-name",
        "'starting_'+value is not checked against the user's state names (and PDA.from_networkx skips the prefix)"),
    ("FST.to_networkx", "starting_"): ("C20", "benign-collision", "pseudo-node-name-fst",
        "same spelling, but FST.from_networkx neither skips the prefix nor reads edges without label: a state with "
        "that name survives the round trip"),
    ("PDA.to_networkx", "INITIAL_STACK_HIDDEN"): ("C20", "finding", "hidden-node-name",
        "the hidden start-stack node name is not checked against the user's state names"),
    ("FST._extract_fst_duplication_rules_intersection", "S"): ("C17", "closed-world", "result-root",
        "every user non-terminal of the result is renamed to str(tuple)"),
    ("FST._extract_fst_duplication_rules_intersection", "T"): ("C17", "closed-world", "result-end", "as above"),
    ("FST._extract_indexed_grammar_rules_intersection", "T"): ("C17", "closed-world", "result-end", "as above"),
    ("FST.intersection", "T"): ("C17", "closed-world", "result-end", "as above"),
    ("FST.intersection", "epsilon"): ("C17", "spelling", "epsilon", "terminal spelling"),
    ("FST._extract_fst_epsilon_intersection", "epsilon"): ("C17", "spelling", "epsilon", "terminal spelling"),
    ("CFG.from_text", "S"): ("C20", "default", "default-start", "documented default of the start_symbol parameter"),
    ("RecursiveAutomaton.from_ebnf", "S"): ("C20", "default", "default-start", "documented default start non-terminal"),
    ("ParseTree.to_networkx", "ROOT"): ("-", "out-of-scope", "root-node", "drawing helper, no property anchors it"),
}

# R5b: operands that are identifier *values* (arbitrary hashables / ints made by the library itself)
R5B_VALUE_PARAMS = {("FSTStateRemaining.add_state", "state")}
R5B_ROLE = {"CFG.substitute": ("C10", "renamed-variable-name-total"),
            "FSTStateRemaining.add_state": ("C16", "renamed-state-name-total")}

# freshness generators: which collection must be checked for which kind of name
FRESH_CALL_EXPECT = {
    "PDA.to_final_state": ("C13", 3), "PDA.to_empty_stack": ("C13", 3), "CFG._decompose_productions": ("C09", 1),
}
COLLECTION_FOR_TYPE = {"State": "self._states", "StackSymbol": "self._stack_alphabet"}


def _tc():
    return {(f, canon(k)): (f, k) for (f, k) in T}


def _t_get(s):
    """table entry of a site: by its exact signature, else by the canonical one"""
    ent = T.get(s.key())
    if ent is None:
        raw = _tc().get(s.ckey())
        ent = T.get(raw) if raw is not None else None
    return ent


def check(eng, rep, prop):
    """Emit the R5 / R5b obligations that belong to property `prop`."""
    from ..report import short_fn
    from .common import site_of
    prog = eng.prog
    sites = enumerate_sites(prog)
    gens = classify(prog, sites)
    seen = set()
    n = 0
    # table entries that the generic enumeration does not reach (names built in one function and turned into an
    # identifier in another): locate the literal in the named function, or fail as a vanished anchor
    have = {s.key() for s in sites} | {_tc().get(s.ckey()) for s in sites}
    for key, ent in sorted(T.items()):
        if ent[0] != prop or key in have:
            continue
        fi = _find_function(prog, key[0])
        node = None
        if fi is not None:
            for sub in ast.walk(fi.node):
                if isinstance(sub, ast.Constant) and isinstance(sub.value, str) and sub.value in key[1].split("|"):
                    node = sub
                    break
        if node is None and any(src == key for src in _moved_sources(prog, sites, have)):
            continue
        if node is None and ent[1] == "template":
            # the template may have been generalised into a helper that builds the names from a parameter
            # ("#START" + name + "#"): accept a site of the same module whose literal is a prefix of the listed one and
            # which passes the same template check (eliminated through substitute() before returning)
            def _pref(a, b):
                return len(a) >= 2 and b.startswith(a)
            twin = next((s2 for s2 in sites if s2.func.module == (fi.module if fi is not None else None) and _t_get(s2) is None
                         and any(_pref(lit, key[1]) for lit in s2.literals) and template_ok(prog, s2)[0]), None)
            if twin is not None:
                rep.holds("R5", prop + ".R5", twin.func.qname, "template:" + key[1],
                          "template name now built in %s, still eliminated through substitute()" % twin.func.name,
                          site=site_of(prog, twin.func, twin.node))
                continue
        if node is None:
            if ent[1] == "finding":
                # the reported construct is gone: nothing to report (a repaired tree), and nothing to hold vacuously
                continue
            rep.error("R5", prop + ".R5", key[0], "anchor:" + key[1],
                      "listed name site %r no longer exists in %s: the table of sa/rules/names.py must be re-confirmed"
                      % (key[1], key[0]))
            continue
        par = _stmt_of(fi.node, node)
        sites.append(NameSite(fi, par, "name-local", "str", [key[1]], node))
    moved_from = {}
    for s in sites:
        if _t_get(s) is None and s.category == "":
            src = _moved_entry(prog, s, have)
            if src is not None:
                moved_from[s.key()] = src
    for s in sites:
        key = s.key()
        fshort = key[0]
        ent = _t_get(s)
        moved = False
        if ent is None and key in moved_from:
            # the literal-bearing construction was moved to another function of the same class / module (extract
            # method): judge it under the entry confirmed for its old place; what cannot be re-established there is
            # `cannot follow`, not a violation
            ent = T[moved_from[key]]
            moved = True
        sprop = ent[0] if ent else None
        if s.category == "FRESH":
            sprop = {"pda.get_next_free": "C13", "FSTStateRemaining.add_state": "C16",
                     "CFG._get_next_free_variable": "C09"}.get(fshort, sprop)
        if s.category == "INJ":
            sprop = "C17" if fshort.startswith("FST.") else ("C11" if "_PDAStateConverter" in fshort else sprop)
        # R5b belongs to the property of the name
        if s.bare_operands and fshort in R5B_ROLE and R5B_ROLE[fshort][0] == prop:
            vals = [b for b in s.bare_operands if b.endswith(".value") or (fshort, b) in R5B_VALUE_PARAMS]
            role = R5B_ROLE[fshort][1]
            if vals and (fshort, role) not in seen:
                seen.add((fshort, role))
                n += 1
                rep.violation("R5b", prop + ".R5b", s.func.qname, role,
                              "name built with `+` from an identifier value (%s) without str(): identifiers made by the "
                              "library itself are integers / arbitrary hashables, so this raises TypeError"
                              % ", ".join(vals), site=site_of(prog, s.func, s.node))
        if sprop != prop and not (ent is None and s.category == "" and _default_prop(fshort) == prop):
            continue
        dk = (key, s.category, ast.unparse(s.expr))
        if dk in seen:
            continue
        seen.add(dk)
        n += 1
        site = site_of(prog, s.func, s.node)
        if s.category in ("FRESH", "INJ"):
            if s.kind == "loop-name":
                ok, why = registry_records(s)
                if not ok:
                    rep.violation("R5", prop + ".R5", s.func.qname, "fresh-name-not-recorded", why, site=site)
                    continue
            rep.holds("R5", prop + ".R5", s.func.qname, "%s:%s" % (s.category.lower(), s.sig), s.why, site=site)
            continue
        if ent is None:
            rep.violation("R5", prop + ".R5", s.func.qname, "unproven-name:%s" % s.sig,
                          "library-invented identifier %r (%s) is neither built by a freshness loop, nor an injective "
                          "encoding, nor a listed closed-world/template name: it can capture a user name"
                          % (s.sig, ast.unparse(s.expr)[:80]), site=site)
            continue
        _, cat, role, reason = ent
        if cat == "finding":
            # a finding keeps its identity when its construct is moved inside the class (extract method): it is reported
            # under the function it was confirmed in, so that the known finding is recognised and not reported as new
            fq = s.func.qname
            if moved:
                orig = _find_function(prog, moved_from[key][0])
                fq = orig.qname if orig is not None else fq
            rep.violation("R5", prop + ".R5", fq, role, reason, site=site)
        elif cat == "closed-world":
            ok, why = closed_world_ok(prog, s)
            if ok:
                rep.holds("R5", prop + ".R5", s.func.qname, "closed-world:" + role, reason, site=site)
            else:
                (rep.error if moved else rep.violation)("R5", prop + ".R5", s.func.qname, "closed-world-broken:" + role, why, site=site)
        elif cat == "template":
            ok, why = template_ok(prog, s)
            if ok:
                rep.holds("R5", prop + ".R5", s.func.qname, "template:" + s.sig, reason, site=site)
            else:
                (rep.error if (moved or ok is None) else rep.violation)("R5", prop + ".R5", s.func.qname,
                                                                        "template-escapes:" + s.sig, why, site=site)
        elif cat == "counter-suffix":
            ok, why = counter_suffix_ok(prog, s)
            if ok:
                rep.holds("R5", prop + ".R5", s.func.qname, "inj-counter:" + s.sig, reason, site=site)
            else:
                (rep.error if moved else rep.violation)("R5", prop + ".R5", s.func.qname, "counter-not-unique:" + s.sig, why, site=site)
        else:
            rep.holds("R5", prop + ".R5", s.func.qname, "%s:%s" % (cat, role), reason, site=site, nontrivial=False)
    # call sites of the freshness generators
    for fi, call, gen in fresh_call_sites(prog, gens):
        fshort = short_fn(fi.qname)
        exp = FRESH_CALL_EXPECT.get(fshort)
        if exp is None:
            if _default_prop(fshort) == prop:
                exp = (prop, 0)
            else:
                continue
        if exp[0] != prop:
            continue
        n += 1
        site = site_of(prog, fi, call)
        lit = next((a.value for a in call.args if isinstance(a, ast.Constant) and isinstance(a.value, str)), "?")
        if gen.endswith("get_next_free"):
            from .counters import _single_defs, _canon
            coll_txt = _canon(call.args[2], _single_defs(fi.node)) if len(call.args) == 3 else "?"    # through local aliases
            ok = len(call.args) == 3 and isinstance(call.args[1], ast.Name) and \
                COLLECTION_FOR_TYPE.get(call.args[1].id) == coll_txt
            if ok:
                rep.holds("R5", prop + ".R5", fi.qname, "fresh:" + lit,
                          "name obtained from the freshness loop, checked against %s" % ast.unparse(call.args[2]), site=site)
            else:
                rep.violation("R5", prop + ".R5", fi.qname, "fresh-wrong-collection:" + lit,
                              "the freshness loop checks %s, but a %s lives in %s"
                              % (ast.unparse(call.args[2]) if len(call.args) == 3 else "?",
                                 ast.unparse(call.args[1]) if len(call.args) > 1 else "?",
                                 COLLECTION_FOR_TYPE.get(getattr(call.args[1], "id", ""), "?")), site=site)
        else:
            rep.holds("R5", prop + ".R5", fi.qname, "fresh:" + lit, "name obtained from %s" % short_fn(gen), site=site)
    # the generators themselves
    for gq, (coll, var) in sorted(gens.items()):
        gshort = short_fn(gq)
        gprop = {"pda.get_next_free": "C13", "CFG._get_next_free_variable": "C09"}.get(gshort)
        if gprop == prop:
            n += 1
            rep.holds("R5", prop + ".R5", gq, "freshness-loop",
                      "returns `%s` only after `while %s in %s` failed" % (var, var, coll),
                      site=site_of(prog, prog.functions[gq], prog.functions[gq].node))
    # expected counts (vacuity guard)
    for fshort, (p2, cnt) in FRESH_CALL_EXPECT.items():
        if p2 == prop:
            got = sum(1 for fi, call, gen in fresh_call_sites(prog, gens) if short_fn(fi.qname) == fshort)
            if got < cnt:
                # fewer wrapper names go through the generator than confirmed by hand: the bare constructor sites that
                # replaced them are reported above as unproven names; nothing else to add
                pass
    return n


def _same_unit(prog, f_a, fshort_b):
    """Function f_a and the function named fshort_b belong to the same class (or, for module functions, module)."""
    fb = _find_function(prog, fshort_b)
    if fb is None:
        # the listed function is gone altogether (merged into a sibling): same unit = same class / module by name
        head = fshort_b.rpartition(".")[0]
        if f_a.cls is not None:
            return any(prog.classes[q].name == head for q in f_a.cls.mro if q in prog.classes)
        return f_a.module.rsplit(".", 1)[-1] == head
    if f_a.cls is not None and fb.cls is not None:
        return f_a.cls.qname in fb.cls.mro or fb.cls.qname in f_a.cls.mro
    return f_a.module == fb.module


def _moved_entry(prog, s, have):
    """Table key whose listed site vanished from its function while a site with the same literal now exists in another
    function of the same class / module."""
    for key in T:
        if canon(key[1]) == canon(s.sig) and key not in have and _same_unit(prog, s.func, key[0]):
            return key
    return None


def _moved_sources(prog, sites, have):
    out = set()
    for s in sites:
        if _t_get(s) is None and s.category == "":
            src = _moved_entry(prog, s, have)
            if src is not None:
                out.add(src)
    return out


def _find_function(prog, fshort):
    from ..report import short_fn
    for fq, fi in prog.functions.items():
        if short_fn(fq) == fshort and not fq.endswith("#setter"):
            return fi
    # a private helper that left its class (mixin, module level): the unique function of that name in the module
    head, _, meth = fshort.rpartition(".")
    mods = {c.module for c in prog.classes.values() if c.name == head} | {m for m in prog.modules if m.rsplit(".", 1)[-1] == head}
    for mod in sorted(mods):
        fi = prog.relocated(mod, meth)
        if fi is not None:
            return fi
    return None


def _stmt_of(fn, node):
    best = fn
    for sub in ast.walk(fn):
        if isinstance(sub, ast.stmt) and any(x is node for x in ast.walk(sub)):
            if best is fn or (sub.lineno >= best.lineno and (sub.end_lineno or 0) <= (best.end_lineno or 10**9)):
                best = sub
    return best


def _default_prop(fshort: str) -> str:
    """Property that owns a *new* site (not in the table) by the module it appears in."""
    head = fshort.split(".")[0]
    meth = fshort.split(".")[-1]
    if head == "CFG":
        if meth in ("_decompose_productions", "_get_productions_with_only_single_terminals", "_get_next_free_variable",
                    "to_normal_form", "remove_useless_symbols", "remove_epsilon", "eliminate_unit_productions"):
            return "C09"
        if meth.startswith("intersection") or meth.startswith("_intersection") or meth == "_get_all_bodies":
            return "C11"
        if meth == "to_pda":
            return "C13"
        if meth in ("to_text", "from_text", "_read_line"):
            return "C20"
        return "C10"
    if head == "PDA" and meth in ("intersection",):
        return "C11"
    if head == "PDA" and meth in ("to_networkx", "from_networkx"):
        return "C20"
    if head == "FST" and meth.startswith("_extract") or fshort == "FST.intersection":
        return "C17"
    if head == "FST" and meth in ("to_networkx", "from_networkx"):
        return "C20"
    if head == "EpsilonNFA" and meth in ("to_regex", "_remove_state", "_create_or_transitions", "_get_regex_simple",
                                         "_get_bi_transitions", "_remove_all_basic_states"):
        return "C06"
    if head == "EpsilonNFA" and meth in ("_to_deterministic_internal", "to_deterministic", "remove_epsilon_transitions",
                                         "copy", "minimize"):
        return "C01"
    return {"EpsilonNFA": "C03", "epsilon_nfa": "C01", "DeterministicFiniteAutomaton": "C01",
            "NondeterministicFiniteAutomaton": "C01", "finite_automaton": "C20", "FiniteAutomaton": "C20",
            "CFG": "C10", "PDA": "C13", "pda": "C13", "_PDAStateConverter": "C11", "CFGVariableConverter": "C13",
            "PDAObjectCreator": "C13", "FST": "C16", "FSTStateRemaining": "C16", "Regex": "C05", "regex_objects": "C05",
            "FCFG": "C18", "fcfg": "C18", "IndexedGrammar": "C17", "RecursiveAutomaton": "C20", "Box": "C20",
            "LLOneParser": "C14", "CYKTable": "C08", "RegexReader": "C05", "PythonRegex": "C07"}.get(head, "C19")


def registry_records(s: NameSite):
    """A freshness loop against a registry kept by the object itself (`while v in self._seen: ...`) must put the
    generated name v into that registry afterwards, otherwise the same name is handed out again."""
    loops = freshness_loop_vars(s.func.node)
    var = s.cls
    coll = loops.get(var)
    if coll is None or not coll.startswith("self."):
        return True, ""
    for c in ast.walk(s.func.node):
        if isinstance(c, ast.Call) and isinstance(c.func, ast.Attribute) and c.func.attr in ("add", "append") and \
                ast.unparse(c.func.value) == coll and c.args and isinstance(c.args[0], ast.Name) and c.args[0].id == var:
            return True, ""
    return False, "the name generated by the freshness loop (`%s`) is never recorded in %s: a later collision gets the same " \
                  "name again and two states are merged" % (var, coll)


def closed_world_ok(prog, s: NameSite):
    """No user-valued construction of the same identifier class in the same function."""
    mod = prog.modules[s.func.module]
    limp = _local_imports(prog, s.func)
    for call in ast.walk(s.func.node):
        if not isinstance(call, ast.Call) or call is s.node:
            continue
        ent = prog.resolve_expr(mod, call.func, limp) if isinstance(call.func, (ast.Name, ast.Attribute)) else None
        same = (isinstance(ent, ClassInfo) and ent.qname == s.cls) or \
               (s.kind == "rule" and isinstance(ent, ClassInfo) and ent.qname in RULE_CLASSES)
        if not same:
            continue
        for a in (call.args if s.kind == "rule" else call.args[:1]):
            if isinstance(a, ast.Constant) or _is_tuple_encoding(a):
                continue
            if s.kind == "rule" and isinstance(a, ast.Attribute) and a.attr in ("f_parameter",):
                continue   # stack symbol, not a non-terminal
            if s.kind == "rule" and isinstance(a, ast.Call) and isinstance(a.func, ast.Name) and a.func.id == "str":
                continue   # str(rule.production): a stack symbol spelling
            if s.kind == "rule" and isinstance(a, ast.Name) and a.id == "symbol":
                continue   # terminal of an end rule
            return False, "a user-valued %s (%s) is created next to the reserved name %r" % (
                s.cls.rsplit(".", 1)[-1], ast.unparse(a)[:60], s.sig)
    return True, ""


def template_ok(prog, s: NameSite):
    """The object is only placed in a throw-away grammar that is the receiver of `.substitute`, whose result is
    returned."""
    fn = s.func.node

    def returns_substitute(f, receivers=None):
        rets = [r for r in ast.walk(f) if isinstance(r, ast.Return) and r.value is not None]
        if len(rets) != 1:
            return False
        r = rets[0].value
        return isinstance(r, ast.Call) and isinstance(r.func, ast.Attribute) and r.func.attr == "substitute" and \
            isinstance(r.func.value, ast.Name) and (receivers is None or r.func.value.id in receivers)
    if returns_substitute(fn):
        return True, ""
    # the template is built (possibly once, and kept) by a private helper that hands it to its callers: every caller
    # must eliminate it through substitute() before returning
    if s.func.name.startswith("_") and s.func.cls is not None:
        callers = []
        for m in s.func.cls.methods.values():
            if m is s.func:
                continue
            for st in ast.walk(m.node):
                if isinstance(st, ast.Assign) and isinstance(st.value, ast.Call) and isinstance(st.value.func, ast.Attribute) \
                        and st.value.func.attr == s.func.name:
                    names_ = {x.id for t in st.targets for x in ast.walk(t) if isinstance(x, ast.Name)}
                    callers.append((m, names_))
        if callers and all(returns_substitute(m.node, names_) for m, names_ in callers):
            return True, ""
        if callers:
            return False, "a caller of %s does not eliminate the template through substitute() before returning" % s.func.name
    rets = [r for r in ast.walk(fn) if isinstance(r, ast.Return) and r.value is not None]
    if len(rets) != 1:
        def _is_sub(r):
            return isinstance(r.value, ast.Call) and isinstance(r.value.func, ast.Attribute) and r.value.func.attr == "substitute"
        if any(_is_sub(r) for r in rets):
            # one path still eliminates the template through substitute().  A shortcut path that does not carry the
            # template name at all (an early exit for a degenerate operand) is no naming matter.  A shortcut that KEEPS
            # the name in its result must have tested it against the variables of every operand.
            tname = _assigned_name(fn, s.node)
            operands = ["self"] + [a.arg for a in fn.args.args[1:] if a.arg in ("other", "other_cfg")]
            for r in rets:
                if _is_sub(r):
                    continue
                path = []
                def _find(cur, guards):
                    for fieldname in ("body", "orelse"):
                        blk = getattr(cur, fieldname, None)
                        if isinstance(blk, list):
                            for st in blk:
                                g2 = guards + ([cur.test] if isinstance(cur, ast.If) and fieldname == "body" else [])
                                if st is r:
                                    return g2, blk
                                if any(x is r for x in ast.walk(st)):
                                    return _find(st, g2)
                    return None
                found = _find(fn, [])
                if found is None:
                    return None, "a return path of the template function could not be located"
                guards, blk = found
                carries = tname is not None and any(isinstance(x, ast.Name) and x.id == tname for st in blk for x in ast.walk(st))
                if not carries:
                    continue
                for root in operands:
                    tested = any(isinstance(c, ast.Compare) and len(c.ops) == 1 and isinstance(c.ops[0], ast.NotIn) and
                                 isinstance(c.left, ast.Name) and c.left.id == tname and
                                 ast.unparse(c.comparators[0]).startswith(root + ".") and "variables" in ast.unparse(c.comparators[0])
                                 for g in guards for c in ast.walk(g))
                    if not tested:
                        return False, "a return path keeps the template name `%s` in its result without passing through " \
                                      "substitute() and without testing it against the variables of `%s`: an operand that " \
                                      "already has a variable of that name is captured" % (s.sig, root)
            return True, ""
        return False, "template function has several return paths"
    return False, "the template grammar is not eliminated through substitute() before returning"


def counter_suffix_ok(prog, s: NameSite):
    """value + SUFFIX + str(idx): idx must be incremented after every use inside the same loop body."""
    fn = s.func.node
    blk = None
    for sub in ast.walk(fn):
        for fieldname in ("body", "orelse"):
            b = getattr(sub, fieldname, None)
            if isinstance(b, list) and any(any(x is s.node for x in ast.walk(st)) for st in b):
                blk = b
    if blk is None:
        return False, "cannot locate the renaming statement"
    # a monotone iterator (`numbers = count()` ... `next(numbers)`) advances by itself at every use
    from .flow import inline_locals
    exprs = inline_locals(fn, s.expr)
    for c in [x for e in exprs for x in ast.walk(e)]:
        if isinstance(c, ast.Call) and getattr(c.func, "id", "") == "next" and c.args and isinstance(c.args[0], ast.Name):
            nm = c.args[0].id
            makers = [a for a in ast.walk(fn) if isinstance(a, ast.Assign) and any(isinstance(t, ast.Name) and t.id == nm
                                                                                     for t in a.targets)]
            if len(makers) == 1 and isinstance(makers[0].value, ast.Call) and \
                    ast.unparse(makers[0].value.func).split(".")[-1] == "count":
                return True, ""
    from .flow import enumerate_offsets
    enum = enumerate_offsets(fn)
    if enum is not None and any(isinstance(x, ast.Name) and x.id in enum[2] for e in exprs for x in ast.walk(e)):
        return (True, "") if enum[0] else (False, enum[1])
    ctr = [x.id for e in exprs for x in ast.walk(e) if isinstance(x, ast.Name) and x.id not in ("str",) and not x.id.isupper()
           and x.id != "variable"]
    for c in ctr:
        if any(isinstance(st, ast.AugAssign) and isinstance(st.target, ast.Name) and st.target.id == c
               and isinstance(st.op, ast.Add) for st in blk):
            return True, ""
    return False, "the counter spliced into the name is not advanced for every renamed variable"
