"""Helpers shared by the per-property rule modules."""
from __future__ import annotations

import ast

from ..index import AnalysisError, norm_stmt
from ..model import MUTATORS, VALUE_CLASSES
from ..state import Site


def is_public_name(name: str) -> bool:
    if name in ("__init__", "__new__", "__init_subclass__"):
        return False
    if name.startswith("__") and name.endswith("__"):
        return True
    return not name.startswith("_")


def visible_methods(prog, cls_q):
    names = set()
    for q in prog.classes[cls_q].mro:
        names |= set(prog.classes[q].methods)
    out = []
    for n in sorted(names):
        fi = prog.find_method(cls_q, n)
        if fi is not None:
            out.append(fi)
    return out


def public_entries(eng, classes=None, include_mutators=False):
    """(class qname, FuncInfo) of every public method visible from each listed concrete class."""
    prog = eng.prog
    for cq in (classes or VALUE_CLASSES):
        if cq not in prog.classes:
            raise AnalysisError("model class vanished: %s" % cq)
        if cq in eng.abstract:
            continue
        muts = set(MUTATORS.get(cq, []))
        for fi in visible_methods(prog, cq):
            if not is_public_name(fi.name):
                continue
            if fi.name in muts and not include_mutators:
                continue
            yield cq, fi


def site_of(prog, fi, node) -> dict:
    mod = prog.modules[fi.module]
    return {"file": mod.relpath, "line": getattr(node, "lineno", 0), "function": fi.qname,
            "construct": norm_stmt(node)}


def func_nodes(fi, kinds):
    for sub in ast.walk(fi.node):
        if isinstance(sub, kinds):
            yield sub


def require_method(prog, cls, name):
    return prog.method(cls, name)
