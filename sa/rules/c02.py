"""C02 - equivalence is exact; minimisation reduced and canonical."""
from __future__ import annotations

import ast

from ..model import ENFA, NFA, DFA, FABASE, BOX, RSA
from .common import site_of
from .flow import (lower_block, both_answers, innermost_loop, block_atoms, assignments, executed_calls, Oblig, calls, events, receivers, START, FINAL, STATES, SYMBOLS, DELTA_SYM, DELTA_EPS, SELF, P,
                   result_locs, deps_of, arg_deps)

EXPLANATION = (
    "Decides: every path into the isomorphism walk passes two results of minimize() on DeterministicFiniteAutomaton "
    "values, self and a non-DFA other are determinised first (R3d); == delegates to is_equivalent_to (R7); the walk's "
    "verdict depends on FINAL of both sides, on the full edge sets of both sides and on the symbol of each paired edge "
    "(R1); the initial partition is split on FINAL and the refinement ranges over all symbols and states (R1); the "
    "minimal automaton is restricted to reachable states (shared with C01.6). Not decided: exactness of the verdict - "
    "the confirmed defect 'an explicit sink state on one side makes equal languages compare unequal' has no "
    "structural signature (DESIGN section 7).")


def run(eng, rep, tier):
    prog, interp = eng.prog, eng.interp
    rep.explanation = EXPLANATION
    ob = Oblig(eng, rep, "C02")
    walk = prog.private(DFA + "._is_equivalent_to_minimal")
    if walk is None:
        rep.error("R3d", "C02.1", DFA, "anchor", "the isomorphism walk _is_equivalent_to_minimal vanished")
        return

    # ---------------------------------------------------------------- C02.1 both sides minimised DFAs
    entries = [(DFA, prog.method("DeterministicFiniteAutomaton", "is_equivalent_to"))]
    base = prog.functions[FABASE + ".is_equivalent_to"]
    for q in (ENFA, NFA):
        if prog.find_method(q, "is_equivalent_to") is base:
            entries.append((q, base))
    for recv_q, fi in entries:
        summ = interp.run_entry(fi, recv_q)
        label = prog.classes[recv_q].name
        walks = list(calls(summ, "_is_equivalent_to_minimal"))
        mins = [ev for ev, _ in calls(summ, "minimize") if ev.callee == DFA + ".minimize"]
        min_res = frozenset().union(*[ev.result.alias for ev in mins]) if mins else frozenset()
        bad = None
        for ev, _ in walks:
            for i in (0, 1):
                a = ev.args[i] if i < len(ev.args) else None
                if a is None or not a.only(DFA) or not a.alias or not (a.alias <= min_res):
                    bad = bad or (ev, i)
        ob.decide("R3d", "C02.1", fi, "walk-args-minimised:" + label, bool(walks) and bad is None,
                  "both arguments of the isomorphism walk are results of minimize() on DFAs (%d call paths)" % len(walks),
                  "the isomorphism walk can be entered with an automaton that is not a minimised DFA (argument %s)"
                  % (bad[1] if bad else "?"), summ, site=(bad[0].site.to_json() if bad else site_of(prog, fi, fi.node)))
        recvs_ok = all(ev.recv is not None and ev.recv.only(DFA) for ev in mins)
        ob.decide("R3d", "C02.1", fi, "minimize-on-dfa:" + label, bool(mins) and recvs_ok,
                  "minimize is only applied to determinised automata",
                  "minimize is applied to a non-deterministic automaton", summ, site=site_of(prog, fi, fi.node))
        if recv_q != DFA:
            det = [ev for ev, _ in calls(summ, "to_deterministic", own=True) if ev.recv is not None and SELF in ev.recv.alias]
            ob.decide("R3d", "C02.1", fi, "self-determinised:" + label, bool(det),
                      "a non-DFA receiver is determinised before comparing",
                      "is_equivalent_to does not determinise self", summ, site=site_of(prog, fi, fi.node))
        else:
            det = [ev for ev, _ in calls(summ, "to_deterministic", own=True)
                   if ev.recv is not None and P("other") in ev.recv.alias]
            guarded = all(any("isinstance(other" in f[0] and f[1] is False for f in ev.facts) for ev in det)
            ob.decide("R3d", "C02.1", fi, "other-determinised", bool(det) and guarded,
                      "a non-DFA argument is determinised before comparing",
                      "DeterministicFiniteAutomaton.is_equivalent_to does not determinise a non-DFA argument", summ,
                      site=site_of(prog, fi, fi.node))

    # ---------------------------------------------------------------- C02.2 == delegates
    for cls_name, target in (("EpsilonNFA", "is_equivalent_to"), ("Box", "is_equivalent_to"),
                             ("RecursiveAutomaton", "is_equals_to")):
        fi = prog.method(cls_name, "__eq__")
        recv_q = prog.cls(cls_name).qname
        summ = interp.run_entry(fi, recv_q)
        cs = [ev for ev, _ in calls(summ, target, own=True)]
        ok = any(ev.recv is not None and SELF in ev.recv.alias and ev.args and P("other") in ev.args[0].alias for ev in cs) \
            and all(r.value is not None for r in [e for e in summ.events if e.kind == "ret"])
        rets = [e for e in summ.events if e.kind == "ret"]
        ok = ok and len(rets) == 1 and isinstance(rets[0].node.value, ast.Call)
        ob.decide("R7", "C02.2", fi, "eq-delegates-to:" + target, ok, "== is %s" % target,
                  "%s.__eq__ does not simply return %s(other)" % (cls_name, target), summ, site=site_of(prog, fi, fi.node))

    # ---------------------------------------------------------------- C02.3 the walk
    summ = interp.run_entry(walk, None)
    a, b = P("self_minimal"), P("other_minimal")
    rd = deps_of(summ.ret)
    for tag, role, what in ((FINAL(a), "verdict-depends-on-final-self", "finality of the left side"),
                            (FINAL(b), "verdict-depends-on-final-other", "finality of the right side"),
                            (DELTA_SYM(a), "verdict-depends-on-edges-self", "the edge set of the left side"),
                            (DELTA_SYM(b), "verdict-depends-on-edges-other", "the edge set of the right side"),
                            (("EDGE_SYMBOL", a), "verdict-depends-on-symbol-self", "the symbol of each paired edge (left)"),
                            (("EDGE_SYMBOL", b), "verdict-depends-on-symbol-other", "the symbol of each paired edge (right)"),
                            (("EDGE_TARGET", a), "verdict-depends-on-target-self", "the successor states (left)"),
                            (("EDGE_TARGET", b), "verdict-depends-on-target-other", "the successor states (right)"),
                            (START(a), "walk-starts-at-start-self", "the start state (left)"),
                            (START(b), "walk-starts-at-start-other", "the start state (right)")):
        ob.decide("R1", "C02.3", walk, role, tag in rd, "the verdict depends on " + what,
                  "the verdict of the isomorphism walk does not depend on " + what, summ, site=site_of(prog, walk, walk.node))
    ft = [ev for ev, _ in calls(summ, "is_final_state", own=True)]
    for side, who in ((a, "self"), (b, "other")):
        from .flow import may_be_element_of
        ok = any(ev.recv is not None and side in ev.recv.alias and ev.args and may_be_element_of(ev.args[0], START(side))
                 for ev in ft)
        ob.decide("R1", "C02.3", walk, "start-pair-finality-compared-" + who, ok,
                  "the finality comparison is applied to the popped pair, which includes the start pair",
                  "the start states are never compared for finality (two automata that differ only in whether the empty "
                  "word is accepted compare equal)", summ, site=site_of(prog, walk, walk.node))
    consts = set()
    for ev in summ.events:
        if ev.kind == "ret" and ev.value is not None and ev.value.has_const():
            consts.add(ev.value.const)
    ob.decide("R1", "C02.3", walk, "both-verdicts-reachable", both_answers(summ),
              "the walk can answer True and False", "the isomorphism walk can only answer %s" % sorted(consts), summ,
              site=site_of(prog, walk, walk.node))

    # ---------------------------------------------------------------- C02.5 partition
    fi = prog.method("DeterministicFiniteAutomaton", "_get_partition")
    summ = interp.run_entry(fi, DFA)
    rd = deps_of(summ.ret)
    adds = list(calls(summ, "add_class", own=True))
    fin_split = [ev for ev, _ in adds if FINAL() in arg_deps(ev, 0)]
    ob.decide("R1", "C02.5", fi, "initial-split-on-final", len(adds) >= 2 and bool(fin_split),
              "the initial partition separates final from non-final states",
              "the initial partition is not split on FINAL", summ, site=site_of(prog, fi, fi.node))
    for tag, role in ((STATES(), "all-states"), (SYMBOLS(), "all-symbols"), (DELTA_SYM(), "inverse-edges")):
        ob.decide("R1", "C02.5", fi, "refinement-ranges-over-" + role, tag in rd or any(tag in arg_deps(ev, 0) for ev, _ in adds)
                  or tag in _closure_ctrl(summ),
                  "refinement depends on " + role, "the partition refinement does not range over " + role, summ,
                  site=site_of(prog, fi, fi.node))
    hopcroft_pending_rule(eng, ob, "C02.5")
    rep.stats.update(eng.stats())
    rep.floor = 25



def hopcroft_pending_rule(eng, ob, oblig):
    """Shared by C01 (minimize keeps the language) and C02 (minimize is reduced)."""
    prog, interp = eng.prog, eng.interp
    fi = prog.method("DeterministicFiniteAutomaton", "_get_partition")
    summ = interp.run_entry(fi, DFA)
    # Hopcroft with a pending-splitter list: when the class that was split is itself still pending, the new half must
    # be queued as well (otherwise it is never used as a splitter).  An implementation that always queues both halves
    # has no such test and holds trivially.
    inserts = [ev for ev, _ in calls(summ, "insert", own=True)]
    contains = [ev for ev, _ in calls(summ, "contains", own=True)]
    site = site_of(prog, fi, fi.node)
    if not contains:
        # without a pending test the algorithm is only right when BOTH halves of every split are queued; choosing one
        # half by size (Hopcroft's optimisation) needs the test
        def _is_len(e):
            return any(isinstance(c, ast.Call) and getattr(c.func, "id", "") == "len" for c in ast.walk(e))
        chooses = [c for ev in inserts for c in ast.walk(innermost_loop(ev.func.node, ev.node) or ev.func.node)
                   if isinstance(c, ast.Compare) and len(c.ops) == 1 and isinstance(c.ops[0], (ast.Lt, ast.Gt, ast.LtE, ast.GtE))
                   and _is_len(c.left) and _is_len(c.comparators[0])]
        # the size comparison may sit just outside the innermost loop (choice made once per split)
        if not chooses:
            chooses = [c for c in ast.walk(fi.node) if isinstance(c, ast.Compare) and len(c.ops) == 1
                       and isinstance(c.ops[0], (ast.Lt, ast.Gt, ast.LtE, ast.GtE)) and _is_len(c.left)
                       and _is_len(c.comparators[0]) and "part" in ast.unparse(c) and
                       any(isinstance(a, (ast.For, ast.While)) and any(x is c for x in ast.walk(a)) and
                           any(isinstance(w, ast.While) for w in ast.walk(fi.node) if any(y is a for y in ast.walk(w)))
                           for a in ast.walk(fi.node))]
        ob.decide("R1", oblig, fi, "pending-class-queues-new-half", bool(inserts) and not chooses,
                  "both halves of a split are queued (no pending test, no smaller-half optimisation)",
                  "after a split only the smaller half is queued and there is no test whether the split class is still "
                  "pending: when it is, the other half is never used as a splitter and distinguishable states stay merged"
                  if inserts else "no splitter is ever queued", summ,
                  site=site_of(prog, fi, chooses[0]) if chooses else site)
        return
    # Evaluate the boolean skeleton of the loop body that holds the pending test: for every valuation of its atomic
    # conditions in which `contains(<split class>, symbol)` is true, an insert of the *other* half must execute; for
    # every valuation at all, some insert must execute.
    ok, why = True, ""
    n_models = 0
    for cev in contains:
        fn = cev.func.node
        lp = innermost_loop(fn, cev.node)
        if lp is None:
            ob.rep.error("R1", oblig, fi.qname, "pending-class-queues-new-half",
                         "the pending test is not inside the loop over the symbols; the rule cannot follow it", site=site)
            return
        body = lower_block(lp.body)        # named test results and conditional expressions made explicit
        atoms = block_atoms(body)
        key = ast.dump(cev.node)
        models = assignments(atoms)
        if key not in atoms or models is None:
            ob.rep.error("R1", oblig, fi.qname, "pending-class-queues-new-half",
                         "the pending test is not used as a branch condition of the loop body; the rule cannot follow it",
                         site=site_of(prog, fi, cev.node))
            return
        old_half = ast.unparse(cev.node.args[0]) if cev.node.args else None
        ins_nodes = {(ev.node.lineno, ev.node.col_offset): ev for ev in inserts}
        for asg in models:
            done = [n for n in executed_calls(body, asg) if (getattr(n, "lineno", None), getattr(n, "col_offset", None)) in ins_nodes]
            n_models += 1
            if not done:
                ok, why = False, "on some path through the loop body no half of the split is queued"
            elif asg[key] and not any(n.args and _certainly_not(fn, n.args[0], old_half) for n in done):
                ok, why = False, ("when the split class %s is still pending only %s itself is queued again: the new half is "
                                  "never used as a splitter and distinguishable states stay merged" % (old_half, old_half))
    ob.decide("R1", oblig, fi, "pending-class-queues-new-half", ok,
              "when the split class is pending in the splitter list the new half is queued too, and some half is queued on "
              "every path (%d valuations of the branch conditions)" % n_models, why, summ, site=site)


def _certainly_not(fn, arg, old_half) -> bool:
    """the queued class is certainly not the split class itself: another expression, and - when it is a local - one that
    cannot hold the split class (`smaller = min(c, new, key=len)` may)"""
    if ast.unparse(arg) == old_half:
        return False
    if isinstance(arg, ast.Name):
        from .flow import may_be_names
        return old_half not in may_be_names(fn, arg.id)
    return True


def _closure_ctrl(summ):
    out = set()
    for ev, _ in summ.walk():
        if ev.kind == "call":
            out |= ev.ctrl
            for a in ev.args:
                out |= a.deps
    return out
