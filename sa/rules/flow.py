"""Helpers for the interpretive rule families R1 (component coverage / role
flow), R2/R3 (qualifier sinks): queries over the events of an entry analysis."""
from __future__ import annotations

import ast
from dataclasses import replace as dc_replace
from typing import Iterable, List, Optional

from ..av import AV, all_deps
from ..index import AnalysisError
from ..state import Event, Summary
from .common import site_of

SELF = ("self", ())


def comp(root, field):
    """Dependency tag of a component = location of the field that stores it."""
    r = root if isinstance(root, tuple) else (root, ())
    return (r[0], r[1] + (field,))


def START(r=SELF):
    return comp(r, "_start_state")


def FINAL(r=SELF):
    return comp(r, "_final_states")


def STATES(r=SELF):
    return comp(r, "_states")


def SYMBOLS(r=SELF):
    return comp(r, "_input_symbols")


def DELTA_SYM(r=SELF):
    return ("DELTA_SYM", r)


def DELTA_EPS(r=SELF):
    return ("DELTA_EPS", r)


P = lambda name: ("p:" + name, ())   # noqa: E731


def ECL(r=SELF):
    return ("ECL", r)


def ELEM_ECL(r=SELF):
    return ("ELEM_OF", ("ECL", r))


def is_private_helper_call(ev: Event) -> bool:
    """A call that was inlined and whose callee is a private helper (leading underscore, not a dunder): its frame
    counts as part of the caller's own code, so extracting a block into a private helper (or inlining one) does not
    move the events a rule looks at.  Public methods stay opaque: they are API boundaries with obligations of their
    own."""
    if ev.kind != "call" or ev.callee is None or ev.sub is None:
        return False
    name = ev.callee.rsplit(".", 1)[-1]
    return name.startswith("_") and not (name.startswith("__") and name.endswith("__"))


def walk_own(summ: Summary, chain=(), ctrl=frozenset(), facts=frozenset(), depth=0):
    """Events of the entry frame and of the private-helper frames reached from it.  Events of a helper frame are
    yielded as copies that carry the control dependences and branch facts of the enclosing call sites."""
    for ev in summ.events:
        out = ev
        if chain and (ctrl - ev.ctrl or facts - ev.facts):
            out = dc_replace(ev, ctrl=ev.ctrl | ctrl, facts=ev.facts | facts)
        yield out, chain
        if depth < 6 and is_private_helper_call(ev) and not any(c.callee == ev.callee for c in chain):
            yield from walk_own(ev.sub, chain + (ev,), ctrl | ev.ctrl, facts | ev.facts, depth + 1)


def events(summ: Summary, kind=None, own=False):
    it = walk_own(summ) if own else summ.walk()
    for ev, chain in it:
        if kind is None or ev.kind == kind:
            yield ev, chain


def calls(summ: Summary, name: str, own=False, recv_locs=None):
    """Call events whose callee's short name is `name` (method or function)."""
    for ev, chain in events(summ, "call", own):
        if ev.callee is None:
            continue
        if ev.callee.rsplit(".", 1)[-1] != name:
            continue
        if recv_locs is not None and (ev.recv is None or not (ev.recv.alias & recv_locs)):
            continue
        yield ev, chain


def deps_of(av: Optional[AV]) -> frozenset:
    return all_deps(av) if av is not None else frozenset()


def may_be_element_of(av: Optional[AV], field_loc) -> bool:
    """Can the value be (identity, not mere dependence) an element of the collection stored at field_loc?"""
    if av is None:
        return False
    root, path = field_loc
    for l in av.alias:
        if l[0] == root and l[1][:len(path)] == path and len(l[1]) > len(path):
            return True
    return False


def arg_deps(ev: Event, i: int) -> frozenset:
    if i < len(ev.args):
        return deps_of(ev.args[i])
    return frozenset()


def full_deps(ev: Event, i: int) -> frozenset:
    """data dependence of argument i plus control dependence of the call"""
    return arg_deps(ev, i) | ev.ctrl


def undecidable(summ: Summary) -> Optional[str]:
    if summ.n_unresolved:
        for ev, chain in summ.walk():
            if ev.kind == "unresolved":
                return "construct not understood: %s (%s)" % (ev.site, ev.note)
        return "construct not understood in the closure"
    if summ.incomplete:
        return "analysis of the closure is incomplete (depth cut)"
    return None


def result_locs(summ: Summary) -> frozenset:
    return frozenset(l for l in summ.ret.alias if l[0].startswith("fresh:"))


class Oblig:
    """Emit one obligation with the verdict policy of DESIGN 2.2."""

    def __init__(self, eng, rep, prop):
        self.eng, self.rep, self.prop = eng, rep, prop

    def _decide(self, rule, oblig, fi, role, ok, what_ok, what_bad, summ=None, site=None, path=None, nontrivial=True):
        if ok:
            return self.rep.holds(rule, oblig, fi.qname, role, what_ok, site=site, nontrivial=nontrivial)
        why = undecidable(summ) if summ is not None else None
        if why:
            return self.rep.error(rule, oblig, fi.qname, role, what_bad + " - but " + why, site=site)
        return self.rep.violation(rule, oblig, fi.qname, role, what_bad, site=site, path=path)

    def decide(self, rule, oblig, fi, role, ok, what_ok, what_bad, summ=None, site=None, path=None, nontrivial=True):
        if not ok and rule == "R2" and summ is not None and not has_ecl_source(summ):
            # an epsilon-closedness obligation on code that never asks for a closure the analysis recognises (eclose,
            # eclose_iterable, a private epsilon-only worklist): the closure is computed by other means - all closures
            # at once, an SCC pass, a table - whose correctness is a fact about values.  Not a violation: cannot follow.
            return self.rep.error(rule, oblig, fi.qname, role, what_bad + " - but no recognised epsilon-closure "
                                  "computation is used here at all: closures are obtained by means the rule cannot follow",
                                  site=site)
        return self._decide(rule, oblig, fi, role, ok, what_ok, what_bad, summ, site, path, nontrivial)

    def worklist(self, oblig, fi, role, what_ok, what_bad):
        """R10a with the verdict policy: a loop of another shape (recursion, comprehension) is `not understood`
        (ANALYSIS-ERROR), an understood worklist with a missing guard / mark is a violation."""
        ok, why, info = is_worklist_closure(fi.node, helpers_of(self.eng.prog, fi))
        site = site_of(self.eng.prog, fi, fi.node)
        if ok:
            return self.rep.holds("R10a", oblig, fi.qname, role, what_ok, site=site)
        if why == "no worklist loop found":
            # the loop may live in a private helper the function delegates to (`return self._reachable_by(seeds, ..)`)
            for h in code_nodes(self.eng.prog, fi)[1:]:
                ok2, why2, _ = is_worklist_closure(h, helpers_of(self.eng.prog, fi))
                if ok2:
                    return self.rep.holds("R10a", oblig, fi.qname, role, what_ok + " (in the private helper %s)" % h.name,
                                          site=site)
                if why2 != "no worklist loop found":
                    return self.rep.violation("R10a", oblig, fi.qname, role, what_bad + " (helper %s): %s" % (h.name, why2),
                                              site=site)
            return self.rep.error("R10a", oblig, fi.qname, role, what_bad + ": the closure is not written as a worklist "
                                  "loop any more; the rule cannot follow it", site=site)
        return self.rep.violation("R10a", oblig, fi.qname, role, what_bad + ": " + why, site=site)

    def flow(self, rule, oblig, fi, summ, role, evs, argidx, tag, what, ctrl_ok=False, must_all=False):
        """Some (or every) event among `evs` has `tag` in the dependencies of argument `argidx`."""
        evs = list(evs)
        if not evs:
            return self.decide(rule, oblig, fi, role, False, "", "%s: no such builder call exists on any path" % what,
                               summ, site=site_of(self.eng.prog, fi, fi.node))
        def has(ev):
            d = arg_deps(ev, argidx) if argidx is not None else frozenset()
            if ctrl_ok or argidx is None:
                # control dependence, whether the guard encloses the call or sits before it as an early
                # `if not guard: continue / return`
                d = d | ev.ctrl | ev.xctrl
            return tag in d
        good = [ev for ev, _ in evs if has(ev)]
        bad = [ev for ev, _ in evs if not has(ev)]
        ok = bool(good) and (not must_all or not bad)
        site = (bad[0] if bad else evs[0][0]).site.to_json()
        return self.decide(rule, oblig, fi, role, ok, what, "%s: does not hold (missing dependence on %s)" % (what, _tag(tag)),
                           summ, site=site)


def has_ecl_source(summ) -> bool:
    """some call reached from the entry returns a value qualified ECL (eclose, eclose_iterable, a private epsilon-only
    worklist helper)"""
    for ev, _ in summ.walk():
        if ev.kind == "call" and ev.result is not None and any(isinstance(q, tuple) and q and q[0] == "ECL" for q in ev.result.quals):
            return True
    return False


def _tag(tag):
    from ..av import loc_str
    if isinstance(tag, tuple) and len(tag) == 2 and isinstance(tag[0], str) and isinstance(tag[1], tuple) and \
            tag[0] in ("DELTA_SYM", "DELTA_EPS", "ECL"):
        return "%s(%s)" % (tag[0], loc_str(tag[1]))
    return loc_str(tag)


def qual_all(evs, argidx, qual):
    """(ok, first offending event) - every event has `qual` on argument argidx."""
    bad = None
    n = 0
    for ev, _ in evs:
        n += 1
        a = ev.args[argidx] if argidx < len(ev.args) else None
        if a is None or qual not in a.quals:
            bad = bad or ev
    return (n > 0 and bad is None), bad, n


def receivers(eng, cls_name, meth):
    """(receiver class qname, FuncInfo, Summary) for every concrete class that reaches `cls_name.meth` without
    overriding it."""
    prog = eng.prog
    base = prog.cls(cls_name)
    target = prog.method(cls_name, meth)
    out = []
    for q in eng.concrete_receivers(base.qname):
        if prog.find_method(q, meth) is target:
            out.append((q, target, eng.interp.run_entry(target, q)))
    if not out:
        raise AnalysisError("no concrete receiver for %s.%s" % (cls_name, meth))
    return out


def helpers_of(prog, fi):
    """name -> FunctionDef of the private helpers a function can call: methods visible from its class, functions of
    its module."""
    out = {}
    if fi.cls is not None:
        for q in fi.cls.mro:
            c = prog.classes.get(q)
            if c is not None:
                for n, m in c.methods.items():
                    out.setdefault(n, m.node)
    for q, g in prog.functions.items():
        if g.cls is None and g.module == fi.module and isinstance(g.node, ast.FunctionDef):
            out.setdefault(g.name, g.node)
    return out


def _helper_pushes(lp, w, helpers):
    """Pushes on the worklist done by a private helper that receives it as an argument: (push call, helper body as
    scope, {helper parameter -> caller's argument text})."""
    out = []
    for c in ast.walk(lp):
        if not isinstance(c, ast.Call):
            continue
        name = c.func.attr if isinstance(c.func, ast.Attribute) else c.func.id if isinstance(c.func, ast.Name) else None
        h = (helpers or {}).get(name)
        if h is None or not name.startswith("_"):
            continue
        params = [a.arg for a in h.args.posonlyargs + h.args.args]
        is_static = any(isinstance(d, ast.Name) and d.id in ("staticmethod",) for d in h.decorator_list)
        if isinstance(c.func, ast.Attribute) and not is_static and params:
            params = params[1:]
        amap = {}
        for prm, a in zip(params, c.args):
            amap[prm] = ast.unparse(a)
        for kw in c.keywords:
            if kw.arg:
                amap[kw.arg] = ast.unparse(kw.value)
        wparams = [prm for prm, txt in amap.items() if txt == w]
        for wp in wparams:
            for p in ast.walk(h):
                if isinstance(p, ast.Call) and isinstance(p.func, ast.Attribute) and \
                        p.func.attr in ("append", "put", "appendleft") and ast.unparse(p.func.value) == wp:
                    out.append((p, h, amap))
    return out


def is_worklist_closure(fn_node, helpers=None):
    """R10a: `while W:` with W.pop()/popleft()/get(), a visited collection that only grows, every push guarded by a
    membership test on it with the mark on the same path.  Returns (ok, why, info)."""
    loops = [s for s in ast.walk(fn_node) if isinstance(s, ast.While)]
    for lp in loops:
        w = None
        if isinstance(lp.test, ast.UnaryOp) and isinstance(lp.test.op, ast.Not) and isinstance(lp.test.operand, ast.Call) \
                and isinstance(lp.test.operand.func, ast.Attribute) and lp.test.operand.func.attr in ("empty", "is_empty"):
            w = ast.unparse(lp.test.operand.func.value)
        elif isinstance(lp.test, ast.Constant) and lp.test.value is True:
            # `while True:` whose body leaves by `if <W is empty>: break` (any spelling) at its top level
            for st in lp.body:
                if isinstance(st, ast.If) and not st.orelse and len(st.body) == 1 and isinstance(st.body[0], ast.Break):
                    for cand in sorted({ast.unparse(n) for n in ast.walk(st.test) if isinstance(n, (ast.Name, ast.Attribute))}):
                        if (min_len(st.test, False, cand) or 0) >= 1:
                            w = cand
                            break
                if w is not None:
                    break
        else:
            # any test that implies "W is not empty": W, bool(W), len(W) > 0, len(W) != 0, 0 < len(W), W != [] ...
            for cand in sorted({ast.unparse(n) for n in ast.walk(lp.test) if isinstance(n, (ast.Name, ast.Attribute))}):
                if (min_len(lp.test, True, cand) or 0) >= 1:
                    w = cand
                    break
        if w is None:
            continue
        pops = [c for c in ast.walk(lp) if isinstance(c, ast.Call) and isinstance(c.func, ast.Attribute)
                and c.func.attr in ("pop", "popleft", "get") and ast.unparse(c.func.value) == w]
        if not pops:
            continue
        pushes = [(c, lp, {}) for c in ast.walk(lp) if isinstance(c, ast.Call) and isinstance(c.func, ast.Attribute)
                  and c.func.attr in ("append", "put", "appendleft") and ast.unparse(c.func.value) == w]
        pushes += _helper_pushes(lp, w, helpers)
        # a nested function of the same body that captures the worklist (`def discover(..): .. W.append(..)`)
        nested = {n.name: n for n in ast.walk(fn_node) if isinstance(n, ast.FunctionDef) and n is not fn_node}
        for c in ast.walk(lp):
            if isinstance(c, ast.Call) and isinstance(c.func, ast.Name) and c.func.id in nested:
                h = nested[c.func.id]
                for p_ in ast.walk(h):
                    if isinstance(p_, ast.Call) and isinstance(p_.func, ast.Attribute) and \
                            p_.func.attr in ("append", "put", "appendleft") and ast.unparse(p_.func.value) == w:
                        pushes.append((p_, h, {}))
        if not pushes:
            passed = any(isinstance(c, ast.Call) and any(ast.unparse(a) == w for a in c.args) for c in ast.walk(lp))
            if passed:
                return False, "no worklist loop found", None      # handed to a callee the rule cannot see into
            return False, "worklist %s is never refilled inside the loop" % w, None
        # every push sits under a `not in P` test and P gets the pushed key (at push or at pop); of the membership
        # tests that guard a push, the visited collection is one that is also grown (in the loop or by the helper)
        def grows(scope, amap):
            return {amap.get(ast.unparse(c.func.value), ast.unparse(c.func.value)) for c in ast.walk(scope)
                    if isinstance(c, ast.Call) and isinstance(c.func, ast.Attribute)
                    and c.func.attr in ("add", "update", "append")}
        grown = grows(lp, {})
        visited = None
        for push, scope, amap in pushes:
            guards = [amap.get(g, g) for g in _enclosing_not_in(scope, push)]
            if not guards:
                return False, "push on %s is not guarded by a membership test on a visited collection" % w, push
            g_all = grown | (grows(scope, amap) if scope is not lp else set())
            good = [g for g in guards if g in g_all and g != w]
            if not good:
                return False, "nothing is ever added to the visited collection %s inside the loop" % guards[0], push
            visited = good[0]
        return True, "", {"worklist": w, "visited": visited, "loop": lp}
    return False, "no worklist loop found", None


def _membership(test, want_in):
    """The collection P such that `x not in P` is implied by the test being TRUE (want_in=False) resp. FALSE
    (want_in=True: the test is an `x in P` test, possibly or-ed with other conditions)."""
    if isinstance(test, ast.UnaryOp) and isinstance(test.op, ast.Not):
        return _membership(test.operand, not want_in)
    if isinstance(test, ast.BoolOp):
        # true `a and b` makes every conjunct true; false `a or b` makes every disjunct false
        if isinstance(test.op, ast.And) != want_in:
            for v in test.values:
                r = _membership(v, want_in)
                if r is not None:
                    return r
        return None
    if isinstance(test, ast.Compare) and len(test.ops) == 1:
        if isinstance(test.ops[0], ast.In if want_in else ast.NotIn):
            return ast.unparse(test.comparators[0])
    return None


def _exits(block):
    return bool(block) and isinstance(block[-1], (ast.Continue, ast.Break, ast.Return, ast.Raise))


def _enclosing_not_in(loop, node):
    """The visited collection P such that `node` only runs when its element is not in P.  Guard idioms understood:
    an enclosing `if x not in P:` (true branch), an enclosing `if x in P: ... else:` (else branch), and an earlier
    sibling `if x in P: continue / break / return` in any enclosing block of the loop."""
    path = _path_to(loop, node) + [node]
    found = []
    for k, anc in enumerate(path[:-1]):
        child = path[k + 1]
        if isinstance(anc, ast.If):
            in_body = any(child is s for s in anc.body)
            p = _membership(anc.test, want_in=not in_body)      # body: need `not in`; orelse: need `in`
            if p is not None:
                found.append(p)
        for field in ("body", "orelse", "finalbody"):
            block = getattr(anc, field, None)
            if not isinstance(block, list) or not any(child is s for s in block):
                continue
            for s in block:
                if s is child:
                    break
                if isinstance(s, ast.If) and not s.orelse and _exits(s.body):
                    p = _membership(s.test, want_in=True)
                    if p is not None:
                        found.append(p)
    return found[::-1]      # closest guard first


def _path_to(root, node):
    """ancestors of node below root (outermost first)"""
    out = []

    def rec(cur, acc):
        if cur is node:
            out.extend(acc)
            return True
        for ch in ast.iter_child_nodes(cur):
            if rec(ch, acc + [cur]):
                return True
        return False
    rec(root, [])
    return out


# ------------------------------------------------------------------------------ R6: exceptions
def escaping_raises(interp, summ: Summary, _caught=()):
    """(event, chain, exception names) of explicit raises that can leave the entry point: raises not matched by a
    handler in their own frame nor by a handler enclosing any call on the chain."""
    out = []

    def rec(s: Summary, chain, handlers):
        for ev in s.events:
            if ev.kind == "raise" and not ev.caught and not (ev.note or "").startswith("implicit:"):
                # implicit raisers (next() on an exhausted iterator, like [..][0] on an empty list) are the business of
                # the guard rules, not of the explicit-raise discipline
                names = [x for x in ev.exc if not any(interp.exc_matches(x, h) for h in handlers)]
                if names:
                    out.append((ev, chain, tuple(names)))
            if ev.kind == "call" and ev.sub is not None:
                hs = list(handlers)
                for part in (ev.note or "").split("|"):
                    if part.startswith("caught:"):
                        lst = part[len("caught:"):].split(",")
                        hs.append(None if lst == ["*"] else lst)
                rec(ev.sub, chain + (ev,), hs)
    rec(summ, (), list(_caught))
    return out


def facts_on_path(ev, chain):
    """Branch facts known at the event: its own frame's facts plus those at every enclosing call site."""
    out = set(ev.facts)
    for c in chain:
        out |= c.facts
    return out


def has_fact(facts, needle: str, polarity: bool) -> bool:
    return any(needle in f[0] and f[1] is polarity for f in facts)


def short_exc(name: str) -> str:
    return name.rsplit(".", 1)[-1]


def check_escapes(ob, rule, oblig, fi, summ, allowed, what_entry, finding_roles=None):
    """Every explicit raise that can escape `fi` is of a documented class."""
    esc = escaping_raises(ob.eng.interp, summ)
    seen = set()
    n = 0
    for ev, chain, names in esc:
        for nm in names:
            sn = short_exc(nm)
            key = (ev.site.func, sn)
            if key in seen:
                continue
            seen.add(key)
            n += 1
            if sn in allowed or sn == "<reraise>":
                ob.rep.holds(rule, oblig, ev.site.func, "raise:" + sn, "explicit raise of the documented %s" % sn,
                             site=ev.site.to_json())
            else:
                ob.rep.violation(rule, oblig, ev.site.func, "raise:" + sn,
                                 "%s can leave %s, documented: %s" % (sn, what_entry, ", ".join(sorted(allowed)) or "none"),
                                 site=ev.site.to_json(), path=[str(c.site) for c in chain])
    return n


# ------------------------------------------------------------------------------ boolean skeleton of a block
def _atoms_of(test, out):
    if isinstance(test, ast.BoolOp):
        for v in test.values:
            _atoms_of(v, out)
    elif isinstance(test, ast.UnaryOp) and isinstance(test.op, ast.Not):
        _atoms_of(test.operand, out)
    else:
        out.setdefault(ast.dump(test), test)


def _eval_test(test, asg):
    if isinstance(test, ast.BoolOp):
        vals = [_eval_test(v, asg) for v in test.values]
        return all(vals) if isinstance(test.op, ast.And) else any(vals)
    if isinstance(test, ast.UnaryOp) and isinstance(test.op, ast.Not):
        return not _eval_test(test.operand, asg)
    return asg[ast.dump(test)]


def block_atoms(stmts):
    """The atomic conditions (anything that is not and/or/not) of the if-tests of a block, keyed by ast.dump."""
    out = {}
    for s in stmts:
        for sub in ast.walk(s):
            if isinstance(sub, ast.If):
                _atoms_of(sub.test, out)
    return out


def executed_calls(stmts, asg):
    """Call nodes certainly executed when the block runs once with the atomic conditions valued by `asg` (calls inside
    nested loops, and anything after a break/continue/return, are not counted)."""
    out = []

    def run(block):
        for s in block:
            if isinstance(s, ast.If):
                if run(s.body if _eval_test(s.test, asg) else s.orelse):
                    return True
            elif isinstance(s, (ast.For, ast.While, ast.FunctionDef, ast.ClassDef)):
                continue
            elif isinstance(s, (ast.Break, ast.Continue, ast.Return, ast.Raise)):
                out.extend(n for n in ast.walk(s) if isinstance(n, ast.Call))
                return True
            elif isinstance(s, (ast.With, ast.Try)):
                if run(s.body):
                    return True
            else:
                out.extend(n for n in ast.walk(s) if isinstance(n, ast.Call))
        return False
    run(stmts)
    return out




def may_be_names(fn_node, name, depth=3):
    """names of locals whose VALUE the local `name` may be (identity, not derivation): through `x = y`, `x = a if c else b`,
    `x = min(a, b)` / `max`, `x = a or b`, and tuple assignments `x, y = a, b`"""
    def choices(e):
        if isinstance(e, ast.Name):
            return {e.id}
        if isinstance(e, ast.IfExp):
            return choices(e.body) | choices(e.orelse)
        if isinstance(e, ast.BoolOp):
            return set().union(*[choices(v) for v in e.values])
        if isinstance(e, ast.Call) and getattr(e.func, "id", None) in ("min", "max") and len(e.args) >= 2:
            return set().union(*[choices(a) for a in e.args])
        return set()
    direct = {}
    for st in ast.walk(fn_node):
        if isinstance(st, ast.Assign):
            for tgt in st.targets:
                if isinstance(tgt, ast.Name):
                    direct.setdefault(tgt.id, set()).update(choices(st.value))
                elif isinstance(tgt, ast.Tuple) and isinstance(st.value, ast.Tuple) and len(tgt.elts) == len(st.value.elts):
                    for t_, v_ in zip(tgt.elts, st.value.elts):
                        if isinstance(t_, ast.Name):
                            direct.setdefault(t_.id, set()).update(choices(v_))
                elif isinstance(tgt, ast.Tuple) and isinstance(st.value, ast.IfExp):
                    for br in (st.value.body, st.value.orelse):
                        if isinstance(br, ast.Tuple) and len(br.elts) == len(tgt.elts):
                            for t_, v_ in zip(tgt.elts, br.elts):
                                if isinstance(t_, ast.Name):
                                    direct.setdefault(t_.id, set()).update(choices(v_))
    out, frontier = {name}, {name}
    for _ in range(depth):
        frontier = set().union(*[direct.get(n, set()) for n in frontier]) - out
        out |= frontier
    return out


def lower_block(stmts):
    """A copy of a block in which the boolean skeleton is explicit: (1) a local assigned once in the block from an
    expression and only read afterwards (`waiting = work.contains(c, s)`) is replaced, where it is read inside a test,
    by that expression; (2) a statement whose call arguments contain a conditional expression
    (`work.insert(a if t else b, s)`) becomes `if t: work.insert(a, s) else: work.insert(b, s)`.  Positions (lineno,
    col_offset) of the copied nodes are those of the originals, so nodes can be matched back."""
    import copy
    stmts = copy.deepcopy(list(stmts))
    single = {}
    for s_ in stmts:
        for sub in ast.walk(s_):
            if isinstance(sub, ast.Assign) and len(sub.targets) == 1 and isinstance(sub.targets[0], ast.Name):
                single.setdefault(sub.targets[0].id, []).append(sub.value)
            elif isinstance(sub, (ast.AugAssign, ast.For, ast.comprehension, ast.NamedExpr)):
                for n in ast.walk(sub.target):
                    if isinstance(n, ast.Name):
                        single.setdefault(n.id, []).extend([None, None])
    single = {k: v[0] for k, v in single.items() if len(v) == 1 and v[0] is not None}

    class Inline(ast.NodeTransformer):
        def visit_Name(self, n):
            if isinstance(n.ctx, ast.Load) and n.id in single:
                return copy.deepcopy(single[n.id])
            return n

    def inline_test(t):
        return Inline().visit(t)

    def lower_stmt(st):
        for fieldname in ("body", "orelse", "finalbody"):
            blk = getattr(st, fieldname, None)
            if isinstance(blk, list):
                setattr(st, fieldname, [x for y in blk for x in lower_stmt(y)])
        if isinstance(st, (ast.If, ast.While)):
            st.test = inline_test(st.test)
            return [st]
        if isinstance(st, (ast.Expr, ast.Assign, ast.AugAssign, ast.Return)):
            ife = next((x for x in ast.walk(st) if isinstance(x, ast.IfExp)), None)
            if ife is not None:
                def variant(pick):
                    class Pick(ast.NodeTransformer):
                        def visit_IfExp(self, n):
                            if n is ife_copy[0]:
                                return self.visit(n.body if pick else n.orelse)
                            return self.generic_visit(n)
                    c = copy.deepcopy(st)
                    ife_copy = [next(x for x in ast.walk(c) if isinstance(x, ast.IfExp))]
                    return Pick().visit(c)
                node = ast.If(test=inline_test(copy.deepcopy(ife.test)), body=lower_stmt(variant(True)),
                              orelse=lower_stmt(variant(False)))
                return [ast.copy_location(node, st)]
        return [st]
    return [x for y in stmts for x in lower_stmt(y)]


def assignments(atoms):
    import itertools
    keys = sorted(atoms)
    if len(keys) > 10:
        return None
    return [dict(zip(keys, vals)) for vals in itertools.product((False, True), repeat=len(keys))]


def innermost_loop(fn_node, node):
    best = None
    for lp in ast.walk(fn_node):
        if isinstance(lp, (ast.For, ast.While)) and any(n is node for n in ast.walk(lp)):
            if best is None or any(n is lp for n in ast.walk(best)):
                best = lp
    return best


# ------------------------------------------------------------------------------ emptiness / length guards
def _is_seq(e, base_txt):
    return ast.unparse(e) == base_txt


def _is_len(e, base_txt):
    return isinstance(e, ast.Call) and isinstance(e.func, ast.Name) and e.func.id == "len" and len(e.args) == 1 \
        and _is_seq(e.args[0], base_txt)


def min_len(e, pol, base_txt):
    """Lower bound on len(seq) implied by `e` evaluating to `pol` (None = nothing implied)."""
    if isinstance(e, ast.UnaryOp) and isinstance(e.op, ast.Not):
        return min_len(e.operand, not pol, base_txt)
    if isinstance(e, ast.BoolOp):
        subs = [min_len(v, pol, base_txt) for v in e.values]
        conj = isinstance(e.op, ast.And) == pol      # `a and b` true / `a or b` false: every operand has that value
        if conj:
            known = [x for x in subs if x is not None]
            return max(known) if known else None
        return None if any(x is None for x in subs) else min(subs)
    if _is_seq(e, base_txt) or _is_len(e, base_txt) or (
            isinstance(e, ast.Call) and isinstance(e.func, ast.Name) and e.func.id == "bool" and len(e.args) == 1
            and (_is_seq(e.args[0], base_txt) or _is_len(e.args[0], base_txt))):
        return 1 if pol else None
    if isinstance(e, ast.Compare) and len(e.ops) == 1:
        l, op, r = e.left, e.ops[0], e.comparators[0]
        empty = lambda x: isinstance(x, (ast.List, ast.Tuple)) and not x.elts   # noqa: E731
        if (_is_seq(l, base_txt) and empty(r)) or (_is_seq(r, base_txt) and empty(l)):
            if isinstance(op, ast.NotEq):
                return 1 if pol else None
            if isinstance(op, ast.Eq):
                return None if pol else 1
            return None
        flip = {ast.Lt: ast.Gt, ast.Gt: ast.Lt, ast.LtE: ast.GtE, ast.GtE: ast.LtE, ast.Eq: ast.Eq, ast.NotEq: ast.NotEq}
        if _is_len(r, base_txt) and isinstance(l, ast.Constant):
            l, r, op = r, l, flip.get(type(op), type(None))()
        if _is_len(l, base_txt) and isinstance(r, ast.Constant) and isinstance(r.value, int):
            n = r.value
            kind = type(op)
            if not pol:
                kind = {ast.Lt: ast.GtE, ast.GtE: ast.Lt, ast.Gt: ast.LtE, ast.LtE: ast.Gt, ast.Eq: ast.NotEq,
                        ast.NotEq: ast.Eq}.get(kind)
            if kind is ast.Gt:
                return n + 1
            if kind is ast.GtE:
                return n
            if kind is ast.Eq:
                return n
            if kind is ast.NotEq and n == 0:
                return 1
    return None


def both_answers(summ: Summary) -> bool:
    """The predicate can answer True and False: it returns both constants on some paths, or some return value is not
    a constant at all (`return all(...)`, `return not bad`, `return a and b`)."""
    consts = set()
    for ev in summ.events:
        if ev.kind == "ret" and ev.value is not None:
            if ev.value.has_const():
                consts.add(ev.value.const)
            else:
                return True
    return {True, False} <= consts


def helper_origins(fn_node, helpers, depth=0):
    """call origins of what a private helper returns / yields (through its own locals)"""
    orig = name_origins(fn_node)
    out = set()
    for r in ast.walk(fn_node):
        if isinstance(r, (ast.Return, ast.Yield, ast.YieldFrom)) and r.value is not None:
            for n in ast.walk(r.value):
                if isinstance(n, ast.Name):
                    out |= {o for o in orig.get(n.id, set()) if o.startswith("call:")}
                elif isinstance(n, ast.Call):
                    nm = n.func.attr if isinstance(n.func, ast.Attribute) else getattr(n.func, "id", None)
                    if nm:
                        out.add("call:" + nm)
    if depth < 2:
        for o in list(out):
            h = (helpers or {}).get(o[5:])
            if h is not None and o[5:].startswith("_") and h is not fn_node:
                out |= helper_origins(h, helpers, depth + 1)
    return out


def name_origins(fn_node):
    """name -> set of names and call origins ('call:<callee attr or name>') it may derive from through the assignments
    of the function (flow-insensitive; tuple unpacking spreads the value to every target)."""
    direct = {}
    for s in ast.walk(fn_node):
        targets, value = [], None
        if isinstance(s, ast.Assign):
            targets, value = s.targets, s.value
        elif isinstance(s, (ast.AugAssign, ast.AnnAssign)) and s.value is not None:
            targets, value = [s.target], s.value
        elif isinstance(s, ast.NamedExpr):
            targets, value = [s.target], s.value
        elif isinstance(s, (ast.For, ast.comprehension)):
            targets, value = [s.target], s.iter          # the loop variable derives from what is iterated
        if value is None:
            continue
        src = {n.id for n in ast.walk(value) if isinstance(n, ast.Name)}
        for c in ast.walk(value):
            if isinstance(c, ast.Call):
                nm = c.func.attr if isinstance(c.func, ast.Attribute) else getattr(c.func, "id", None)
                if nm:
                    src.add("call:" + nm)
        for t in targets:
            for n in ast.walk(t):
                if isinstance(n, ast.Name):
                    direct.setdefault(n.id, set()).update(src)
    changed = True
    while changed:
        changed = False
        for k, v in direct.items():
            new = set(v)
            for x in list(v):
                new |= direct.get(x, set())
            if new != v:
                direct[k] = new
                changed = True
    return direct


def _fact_exprs(facts):
    for text, pol, _names in facts:
        try:
            yield ast.parse(text, mode="eval").body, pol
        except SyntaxError:
            continue


def facts_imply_nonempty(facts, seq_txt) -> bool:
    """Some branch fact on the path implies len(<seq_txt>) >= 1 (any spelling: truthiness, len comparisons, != [])."""
    return any((min_len(e, pol, seq_txt) or 0) >= 1 for e, pol in _fact_exprs(facts))


def facts_imply_empty(facts, seq_txt) -> bool:
    """Some atomic branch fact on the path is an emptiness test of <seq_txt> with the `empty` outcome (its other
    outcome would imply non-emptiness)."""
    return any(not isinstance(e, ast.BoolOp) and (min_len(e, not pol, seq_txt) or 0) >= 1 for e, pol in _fact_exprs(facts))





def fold_consts(prog, module, node, cls=None):
    """A copy of the function body in which every read of a module-level (or class-level) string constant is replaced
    by the string itself: `SEP = " -> "` ... `label.split(SEP)` is looked at as `label.split(" -> ")`.  Names assigned
    inside the function and parameters are left alone."""
    import copy
    local = {a.arg for a in ast.walk(node) if isinstance(a, ast.arg)}
    for st in ast.walk(node):
        if isinstance(st, ast.Name) and isinstance(st.ctx, (ast.Store, ast.Del)):
            local.add(st.id)
    mod = prog.modules.get(module)

    def value_of(name):
        if name in local or mod is None:
            return None
        ent = prog.lookup(module, name)
        n_ = getattr(ent, "node", None)
        if type(ent).__name__ == "ConstDef" and isinstance(n_, ast.Constant) and isinstance(n_.value, str):
            return n_.value
        return None

    class R(ast.NodeTransformer):
        def visit_Name(self, n):
            if isinstance(n.ctx, ast.Load):
                v = value_of(n.id)
                if v is not None:
                    return ast.copy_location(ast.Constant(value=v), n)
            return n

        def visit_Attribute(self, n):
            self.generic_visit(n)
            if isinstance(n.ctx, ast.Load) and isinstance(n.value, ast.Name) and cls is not None and \
                    n.value.id in ("self", "cls", cls.name):
                for q in cls.mro:
                    c = prog.classes.get(q)
                    a = c.class_attrs.get(n.attr) if c is not None else None
                    if isinstance(a, ast.Constant) and isinstance(a.value, str):
                        return ast.copy_location(ast.Constant(value=a.value), n)
            return n
    return ast.fix_missing_locations(R().visit(copy.deepcopy(node)))


def inline_locals(fn_node, expr, depth=2):
    """the expression itself and, for every local it reads, the expressions assigned to that local in the function (to
    `depth` levels): `name = a + SUFFIX + str(k); Variable(name)` is looked at as `Variable(a + SUFFIX + str(k))`"""
    out, frontier, seen = [expr], [expr], set()
    for _ in range(depth):
        names = {n.id for e in frontier for n in ast.walk(e) if isinstance(n, ast.Name) and isinstance(n.ctx, ast.Load)} - seen
        seen |= names
        frontier = []
        for st in ast.walk(fn_node):
            if isinstance(st, ast.Assign) and any(isinstance(t, ast.Name) and t.id in names for t in st.targets):
                frontier.append(st.value)
            elif isinstance(st, (ast.AnnAssign, ast.NamedExpr)) and st.value is not None and \
                    isinstance(st.target, ast.Name) and st.target.id in names:
                frontier.append(st.value)
        out.extend(frontier)
    return out


def resolved_facts(fn_nodes, facts):
    """(expression, polarity) of every branch fact, where a fact that is a bare local (`if is_eps:`) is replaced by the
    expression assigned to that local when it is assigned exactly once in the given function bodies."""
    single = {}
    for fn in fn_nodes:
        for st in ast.walk(fn):
            tgt, val = None, None
            if isinstance(st, ast.Assign) and len(st.targets) == 1 and isinstance(st.targets[0], ast.Name):
                tgt, val = st.targets[0].id, st.value
            elif isinstance(st, (ast.AnnAssign, ast.NamedExpr)) and isinstance(st.target, ast.Name) and st.value is not None:
                tgt, val = st.target.id, st.value
            if tgt is not None:
                single.setdefault(tgt, []).append(val)
    for e, pol in _fact_exprs(facts):
        hops = 0
        while hops < 3:
            if isinstance(e, ast.UnaryOp) and isinstance(e.op, ast.Not):
                e, pol = e.operand, not pol
            elif isinstance(e, ast.Name) and len(single.get(e.id, [])) == 1:
                e = single[e.id][0]
            else:
                break
            hops += 1
        yield e, pol


def excludes_value(fn_nodes, facts, is_value) -> bool:
    """some branch fact says `<x> != <value>` (any spelling: `!=` true, `==` false, `not (.. == ..)`, through a local flag),
    where `is_value(node)` recognises the value's expression"""
    for e, pol in resolved_facts(fn_nodes, facts):
        if isinstance(e, ast.Compare) and len(e.ops) == 1 and (is_value(e.left) or is_value(e.comparators[0])):
            if (isinstance(e.ops[0], (ast.NotEq, ast.IsNot)) and pol) or (isinstance(e.ops[0], (ast.Eq, ast.Is)) and not pol):
                return True
        if isinstance(e, ast.Call) and getattr(e.func, "id", None) == "isinstance" and len(e.args) == 2 and not pol and \
                any(is_value(ast.Call(func=t_, args=[], keywords=[])) for t_ in
                    (e.args[1].elts if isinstance(e.args[1], ast.Tuple) else [e.args[1]])):
            return True
    return False


def element_of_field_or_copy(summ: Summary, av: Optional[AV], field_loc) -> bool:
    """The value can be (identity) an element of the collection stored at field_loc, or of a copy of it made in the
    closure (`.copy()`, set(..), list(..), sorted(..) of the field)."""
    if av is None:
        return False
    if may_be_element_of(av, field_loc):
        return True
    roots = set()
    for ev, _ in summ.walk():
        if ev.kind in ("bcall", "call") and ev.result is not None and (ev.callee or "").rsplit(".", 1)[-1] in (
                "copy", "set", "list", "sorted", "frozenset", "union"):
            src = ev.recv if ev.recv is not None else (ev.args[0] if ev.args else None)
            if src is not None and field_loc in src.alias:
                roots |= {l for l in ev.result.alias if l[0].startswith("fresh:")}
    return any((l[0], ()) in {(r[0], ()) for r in roots} and l[1][:1] == ("[]",) for l in av.alias)


def own(summ: Summary):
    """The events of the entry frame and of the private-helper frames reached from it (see walk_own), as a list."""
    return [ev for ev, _ in walk_own(summ)]


def code_nodes(prog, fi, depth=2):
    """The function definition of `fi` and of the private helpers it (transitively, `depth` levels) calls: what an
    AST-shaped rule has to look at so that moving a block into a private helper / a module-level function does not
    hide it."""
    hs = helpers_of(prog, fi)
    out, seen = [fi.node], {id(fi.node)}
    frontier = [fi.node]
    for _ in range(depth):
        nxt = []
        for fn in frontier:
            for c in ast.walk(fn):
                if isinstance(c, ast.Call):
                    nm = c.func.attr if isinstance(c.func, ast.Attribute) else getattr(c.func, "id", None)
                    h = hs.get(nm) if nm and nm.startswith("_") and not (nm.startswith("__") and nm.endswith("__")) else None
                    if h is None and isinstance(c.func, ast.Name) and nm:
                        # a plain call of a module-level function of the package (same module or imported), whatever
                        # its name: shared reading / writing helpers of several classes live there
                        ent = prog.lookup(fi.module, nm)
                        if type(ent).__name__ == "FuncInfo" and ent.cls is None and isinstance(ent.node, ast.FunctionDef):
                            h = ent.node
                    if h is not None and id(h) not in seen:
                        seen.add(id(h))
                        out.append(h)
                        nxt.append(h)
        frontier = nxt
    return out


def enumerate_offsets(fn_node, ctor_name="Variable"):
    """Fresh names numbered by `enumerate`: `{v: Ctor(f"..{i}") for i, v in enumerate(X, start)}`.  The numbers of two
    such passes are disjoint iff each pass starts where the previous ones ended: the first starts at 0 (or no start),
    a later one starts at a local k that was set to the size of the first mapping (`k = len(M0)`) and is advanced, in
    the block of the pass, by the size of the mapping THAT pass built (`k += len(M)`; len(X) of the collection it
    enumerated is the same number).  Returns None when no such numbering exists, else (ok, why, index names)."""
    passes = []
    for node in ast.walk(fn_node):
        gens = []
        if isinstance(node, (ast.DictComp, ast.ListComp, ast.SetComp, ast.GeneratorExp)):
            gens = [(g.target, g.iter, node) for g in node.generators]
        elif isinstance(node, ast.For):
            gens = [(node.target, node.iter, node)]
        for tgt, it, holder in gens:
            if not (isinstance(it, ast.Call) and getattr(it.func, "id", None) == "enumerate" and it.args and
                    isinstance(tgt, ast.Tuple) and len(tgt.elts) == 2 and isinstance(tgt.elts[0], ast.Name)):
                continue
            idx = tgt.elts[0].id
            spliced = any(isinstance(c, ast.Call) and getattr(c.func, "id", None) == ctor_name and c.args and
                          any(isinstance(x, ast.Name) and x.id == idx for x in ast.walk(c.args[0])) for c in ast.walk(holder))
            if not spliced:
                continue
            start = it.args[1] if len(it.args) > 1 else next((k.value for k in it.keywords if k.arg == "start"), None)
            passes.append((holder, idx, ast.unparse(it.args[0]), start))
    if not passes:
        return None

    def mapping_of(holder):
        for st in ast.walk(fn_node):
            if isinstance(st, ast.Assign) and st.value is holder and len(st.targets) == 1 and isinstance(st.targets[0], ast.Name):
                return st.targets[0].id
        return None

    def block_of(holder):
        """the innermost statement list with a statement that contains the pass, and the index of that statement"""
        best = None
        for sub in ast.walk(fn_node):
            for fieldname in ("body", "orelse", "finalbody"):
                blk = getattr(sub, fieldname, None)
                if isinstance(blk, list):
                    for i, st in enumerate(blk):
                        if isinstance(st, ast.stmt) and any(x is holder for x in ast.walk(st)):
                            if best is None or any(x is st for x in ast.walk(best[0][best[1]])):
                                best = (blk, i)
        return best

    def sizes(e):
        return {ast.unparse(c.args[0]) for c in ast.walk(e) if isinstance(c, ast.Call) and getattr(c.func, "id", None) == "len"
                and c.args}
    passes.sort(key=lambda p: (p[0].lineno, p[0].col_offset))
    names = sorted({p[1] for p in passes})
    first = passes[0]
    if first[3] is not None and not (isinstance(first[3], ast.Constant) and first[3].value == 0):
        return None
    m0 = mapping_of(first[0])
    for holder, idx, coll, start in passes[1:]:
        if not isinstance(start, ast.Name):
            return (False, "a later numbering pass does not start where the previous one ended", names)
        k = start.id
        inits = [st for st in ast.walk(fn_node) if isinstance(st, ast.Assign) and len(st.targets) == 1 and
                 isinstance(st.targets[0], ast.Name) and st.targets[0].id == k]
        if len(inits) != 1 or not (sizes(inits[0].value) & {m0, first[2]}) or len(sizes(inits[0].value)) != 1:
            return None
        loc = block_of(holder)
        m = mapping_of(holder)
        if loc is None:
            return None
        blk, i = loc
        adv = [st for st in blk[i + 1:] if isinstance(st, ast.AugAssign) and isinstance(st.target, ast.Name) and
               st.target.id == k and isinstance(st.op, ast.Add)]
        if len(adv) != 1:
            return None
        got = sizes(adv[0].value)
        if len(got) != 1:
            return None
        if not (got & {m, coll}):
            return (False, "the offset `%s` of the numbering is advanced by len(%s), not by the size of the mapping this pass "
                           "built (%s): numbers are reused or skipped, two different variables can get one name"
                    % (k, sorted(got)[0], m or coll), names)
    return (True, "", names)
