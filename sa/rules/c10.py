"""C10 - grammar union / concatenation / closure / reversal / substitution."""
from __future__ import annotations

import ast

from ..model import CFG
from . import names
from .common import site_of
from .flow import (own, Oblig, calls, events, deps_of, arg_deps, SELF, P, result_locs, facts_on_path, has_fact, inline_locals)

PROD = "pyformlang.cfg.production.Production"
EXPLANATION = (
    "Decides: capture-free renaming in substitute - the head of every result production is a renamed variable, a "
    "body symbol is copied un-renamed only on the branch where it is not a key of that operand's renaming map, the "
    "renaming counter is shared by all operands and advanced per variable, the renamed names are total on the value "
    "types the library itself creates (R5, R5b); the template grammars are eliminated through substitute and hand "
    "both operands over in the order of the template body (R5 template, R1); reverse reverses every body and keeps "
    "head / start / alphabets (R1); | + ~ delegate (R7). Not decided: that the four template grammars denote union, "
    "concatenation, star, plus.")


def run(eng, rep, tier):
    prog, interp = eng.prog, eng.interp
    rep.explanation = EXPLANATION
    ob = Oblig(eng, rep, "C10")

    # -------------------------------------------------------------- C10.1 substitute
    fi = prog.method("CFG", "substitute")
    summ = interp.run_entry(fi, CFG)
    prods = [ev for ev in own(summ) if ev.kind == "new" and ev.callee == PROD]
    bad = [ev for ev in prods if not ev.args or not ev.args[0].alias or
           any(not l[0].startswith("fresh:") for l in ev.args[0].alias)]
    ob.decide("R5", "C10.1", fi, "heads-renamed", bool(prods) and not bad,
              "the head of every production of the result is a renamed (fresh) variable (%d construction sites)" % len(prods),
              "a production of the result keeps an operand's variable object as head (capture)", summ,
              site=(bad[0].site.to_json() if bad else site_of(prog, fi, fi.node)))
    # body symbols: a production of the result may keep an operand's own symbol object (a terminal), but then the
    # choice must have consulted that operand's variable set (through the renaming map built from it): the body
    # elements depend, by data or control, on <operand>.variables.  A body copied without looking at the variable set
    # keeps the operand's variables un-renamed (capture).
    from ..av import all_deps as _all_deps
    n_raw, unguarded = 0, []
    for ev in prods:
        body = ev.args[1] if len(ev.args) > 1 else None
        el = body.elem if body is not None else None
        if el is None:
            continue
        roots = {l[0] for l in el.alias if not l[0].startswith("fresh:")}
        for root in roots:
            n_raw += 1
            deps = _all_deps(el) | ev.ctrl
            if not any(isinstance(d, tuple) and len(d) == 2 and d[0] == root and isinstance(d[1], tuple)
                       and any(seg in ("variables", "_variables") for seg in d[1]) for d in deps):
                unguarded.append(ev)
    # simultaneous substitution: the productions taken from a substituted grammar are only renamed; the replacement of
    # substituted terminals (by the start symbols of the operands) applies to the productions of self alone.  A body
    # built from an operand's production must therefore not depend on any operand's start symbol.
    seq = []
    for ev in prods:
        body = ev.args[1] if len(ev.args) > 1 else None
        el = body.elem if body is not None else None
        if el is None:
            continue
        roots = {l[0] for l in el.alias if not l[0].startswith("fresh:")}
        if "self" in roots or not any(r.startswith("p:") for r in roots):
            continue            # a production of self (or nothing raw): replacement is expected there
        if any(isinstance(d, tuple) and len(d) == 2 and isinstance(d[1], tuple) and
               any(seg in ("start_symbol", "_start_symbol") for seg in d[1]) for d in _all_deps(el)):
            seq.append(ev)
    ob.decide("R1", "C10.1", fi, "operand-bodies-not-substituted", not seq,
              "productions taken from a substituted grammar are renamed only (simultaneous substitution)",
              "the body of a production taken from a substituted grammar depends on the start symbol of an operand: the "
              "replacement of substituted terminals is applied inside operands too (sequential instead of simultaneous "
              "substitution)", summ, site=(seq[0].site.to_json() if seq else site_of(prog, fi, fi.node)))
    ob.decide("R5", "C10.1", fi, "unrenamed-only-if-not-a-variable", n_raw > 0 and not unguarded,
              "where a body keeps an operand's own symbol, the choice depends on that operand's variable set (renaming map)",
              "a body symbol can be copied un-renamed without consulting the operand's variables (capture)", summ,
              site=(unguarded[0].site.to_json() if unguarded else site_of(prog, fi, fi.node)))
    # the counter = the name spliced (through str()) into the renamed variable names
    ctr_names = set()
    for c in ast.walk(fi.node):
        if isinstance(c, ast.Call) and getattr(c.func, "id", "") == "Variable" and c.args:
            for sub in [x for e in inline_locals(fi.node, c.args[0]) for x in ast.walk(e)]:
                if isinstance(sub, ast.Call) and getattr(sub.func, "id", "") == "str" and sub.args and \
                        isinstance(sub.args[0], ast.Name):
                    ctr_names.add(sub.args[0].id)
                elif isinstance(sub, ast.FormattedValue) and isinstance(sub.value, ast.Name) and \
                        sub.value.id not in ("SUBS_SUFFIX",) and not sub.value.id.isupper() and \
                        not isinstance(getattr(sub.value, "ctx", None), ast.Store) and sub.value.id != "variable":
                    ctr_names.add(sub.value.id)
                elif isinstance(sub, ast.Call) and getattr(sub.func, "id", "") == "next" and sub.args and \
                        isinstance(sub.args[0], ast.Name):
                    ctr_names.add(sub.args[0].id)          # a monotone iterator: `numbers = count()`
    resets = [s for s in ast.walk(fi.node) if isinstance(s, ast.Assign) and any(isinstance(tg, ast.Name) and tg.id in ctr_names
                                                                                for tg in s.targets)]
    from .flow import enumerate_offsets
    enum = enumerate_offsets(fi.node)
    if enum is not None and set(enum[2]) & ctr_names:
        # the numbers come from enumerate(): disjoint iff every pass starts where the previous ones ended
        ob.decide("R5", "C10.1", fi, "counter-shared-across-operands", enum[0],
                  "the renamed variables are numbered by enumerate passes that each start where the previous ones ended",
                  "the renaming numbers of different operands can coincide: " + enum[1], None, site=site_of(prog, fi, fi.node))
    elif not ctr_names:
        verdict = _counter_through_helper(prog, fi)
        if verdict is None:
            rep.error("R5", "C10.1", fi.qname, "counter-shared-across-operands",
                      "the renamed variable names are not built inside substitute any more and no helper threading the "
                      "counter was recognised: the rule cannot follow the renaming counter", site=site_of(prog, fi, fi.node))
        else:
            ob.decide("R5", "C10.1", fi, "counter-shared-across-operands", verdict[0],
                      "one renaming counter is threaded through the naming helper for self and every substituted grammar "
                      "(started once, never reset)",
                      "the renaming counter is reset between operands: the same object used twice gets the same names (%s)"
                      % verdict[1], None, site=site_of(prog, fi, fi.node))
    else:
      ob.decide("R5", "C10.1", fi, "counter-shared-across-operands", len(ctr_names) == 1 and len(resets) == 1,
                "one renaming counter runs through self and every substituted grammar (never reset)",
                "the renaming counter is reset between operands: the same object used twice gets the same names", None,
                site=site_of(prog, fi, resets[-1] if resets else fi.node))
    rd = deps_of(summ.ret)
    for t_, role in ((("self", ("_productions",)), "self-productions"), (P("substitution"), "substituted-grammars"),
                     (("self", ("_start_symbol",)), "self-start")):
        ob.decide("R1", "C10.1", fi, "result-depends-on-" + role, t_ in rd, "the result depends on " + role,
                  "the result of substitute does not depend on " + role, summ, site=site_of(prog, fi, fi.node))
    # start symbol of each substituted grammar replaces the terminal
    # the replacement map: subscript stores whose key is a substituted terminal (a key of `substitution`, i.e. not an
    # element of some grammar's variable set - those stores fill the renaming maps)
    fr = [ev for ev, _ in events(summ, "write", own=True) if ev.wkind == "subscript" and ev.args and ev.args[0].alias
          and not any(seg in ("variables", "_variables") for l in ev.args[0].alias for seg in l[1])]
    ob.decide("R1", "C10.1", fi, "terminal-replaced-by-operand-start",
              bool(fr) and all(any(d[0].startswith("p:substitution") and d[1] and d[1][-1] in ("_start_symbol", "start_symbol")
                                   for d in deps_of(ev.value) if isinstance(d, tuple) and isinstance(d[0], str)
                                   and isinstance(d[1], tuple)) for ev in fr),
              "a substituted terminal is replaced by the renamed start symbol of its grammar",
              "the replacement of a substituted terminal is not the start symbol of its grammar", summ,
              site=site_of(prog, fi, fi.node))

    # -------------------------------------------------------------- templates
    for meth, binary in (("union", True), ("concatenate", True), ("get_closure", False), ("get_positive_closure", False)):
        f2 = prog.method("CFG", meth)
        s2 = interp.run_entry(f2, CFG)
        subs = [ev for ev, _ in calls(s2, "substitute", own=True)]
        ok = bool(subs) and all(ev.args and SELF in _elem_alias(ev.args[0]) and
                                (not binary or P("other") in _elem_alias(ev.args[0])) for ev in subs) and \
            bool(s2.ret.alias & subs[0].result.alias) if subs else False
        ob.decide("R1", "C10.2", f2, "operands-substituted", ok,
                  "every operand is substituted into the template and the result of substitute is returned",
                  "%s does not substitute %s into its template" % (meth, "both operands" if binary else "self"), s2,
                  site=site_of(prog, f2, f2.node))
    fc = prog.method("CFG", "concatenate")
    okc, why = _concat_order(interp.run_entry(fc, CFG))
    ob.decide("R1", "C10.2", fc, "concatenation-order", okc, "the first body symbol of the template is bound to self",
              "concatenate binds the operands in the wrong order: " + why, None, site=site_of(prog, fc, fc.node))

    # -------------------------------------------------------------- reverse
    fi = prog.method("CFG", "reverse")
    summ = interp.run_entry(fi, CFG)
    prods = [ev for ev in own(summ) if ev.kind == "new" and ev.callee == PROD]
    rev = any(isinstance(s, ast.Subscript) and isinstance(s.slice, ast.Slice) and s.slice.step is not None and
              ast.unparse(s.slice.step) == "-1" and s.slice.lower is None and s.slice.upper is None
              for s in ast.walk(fi.node)) or any(isinstance(c, ast.Call) and getattr(c.func, "id", "") == "reversed"
                                                 for c in ast.walk(fi.node))
    okp = bool(prods) and all(len(ev.args) > 1 and ("self", ("_productions",)) in deps_of(ev.args[0])
                              and ("self", ("_productions",)) in deps_of(ev.args[1]) for ev in prods)
    ob.decide("R1", "C10.3", fi, "bodies-reversed", rev and okp, "every body is reversed, the head is kept",
              "reverse does not reverse every production body", summ, site=site_of(prog, fi, fi.node))
    rd = deps_of(summ.ret)
    ob.decide("R1", "C10.3", fi, "start-kept", ("self", ("_start_symbol",)) in rd, "the start symbol is kept",
              "reverse loses the start symbol", summ, site=site_of(prog, fi, fi.node))
    for dunder, target, binary in (("__or__", "union", True), ("__add__", "concatenate", True), ("__invert__", "reverse", False)):
        f2 = prog.method("CFG", dunder)
        s2 = interp.run_entry(f2, CFG)
        cs = [ev for ev, _ in calls(s2, target, own=True)]
        ok = any(ev.recv is not None and SELF in ev.recv.alias and (not binary or (ev.args and P("other") in ev.args[0].alias))
                 and bool(s2.ret.alias & ev.result.alias) for ev in cs)
        ob.decide("R7", "C10.3", f2, "delegates-to:" + target, ok, "%s delegates to %s" % (dunder, target),
                  "%s does not delegate to %s with the same operands" % (dunder, target), s2, site=site_of(prog, f2, f2.node))
    from . import optid
    n_opt = optid.check(eng, rep, "C10", "C10.4", [(prog.method("CFG", "__init__"), CFG)], names.ID_CLASSES)
    if n_opt < 1:
        rep.error("R6", "C10.4", CFG, "optional-identifier-tested-against-None",
                  "the optional start symbol of CFG.__init__ was not found (%d)" % n_opt)
    names.check(eng, rep, "C10")
    rep.stats.update(eng.stats())
    rep.floor = 25


def _elem_alias(av):
    out = set()
    if av.elem is not None:
        out |= set(av.elem.alias)
    return out


def _concat_order(summ):
    """The template production of concatenate has a two-symbol body [t0, t1]; the mapping handed to substitute binds
    t0 to self and t1 to other.  Decided on abstract values: the body items of the Production construction, and the
    key/value pairs of the mapping (dict display or subscript stores), whatever the locals are called."""
    body = None
    for ev, _ in events(summ, "new", own=True):
        if ev.callee == PROD and len(ev.args) > 1 and ev.args[1].items is not None and len(ev.args[1].items) == 2:
            body = ev.args[1].items
    subs = [ev for ev, _ in calls(summ, "substitute", own=True)]
    if body is None or not subs or not subs[0].args:
        return False, "template body or substitution map not found"
    mapping = subs[0].args[0]
    pairs = []
    for ev, _ in events(summ, None, own=True):
        if ev.kind == "dictpair" and ev.recv is not None and ev.recv.alias & mapping.alias:
            pairs.append((ev.args[0], ev.value))
        elif ev.kind == "write" and ev.wkind == "subscript" and ev.recv is not None and ev.recv.alias & mapping.alias \
                and ev.args and ev.value is not None:
            pairs.append((ev.args[0], ev.value))
    if not pairs:
        return False, "template body or substitution map not found"

    def bound(item):
        out = set()
        for k, v in pairs:
            if k.alias & item.alias:
                out |= set(v.alias)
        return out
    b0, b1 = bound(body[0]), bound(body[1])
    if SELF in b0 and P("other") not in b0 and P("other") in b1 and SELF not in b1:
        return True, ""
    from ..av import loc_str
    return False, "first body symbol -> %s, second -> %s" % (sorted(loc_str(l) for l in b0), sorted(loc_str(l) for l in b1))


def _counter_through_helper(prog, fi):
    """The naming loop was extracted: a private helper H builds Variable(.. str(c) ..) with c one of its parameters and
    returns the advanced counter; substitute starts it with a constant exactly once and otherwise passes on the value
    returned by the previous call.  Returns None when no such helper is recognised, else (ok, why)."""
    from .flow import helpers_of
    hs = helpers_of(prog, fi)
    for c in ast.walk(fi.node):
        if not isinstance(c, ast.Call):
            continue
        nm = c.func.attr if isinstance(c.func, ast.Attribute) else getattr(c.func, "id", None)
        h = hs.get(nm) if nm and nm.startswith("_") else None
        if h is None:
            continue
        params = [a.arg for a in h.args.posonlyargs + h.args.args]
        static = any(isinstance(d, ast.Name) and d.id == "staticmethod" for d in h.decorator_list)
        if isinstance(c.func, ast.Attribute) and not static and params:
            params = params[1:]
        spliced = set()
        for v in ast.walk(h):
            if isinstance(v, ast.Call) and getattr(v.func, "id", "") == "Variable" and v.args:
                for sub in ast.walk(v.args[0]):
                    if isinstance(sub, ast.Call) and getattr(sub.func, "id", "") == "str" and sub.args and \
                            isinstance(sub.args[0], ast.Name) and sub.args[0].id in params:
                        spliced.add(sub.args[0].id)
        if len(spliced) != 1:
            continue
        cparam = next(iter(spliced))
        k = params.index(cparam)
        returned = any(isinstance(r, ast.Return) and r.value is not None and
                       any(isinstance(x, ast.Name) and x.id == cparam for x in ast.walk(r.value)) for r in ast.walk(h))
        advanced = any(isinstance(a, ast.AugAssign) and isinstance(a.target, ast.Name) and a.target.id == cparam
                       and isinstance(a.op, ast.Add) for a in ast.walk(h))
        if not (returned and advanced):
            return False, "%s does not advance and return its counter" % nm
        calls_h = [x for x in ast.walk(fi.node) if isinstance(x, ast.Call) and (
            (isinstance(x.func, ast.Attribute) and x.func.attr == nm) or (isinstance(x.func, ast.Name) and x.func.id == nm))]
        consts = [x for x in calls_h if len(x.args) > k and isinstance(x.args[k], ast.Constant)]
        names = {x.args[k].id for x in calls_h if len(x.args) > k and isinstance(x.args[k], ast.Name)}
        # the names passed on must be (re)bound from the helper's result
        bound = set()
        for st in ast.walk(fi.node):
            if isinstance(st, ast.Assign) and isinstance(st.value, ast.Call) and st.value in calls_h:
                for tg in st.targets:
                    bound |= {x.id for x in ast.walk(tg) if isinstance(x, ast.Name)}
        resets = [st for st in ast.walk(fi.node) if isinstance(st, ast.Assign) and isinstance(st.value, ast.Constant)
                  and any(isinstance(tg, ast.Name) and tg.id in names for tg in st.targets)]
        loops = [l for l in ast.walk(fi.node) if isinstance(l, (ast.For, ast.While))]
        const_in_loop = [x for x in consts if any(any(y is x for y in ast.walk(l)) for l in loops)]
        ok = len(consts) + len(resets) == 1 and not const_in_loop and names <= bound and len(calls_h) >= 2
        return ok, "%d constant starts, %d in a loop, %d resets" % (len(consts), len(const_in_loop), len(resets))
    return None
