"""Optional identifiers are compared with None, never tested for truthiness (shared by C01, C10, C13).

States, symbols, stack symbols and variables are arbitrary hashable values: `0`, `""`, `False`, `()` are legitimate
names, and every property quantifies over them.  A constructor parameter that defaults to None and holds such a value
("optional identifier": its raw value is handed to one of the library's naming wrappers / identifier classes) must be
told apart from "not given" by `is None` / `is not None`.  A truthiness test of the raw value (`if start_state:`,
`start_state or ...`, `x if start_state else y`, `not start_state`) drops the falsy names - the automaton then has no
start state, the PDA no start stack symbol.

Decided on the events of the abstract run of the constructor (all frames it reaches): the engine records a `truth` event
wherever the value of a bare name / attribute is used as a condition; the rule asks whether that value can still be
the parameter itself (after `p = to_state(p)` it is a fresh State object, which is always truthy, so the same test on
the converted value is fine).  The repository's own constructors all spell the test `is not None` (confirmed by
reading: PDA, EpsilonNFA, DeterministicFiniteAutomaton, CFG)."""
from __future__ import annotations

import ast

from .common import site_of
from .flow import own

WRAPPER_NAMES = {"to_state", "to_symbol", "to_stack_symbol", "to_variable", "to_terminal"}


def _optional_params(fi):
    a = fi.node.args
    pos = a.posonlyargs + a.args
    out = []
    for p, d in zip(pos[len(pos) - len(a.defaults):], a.defaults):
        if isinstance(d, ast.Constant) and d.value is None:
            out.append(p.arg)
    for p, d in zip(a.kwonlyargs, a.kw_defaults):
        if isinstance(d, ast.Constant) and d.value is None:
            out.append(p.arg)
    return out


def _may_be_falsy_name(eng, av) -> bool:
    """the tested value can be something other than None that is falsy: its type is unknown (a raw user value), a
    builtin scalar / container, or a repository class that defines __bool__ / __len__.  `to_state(x)` gives None or a
    State (the very object handed in when it already was one): a State is always truthy, so testing THAT for
    truthiness is the same as comparing it with None.  (A value that can only be the untouched parameter is a raw
    user value whatever its annotation says - the constructors annotate `State` and accept anything.)"""
    if av.types is None:
        return True
    for ty in av.types:
        if ty == "None":
            continue
        ci = eng.prog.classes.get(ty)
        if ci is None:
            return True             # int, str, bool, tuple, ...
        if eng.prog.find_method(ty, "__bool__") is not None or eng.prog.find_method(ty, "__len__") is not None:
            return True
    return False


def check(eng, rep, prop, obligation, entries, id_classes):
    """entries: [(FuncInfo, receiver class qname)]; returns the number of optional identifiers judged"""
    n = 0
    for fi, cq in entries:
        summ = eng.interp.run_entry(fi, cq)
        evs = [ev for ev, _ in summ.walk()]      # locations are rooted at the entry: a callee's events speak of `p:<param>` too
        for pname in _optional_params(fi):
            raw = ("p:" + pname, ())
            named = [ev for ev in evs if ev.args and raw in ev.args[0].alias and (
                (ev.kind == "call" and ev.callee and ev.callee.rsplit(".", 1)[-1] in WRAPPER_NAMES) or
                (ev.kind == "new" and ev.callee in id_classes))]
            if not named:
                continue            # not an identifier (a collection, a transition function, a flag)
            n += 1
            tests = [ev for ev in evs if ev.kind == "truth" and ev.value is not None and raw in ev.value.alias
                     and (ev.value.alias <= {raw} or _may_be_falsy_name(eng, ev.value))]
            role = "optional-identifier-tested-against-None:" + pname
            if tests:
                rep.violation("R6", obligation, fi.qname, role,
                              "`%s` is an identifier (any hashable value, also 0 / '' / False) and is tested for truthiness "
                              "at `%s`: a falsy name is treated like a missing one" % (pname, tests[0].site.text),
                              site=tests[0].site.to_json())
            else:
                rep.holds("R6", obligation, fi.qname, role,
                          "the raw value of `%s` is only ever compared with None (%d naming call(s) receive it)"
                          % (pname, len(named)), site=site_of(eng.prog, fi, fi.node))
    return n
