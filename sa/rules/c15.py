"""C15 - parse trees and derivations."""
from __future__ import annotations

import ast

from ..model import CFG, FCFG
from .common import site_of
from .flow import (code_nodes, own, Oblig, calls, events, deps_of, arg_deps, SELF, P, has_fact, escaping_raises, short_exc)

EXPLANATION = (
    "Decides: the Earley scanner / completer never mutate a parse tree that is reachable from an existing chart state "
    "when they create the successor state - the tree must be copied (R8b ownership); recursive descent assigns the "
    "children of a node only on the edge where the recursive expansion succeeded (commit on success); CYK nodes carry "
    "both back-pointers of the window pair that produced them and the root is selected by equality with the normal "
    "form's start symbol (R1); every parser refuses with its documented exception class (R6). Not decided: that the "
    "derivation listings are step-by-step leftmost / rightmost derivations (list arithmetic).")


def run(eng, rep, tier):
    prog, interp = eng.prog, eng.interp
    rep.explanation = EXPLANATION
    ob = Oblig(eng, rep, "C15")

    # -------------------------------------------------------------- C15.1 Earley tree ownership
    for fname in ("_scanner", "_completer"):
        f = prog.functions.get("pyformlang.fcfg.fcfg." + fname)
        if f is None:
            rep.error("R8b", "C15.1", "fcfg." + fname, "anchor", "Earley step %s vanished" % fname)
            continue
        s = interp.run_entry(f, None)
        bad = []
        for ev, chain in s.walk():
            if ev.kind != "write":
                continue
            for l in ev.target:
                if l[0].startswith("p:") and "parse_tree" in l[1]:
                    bad.append((ev, l))
        news = [ev for ev in own(s) if ev.kind == "new" and ev.callee.endswith("fcfg.state.State")]
        shares = [ev for ev in news if len(ev.args) > 3 and any(l[0].startswith("p:") for l in ev.args[3].alias)]
        if bad:
            ev, l = bad[0]
            rep.violation("R8b", "C15.1", f.qname, "tree-owner",
                          "%s appends to the parse tree of an existing chart state (%s) and hands the same tree to the new "
                          "state: alternative derivations of an ambiguous grammar pile their children onto one node"
                          % (fname, ".".join(p for p in l[1] if p != "[]")), site=ev.site.to_json())
        else:
            ob.decide("R8b", "C15.1", f, "tree-owner", bool(news) and not shares,
                      "the successor state gets its own copy of the parse tree",
                      "%s passes the tree of an existing state to the new state without copying" % fname, s,
                      site=site_of(prog, f, f.node))

    # the state whose tree is handed out spans the whole word: among the conditions that select it there is the test
    # `positions[0] == 0` (the dotted rule started at the first letter) - without it a completed start-symbol state that
    # began in the middle of the sentence is accepted and the leaves of its tree spell only a suffix of w
    fg = prog.private("pyformlang.fcfg.fcfg.FCFG._get_final_state")
    if fg is None:
        rep.error("R1", "C15.1", "fcfg.FCFG", "anchor", "FCFG._get_final_state vanished")
    else:
        sg = interp.run_entry(fg, FCFG)

        def _is_zero(e):
            return isinstance(e, ast.Constant) and e.value == 0 and not isinstance(e.value, bool)

        def _is_origin(e, depth=0):
            if isinstance(e, ast.Name) and depth < 2:
                from .flow import inline_locals as _il        # `begin = state.positions[0]; if begin == 0`
                return any(_is_origin(d, depth + 1) for fn_ in code_nodes(prog, fg) for d in _il(fn_, e, depth=1)[1:])
            return isinstance(e, ast.Subscript) and _is_zero(e.slice) and isinstance(e.value, ast.Attribute) and \
                e.value.attr == "positions"
        origin = [ev for ev in own(sg) if ev.kind == "compare" and isinstance(ev.node, ast.Compare) and len(ev.node.ops) == 1
                  and isinstance(ev.node.ops[0], ast.Eq) and
                  ((_is_origin(ev.node.left) and _is_zero(ev.node.comparators[0])) or
                   (_is_zero(ev.node.left) and _is_origin(ev.node.comparators[0])))]
        ob.decide("R1", "C15.1", fg, "accepted-state-starts-at-0", bool(origin),
                  "the state whose tree is returned is required to start at position 0",
                  "the accepting Earley state is not required to start at position 0: a start-symbol constituent that "
                  "begins mid-sentence is accepted and its tree does not spell the word", sg, site=site_of(prog, fg, fg.node))

    # -------------------------------------------------------------- C15.2 recursive descent
    RD = "pyformlang.cfg.recursive_decent_parser.RecursiveDecentParser"
    f = prog.functions.get(RD + "._get_parse_tree_sub")
    if f is None:
        rep.error("DOM", "C15.2", RD, "anchor", "_get_parse_tree_sub vanished")
    else:
        s = interp.run_entry(f, RD)
        ws = [ev for ev in own(s) if ev.kind == "write" and ev.attr == "sons"]
        ok = bool(ws) and all(has_fact(ev.facts, f.name + "(", True) for ev in ws)     # the recursive call, by its own name
        ob.decide("DOM", "C15.2", f, "commit-on-success", ok,
                  "children are assigned only where the recursive expansion returned true",
                  "children of a node are assigned before / regardless of the success of the expansion: a failed "
                  "alternative leaves its children in the returned tree", s,
                  site=(ws[0].site.to_json() if ws else site_of(prog, f, f.node)))
        ok2 = any(ev.kind == "ret" and ev.value is not None and ev.value.has_const() and ev.value.const is True
                  and any(fct[0].endswith(" is None") and fct[1] for fct in ev.facts) for ev in own(s))
        ob.decide("DOM", "C15.2", f, "success-iff-fully-expanded-and-matching", ok2 and
                  any(c.callee.endswith("_match") for c, _ in [(e, 0) for e in own(s) if e.kind == "call"]),
                  "success is reported when nothing is left to expand and the expansion matched the word",
                  "the parser reports success without checking the match / with variables left", s,
                  site=site_of(prog, f, f.node))

    for cname, cq in (("RecursiveDecentParser", RD), ("LLOneParser", "pyformlang.cfg.llone_parser.LLOneParser")):
        f0 = prog.method(cname, "__init__")
        s0 = interp.run_entry(f0, cq)
        ws = [ev for ev in own(s0) if ev.kind == "write" and ev.wkind == "attr" and ev.value is not None]
        kept = [ev for ev in ws if P("cfg") in ev.value.alias]
        ob.decide("R1", "C15.2", f0, "parses-the-given-grammar:" + cname, bool(kept),
                  "the parser stores the grammar object it was given",
                  "%s does not keep the grammar it was given (it parses a transformed grammar: inner nodes of its trees "
                  "are not productions of the user's grammar)" % cname, s0, site=site_of(prog, f0, f0.node))
    # -------------------------------------------------------------- C15.3 CYK back-pointers and root
    CYK = "pyformlang.cfg.cyk_table.CYKTable"
    # the table is filled by the constructor (through private helpers, however they are cut): own frames
    f = prog.method("CYKTable", "__init__")
    s = interp.run_entry(f, CYK)
    nodes = [ev for ev in own(s) if ev.kind == "new" and ev.callee.endswith("CYKNode") and len(ev.args) == 3]
    CELL = ("self", ("_cyk_table",))
    ok = bool(nodes) and all(CELL in deps_of(ev.args[1]) and CELL in deps_of(ev.args[2]) and
                             ("self", ("_productions_d",)) in deps_of(ev.args[0]) for ev in nodes)
    ob.decide("R1", "C15.3", f, "both-back-pointers", ok,
              "an inner CYK node is (head, left node, right node) with head taken from the productions by body",
              "inner CYK nodes do not carry both nodes of the window pair that produced them", s,
              site=(nodes[0].site.to_json() if nodes else site_of(prog, f, f.node)))
    ni = prog.functions.get("pyformlang.cfg.cyk_table.CYKNode.__init__")
    sn = interp.run_entry(ni, "pyformlang.cfg.cyk_table.CYKNode")
    # children order: in the statements that put something into self.sons, taken in execution order, the left child
    # is mentioned before the right child (the two child parameters are the last two of the constructor)
    kids = ni.params[-2:]
    SONS = ("self", ("sons",))
    mention = []
    for ev in sn.events:
        if ev.kind == "write" and ev.func is ni and ((ev.recv is not None and SONS in ev.recv.alias) or SONS in ev.target):
            names_ = sorted((x for x in ast.walk(ev.node) if isinstance(x, ast.Name) and x.id in kids and
                             isinstance(x.ctx, ast.Load)), key=lambda x: (x.lineno, x.col_offset))
            for x in names_:
                # a name inside a test (`if left_son is not None`) is not the stored value
                if not any(isinstance(a, ast.Compare) and any(y is x for y in ast.walk(a)) for a in ast.walk(ev.node)):
                    mention.append(x.id)
    order_ok = len(kids) == 2 and kids[0] in mention and kids[1] in mention and \
        mention.index(kids[0]) < mention.index(kids[1]) and mention[-1] == kids[1]
    ob.decide("R1", "C15.3", ni, "children-left-then-right", order_ok,
              "children are stored left then right", "CYKNode stores its children in another order: %s" % mention, sn,
              site=site_of(prog, ni, ni.node))
    f = prog.functions.get(CYK + ".get_parse_tree")
    s = interp.run_entry(f, CYK)
    sel = any(isinstance(c, ast.Compare) and "start_symbol" in ast.unparse(c) and isinstance(c.ops[0], ast.Eq)
              for c in ast.walk(f.node))
    ob.decide("R1", "C15.3", f, "root=start-symbol", sel and ("self", ("_cnf", "_start_symbol")) in deps_of(s.ret),
              "the root is the node of the full-span cell that equals the normal form's start symbol",
              "the root of the CNF tree is not selected by the start symbol", s, site=site_of(prog, f, f.node))

    # -------------------------------------------------------------- C15.5 the two derivation listings are mirror images
    from . import mirror
    fl = prog.method("ParseTree", "get_leftmost_derivation")
    fr = prog.method("ParseTree", "get_rightmost_derivation")
    from .flow import helpers_of as _helpers_of
    hl, fixl = mirror.delegate(fl.node, _helpers_of(prog, fl))
    hr, fixr = mirror.delegate(fr.node, _helpers_of(prog, fr))
    tl, why_l = mirror.update_table(hl, fixl) if hl is not None else mirror.update_table(fl.node)
    tr, why_r = mirror.update_table(hr, fixr) if hr is not None else mirror.update_table(fr.node)
    if tl is None or tr is None:
        rep.error("R7", "C15.5", fl.qname, "derivation-siblings-agree",
                  "the son loop of a derivation listing is of a shape the rule cannot follow (%s)" % (why_l or why_r),
                  site=site_of(prog, fl, fl.node))
    else:
        def show(t):
            return "; ".join("%s -> %s" % (" and ".join("%s=%s" % (a, v) for a, v in g) or "always",
                                           ", ".join("+".join(k[1]) for k in ks) or "nothing") for g, ks in sorted(t))
        ob.decide("R7", "C15.5", fl, "derivation-siblings-agree", tl == tr,
                  "leftmost and rightmost listing add a son's contribution to the rewritten part by the same case analysis",
                  "the two listings disagree on what a son adds to the part already rewritten (leftmost: %s / rightmost: "
                  "%s): a son whose own list adds no step - a terminal leaf, a variable rewritten to epsilon - is handled "
                  "differently, so one of the two lists sentential forms that are not in the derivation"
                  % (show(tl), show(tr)), None, site=site_of(prog, fl, fl.node))
    # -------------------------------------------------------------- C15.4 documented exceptions
    table = [("CFG", "get_cnf_parse_tree", CFG, "DerivationDoesNotExist"),
             ("LLOneParser", "get_llone_parse_tree", "pyformlang.cfg.llone_parser.LLOneParser", "NotParsableException"),
             ("RecursiveDecentParser", "get_parse_tree", RD, "NotParsableException"),
             ("FCFG", "get_parse_tree", FCFG, "NotParsableException")]
    for cname, meth, cq, exc in table:
        f = prog.method(cname, meth)
        s = interp.run_entry(f, cq)
        esc = escaping_raises(interp, s)
        names_ = {short_exc(n) for ev, ch, ns in esc for n in ns}
        mine = {short_exc(n) for ev, ch, ns in esc for n in ns if len(ch) <= 2}
        ob.decide("R6", "C15.4", f, "refuses-with:" + exc, exc in names_ and mine <= {exc},
                  "%s.%s refuses non-members with %s" % (cname, meth, exc),
                  "%s.%s raises %s (documented: %s)" % (cname, meth, sorted(mine) or "nothing", exc), s,
                  site=site_of(prog, f, f.node))
    rep.stats.update(eng.stats())
    rep.floor = 9
