"""R7 sibling agreement of `__eq__`: symbol classes that live in the same sets must compare symmetrically.

Variable, Terminal (and Epsilon) objects of one grammar are members of the same sets and keys of the same dicts, and
they hash on their value alone.  If `A.__eq__` accepts an instance of the *sibling* class B by a class test (an
`isinstance(other, T)` that B passes, followed by a value comparison) while `B.__eq__` answers a constant False for
every instance of A, then `a == b` and `b == a` disagree for a variable and a terminal that share a value: set
membership and dict lookup become order dependent and the fixpoints of the grammar algorithms (to_normal_form, hence
contains) no longer terminate or answer wrongly.  Parent/child pairs (Epsilon is a Terminal / a Symbol) are skipped:
there the library's convention that the value "epsilon" denotes epsilon makes the one-sided acceptance intended.

Decided with the interpreter: `A.__eq__` is analysed with `other` typed exactly B; `never` = the result is the constant
False on all paths."""
from __future__ import annotations

import ast

from ..av import AV
from .common import site_of


def _never(eng, fa, a, b):
    other = AV(types=frozenset({b}), alias=frozenset({("p:other", ())}))
    s = eng.interp.run_entry(fa, a, args=[other])
    return s.ret.has_const() and s.ret.const is False, s


def _class_tests(prog, eng, fa):
    """Classes named in isinstance(<second parameter>, T) tests of the method."""
    params = [p.arg for p in fa.node.args.args]
    if len(params) < 2:
        return set()
    other = params[1]
    mod = prog.modules[fa.module]
    out = set()
    for c in ast.walk(fa.node):
        if isinstance(c, ast.Call) and isinstance(c.func, ast.Name) and c.func.id == "isinstance" and len(c.args) == 2 \
                and isinstance(c.args[0], ast.Name) and c.args[0].id == other:
            ts = c.args[1].elts if isinstance(c.args[1], ast.Tuple) else [c.args[1]]
            for t in ts:
                ent = prog.resolve_expr(mod, t)
                q = getattr(ent, "qname", None)
                if q in prog.classes:
                    out |= set(prog.subclasses(q))
    return out


def check(eng, ob, oblig, root_cls):
    """All sibling pairs below `root_cls` that define or inherit an __eq__."""
    prog = eng.prog
    root = prog.cls(root_cls).qname
    members = [q for q in prog.subclasses(root) if q not in eng.abstract and prog.find_method(q, "__eq__") is not None]
    n = 0
    for a in sorted(members):
        fa = prog.find_method(a, "__eq__")
        tested = _class_tests(prog, eng, fa)
        for b in sorted(members):
            if a == b or b in prog.subclasses(a) or a in prog.subclasses(b):
                continue
            never_ab, _ = _never(eng, fa, a, b)
            accepts_by_class = (b in tested) and not never_ab
            fb = prog.find_method(b, "__eq__")
            never_ba, _ = _never(eng, fb, b, a)
            ok = not (accepts_by_class and never_ba)
            n += 1
            an, bn = a.rsplit(".", 1)[-1], b.rsplit(".", 1)[-1]
            ob.decide("R7", oblig, fa, "eq-symmetric:%s/%s" % (an, bn), ok,
                      "%s.__eq__ and %s.__eq__ agree on instances of each other" % (an, bn),
                      "%s.__eq__ accepts a %s with the same value (class test on a common base) but %s.__eq__ is False for "
                      "every %s: a == b and b == a disagree for objects that hash alike, so a grammar in which a %s and a %s "
                      "share a value is mishandled (set membership is order dependent; to_normal_form / contains do not "
                      "terminate)" % (an, bn, bn, an, an.lower(), bn.lower()), None, site=site_of(prog, fa, fa.node))
    if n == 0:
        ob.rep.error("R7", oblig, root, "eq-symmetric", "no sibling pair with __eq__ found below %s" % root_cls)
    return n
