"""C06 - automaton -> regular expression (state elimination)."""
from __future__ import annotations

import ast

from ..model import ENFA, NFA, DFA
from . import names
from .common import site_of
from .flow import (own, Oblig, calls, events, receivers, START, FINAL, STATES, SYMBOLS, DELTA_SYM, DELTA_EPS, SELF,
                   result_locs, deps_of, arg_deps, check_escapes)

EXPLANATION = (
    "Decides: state elimination and the two-state closed form are only entered with parallel edges merged - the merge "
    "precedes the elimination loop and is re-established at the end of every elimination step (typestate ORN); "
    "elimination, merge and closed form range over the alphabet plus epsilon (R1); one automaton copy per final state "
    "with the other final states removed (R1, fresh copies R4); no undocumented exception leaves to_regex (R6). Not "
    "decided: that the textual expression denotes the language (string values).")


def run(eng, rep, tier):
    prog, interp = eng.prog, eng.interp
    rep.explanation = EXPLANATION
    ob = Oblig(eng, rep, "C06")
    fi = prog.method("EpsilonNFA", "to_regex")
    for recv_q, _, summ in receivers(eng, "EpsilonNFA", "to_regex"):
        label = prog.classes[recv_q].name
        # ------------------------------------------------------------ typestate ORN
        viol = orn_simulate(summ)
        ob.decide("ORN", "C06.1", fi, "merged-before-elimination:" + label, not viol,
                  "every elimination step and the closed form start from merged parallel edges",
                  "state elimination / closed form can be entered with unmerged parallel edges: %s"
                  % (viol[0][1] if viol else ""), summ, site=(viol[0][0].site.to_json() if viol else None))
        # ------------------------------------------------------------ copies per final state
        # the automaton that is copied per final state: self, or a working copy of self made first (e.g. to give it a
        # single start state)
        all_copies = [ev for ev, _ in calls(summ, "copy", own=True) if ev.recv is not None]
        work = frozenset().union(*[ev.result.alias for ev in all_copies if SELF in ev.recv.alias and ev.result is not None
                                   and FINAL() not in ev.ctrl] or [frozenset()])
        copies = [ev for ev in all_copies if (SELF in ev.recv.alias and FINAL() in ev.ctrl) or (ev.recv.alias & work)]
        if not copies:
            copies = [ev for ev in all_copies if SELF in ev.recv.alias]
        ok = bool(copies) and all(FINAL() in ev.ctrl for ev in copies)
        ob.decide("R1", "C06.2", fi, "one-copy-per-final:" + label, ok, "one private copy per final state",
                  "to_regex does not work on one private copy per final state", summ, site=site_of(prog, fi, fi.node))
        rems = list(calls(summ, "remove_final_state", own=True))
        okr = bool(rems) and all(ev.recv is not None and ev.recv.alias and all(l[0].startswith("fresh:") for l in ev.recv.alias)
                                 and FINAL() in arg_deps(ev, 0) for ev, _ in rems)
        ob.decide("R1", "C06.2", fi, "other-finals-removed:" + label, okr,
                  "in each copy the other final states are removed (on the copy)",
                  "the other final states are not removed from the private copies", summ, site=site_of(prog, fi, fi.node))
        elim = list(calls(summ, "_remove_all_basic_states", own=True)) + list(calls(summ, "_get_regex_simple", own=True))
        fresh = bool(elim) and all(ev.recv is not None and ev.recv.alias and all(l[0].startswith("fresh:") for l in ev.recv.alias)
                                   for ev, _ in elim)
        ob.decide("R4d", "C06.4", fi, "elimination-on-copies:" + label, fresh,
                  "destructive elimination runs on fresh copies only",
                  "state elimination runs on the automaton itself", summ, site=site_of(prog, fi, fi.node))
        ob.decide("R1", "C06.2", fi, "result-depends-on-edges:" + label,
                  ({DELTA_SYM(), START(), FINAL()} | ({DELTA_EPS()} if recv_q == ENFA else set()))
                  <= deps_of(summ.ret) | _ctor_deps(summ),
                  "the expression depends on start, final, symbol and epsilon edges",
                  "the produced expression does not depend on every component of the automaton", summ,
                  site=site_of(prog, fi, fi.node))
    # -------------------------------------------------------------- epsilon coverage of the helpers
    for meth in ("_remove_state", "_create_or_transitions", "_get_bi_transitions"):
        f2 = prog.method("EpsilonNFA", meth)
        s2 = interp.run_entry(f2, ENFA)
        reads = [ev for ev, _ in calls(s2, "__call__", own=True)]
        eps = any(DELTA_EPS() in deps_of(ev.result) for ev in reads)
        sym = any(DELTA_SYM() in deps_of(ev.result) for ev in reads)
        ob.decide("R1", "C06.2", f2, "covers-epsilon-edges", eps, "%s ranges over epsilon edges too" % meth,
                  "%s ignores epsilon edges" % meth, s2, site=site_of(prog, f2, f2.node))
        ob.decide("R1", "C06.2", f2, "covers-symbol-edges", sym, "%s ranges over the symbol edges" % meth,
                  "%s ignores symbol edges" % meth, s2, site=site_of(prog, f2, f2.node))
    # in _remove_state both the outgoing and the incoming edges of the eliminated state are collected over the alphabet
    # plus epsilon
    f2 = prog.method("EpsilonNFA", "_remove_state")
    s2 = interp.run_entry(f2, ENFA)
    PST = ("p:state", ())
    rem = [ev for ev, _ in calls(s2, "remove_transition", own=True)]
    outs = [ev for ev in rem if ev.args and PST in ev.args[0].alias]
    ins = [ev for ev in rem if len(ev.args) > 2 and PST in ev.args[2].alias]
    for role, evs, getd in (("outgoing", outs, lambda ev: arg_deps(ev, 2) | ev.ctrl), ("incoming", ins, lambda ev: ev.ctrl)):
        for tag, kind in ((DELTA_EPS(), "epsilon"), (DELTA_SYM(), "symbol")):
            ok = bool(evs) and any(tag in getd(ev) for ev in evs)
            ob.decide("R1", "C06.2", f2, "%s-edges-cover-%s" % (role, kind), ok,
                      "the %s edges of the eliminated state include the %s edges" % (role, kind),
                      "state elimination ignores the %s %s edges of the eliminated state" % (role, kind), s2,
                      site=(evs[0].site.to_json() if evs else site_of(prog, f2, f2.node)))
    # -------------------------------------------------------------- exceptions
    summ = interp.run_entry(fi, ENFA)
    n = check_escapes(ob, "R6", "C06.3", fi, summ, {"MisformedRegexError"}, "EpsilonNFA.to_regex")
    names.check(eng, rep, "C06")
    rep.stats.update(eng.stats())
    rep.floor = 20


def _ctor_deps(summ):
    out = set()
    for ev in own(summ):
        if ev.kind == "new":
            for a in ev.args:
                out |= deps_of(a)
    return out


def _unites_parallel_labels(fn) -> bool:
    """The elimination step itself copes with parallel edges: wherever it files a label under a state in a local table
    (`table[k] = label`), it first looks whether `k` is there already (`k in table`, `table.get(k)`, `table.pop(k)`,
    `table.setdefault(k, ..)`, or the old `table[k]` is part of the new value) - so a second label for the same
    neighbour is united with the first instead of replacing it.  Then the 'merged before every step' discipline is
    not needed for this step (the closed form still needs it)."""
    if fn is None:
        return False
    stores = []
    for st in ast.walk(fn):
        if isinstance(st, ast.Assign):
            for t in st.targets:
                if isinstance(t, ast.Subscript) and isinstance(t.value, ast.Name):
                    stores.append((st, t.value.id, ast.unparse(t.slice)))
    if not stores:
        return False
    for st, tab, key in stores:
        looked = False
        for x in ast.walk(fn):
            if isinstance(x, ast.Compare) and len(x.ops) == 1 and isinstance(x.ops[0], (ast.In, ast.NotIn)) and \
                    ast.unparse(x.left) == key and ast.unparse(x.comparators[0]) == tab:
                looked = True
            if isinstance(x, ast.Call) and isinstance(x.func, ast.Attribute) and x.func.attr in ("get", "pop", "setdefault") and \
                    ast.unparse(x.func.value) == tab and x.args and ast.unparse(x.args[0]) == key:
                looked = True
        if any(isinstance(x, ast.Subscript) and isinstance(x.ctx, ast.Load) and ast.unparse(x.value) == tab and
               ast.unparse(x.slice) == key for x in ast.walk(st.value)):
            looked = True
        if not looked:
            return False
    return True


def orn_simulate(summ):
    """Walk the events of the to_regex closure in program order.  ORN(x) (parallel edges of x merged) is established
    by x._create_or_transitions(), destroyed by x.add_transition(..) outside of it, required on entry of
    x._remove_state / x._get_bi_transitions, and must hold again when _remove_state returns (loop-carried)."""
    viol = []

    def walk(s, orn, inside_merge):
        for ev in s.events:
            if ev.kind != "call" or ev.sub is None:
                continue
            name = ev.callee.rsplit(".", 1)[-1]
            if name == "_create_or_transitions":
                walk(ev.sub, orn, True)
                orn = True
                continue
            if name in ("_remove_state", "_get_bi_transitions") and not inside_merge:
                tolerant = name == "_remove_state" and _unites_parallel_labels(ev.sub.func.node if ev.sub.func is not None else None)
                if not orn and not tolerant:
                    viol.append((ev, "%s entered without a preceding _create_or_transitions()" % name))
                after = walk(ev.sub, orn, inside_merge)
                if name == "_remove_state":
                    if not after and not tolerant:
                        viol.append((ev, "_remove_state returns with unmerged parallel edges (the next elimination "
                                         "step starts from them)"))
                    orn = after
                continue
            if name == "add_transition" and ev.callee.endswith("FiniteAutomaton.add_transition") and not inside_merge:
                orn = False
                continue
            orn = walk(ev.sub, orn, inside_merge)
        return orn

    walk(summ, False, False)
    return viol
