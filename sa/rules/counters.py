"""One counter per production (shared by C08 and C09).

The generating / nullable / generate_epsilon fixpoints of CFG are counting worklists: every production with a
non-empty body owns one counter, initialised with the number of symbol *occurrences* in the body; every occurrence
registers one (head, production index) entry in the impact list of its symbol; the closure decrements the counter of
exactly the production named by the entry and fires when it reaches zero.  Two structural necessary conditions:

  counter-matches-registrations   the initial value is len(E) of the very collection E whose elements are registered
                                  (len(set(body)) with one registration per occurrence fires too early; len(body)
                                  with one registration per distinct symbol never fires)
  counter-cell-per-production     the cell decremented, and the cell tested for zero, is selected by BOTH components of
                                  the impact entry (head and production index): keyed by the head alone all productions
                                  of a variable share one counter

Both are decided on the syntax of the functions with a small name-level def-use closure (so renaming locals,
introducing aliases, or reformatting does not matter); a loop of another shape is `cannot follow` (ANALYSIS-ERROR)."""
from __future__ import annotations

import ast

from .common import site_of

IMPACT_FIELD = "_impacts"
COUNTER_FIELD = "_remaining_lists"


def _single_defs(fn):
    """name -> defining expression, for locals assigned exactly once by a plain `name = expr`."""
    defs, count = {}, {}
    for s in ast.walk(fn):
        targets = []
        if isinstance(s, ast.Assign):
            targets = s.targets
        elif isinstance(s, (ast.AugAssign, ast.AnnAssign)):
            targets = [s.target]
        elif isinstance(s, (ast.For, ast.comprehension)):
            targets = [s.target]
        for t in targets:
            for n in ast.walk(t):
                if isinstance(n, ast.Name):
                    count[n.id] = count.get(n.id, 0) + 1
                    if isinstance(s, ast.Assign) and len(s.targets) == 1 and t is n:
                        defs[n.id] = s.value
                    elif isinstance(s, ast.Assign) and len(s.targets) == 1 and isinstance(t, ast.Tuple) and \
                            isinstance(s.value, ast.Tuple) and len(t.elts) == len(s.value.elts) and n in t.elts:
                        defs[n.id] = s.value.elts[t.elts.index(n)]      # `a, b = self._x, self._y`
                    elif isinstance(s, ast.Assign) and len(s.targets) > 1 and t is n:
                        # chained `local = self._field = {}`: the local is an alias of the field
                        attrs = [x for x in s.targets if isinstance(x, ast.Attribute)]
                        defs[n.id] = attrs[0] if attrs else s.value
    return {k: v for k, v in defs.items() if count.get(k) == 1}


def _canon(e, defs, depth=0):
    """Canonical text of an expression with single-assignment locals expanded."""
    if isinstance(e, ast.Name) and e.id in defs and depth < 6:
        return _canon(defs[e.id], defs, depth + 1)
    if isinstance(e, ast.Call):
        return "%s(%s)" % (_canon(e.func, defs, depth), ",".join(_canon(a, defs, depth) for a in e.args))
    if isinstance(e, ast.Attribute):
        return "%s.%s" % (_canon(e.value, defs, depth), e.attr)
    return ast.unparse(e)


def _mentions_field(e, field, defs, depth=0):
    for n in ast.walk(e):
        if isinstance(n, ast.Attribute) and n.attr == field:
            return True
        if isinstance(n, ast.Name) and n.id in defs and depth < 6 and _mentions_field(defs[n.id], field, defs, depth + 1):
            return True
    return False


def check_setup(ob, prog, fi, oblig):
    """counter-matches-registrations in the function that fills the impact lists."""
    fn = fi.node
    defs = _single_defs(fn)
    site = site_of(prog, fi, fn)
    regs = []      # (loop, canonical iterable)
    for c in ast.walk(fn):
        if isinstance(c, ast.Call) and isinstance(c.func, ast.Attribute) and c.func.attr in ("append", "add") and \
                len(c.args) == 1 and isinstance(c.args[0], ast.Tuple) and len(c.args[0].elts) == 2 and \
                _mentions_field(c.func.value, IMPACT_FIELD, defs):
            lp = _innermost_for(fn, c)
            if lp is not None:
                regs.append((lp, _canon(lp.iter, defs)))
    inits = []
    for c in ast.walk(fn):
        if isinstance(c, ast.Call) and isinstance(c.func, ast.Name) and c.func.id == "len" and len(c.args) == 1:
            par = _parent_stmt(fn, c)
            if par is not None and _is_counter_store(par, c, defs):
                inits.append((c, _canon(c.args[0], defs)))
    if not regs or not inits:
        return ob.rep.error("R1", oblig, fi.qname, "counter-matches-registrations",
                            "the counter initialisation / impact registration of %s is not written as `append(len(E))` + "
                            "`for s in E: impacts[s].append((head, index))` any more; the rule cannot follow it" % fi.name,
                            site=site)
    ok = all(ci == ri for _, ci in inits for _, ri in regs)
    bad = next(((c, ci, ri) for c, ci in inits for _, ri in regs if ci != ri), None)
    return ob.decide("R1", oblig, fi, "counter-matches-registrations", ok,
                     "every production's counter starts at len(E) of the collection E whose elements each register one "
                     "impact entry",
                     "the counter starts at len(%s) but one impact entry is registered per element of %s: a production "
                     "then fires too early or never" % ((bad[1], bad[2]) if bad else ("?", "?")), None,
                     site=site_of(prog, fi, bad[0]) if bad else site)


def _innermost_for(fn, node):
    best = None
    for lp in ast.walk(fn):
        if isinstance(lp, ast.For) and any(n is node for n in ast.walk(lp)):
            if best is None or any(n is lp for n in ast.walk(best)):
                best = lp
    return best


def _parent_stmt(fn, node):
    for s in ast.walk(fn):
        if isinstance(s, ast.stmt) and not isinstance(s, (ast.FunctionDef, ast.For, ast.While, ast.If, ast.With, ast.Try)):
            if any(n is node for n in ast.walk(s)):
                return s
    return None


def _is_counter_store(stmt, len_call, defs):
    """`<counters>.append(len(..))`, `<counters>[..] = len(..)`, or a local that is later stored: accept a statement
    whose written container mentions the counter field."""
    if isinstance(stmt, ast.Expr) and isinstance(stmt.value, ast.Call) and isinstance(stmt.value.func, ast.Attribute) \
            and stmt.value.func.attr in ("append", "insert"):
        return _mentions_field(stmt.value.func.value, COUNTER_FIELD, defs)
    if isinstance(stmt, ast.Assign) and len(stmt.targets) == 1 and isinstance(stmt.targets[0], ast.Subscript):
        return _mentions_field(stmt.targets[0], COUNTER_FIELD, defs)
    return False


def check_consumer(ob, prog, fi, oblig):
    """counter-cell-per-production in a closure that consumes the impact lists."""
    fn = fi.node
    site = site_of(prog, fi, fn)

    def impact_loops(node):
        d = _single_defs(node)
        return [lp for lp in ast.walk(node) if isinstance(lp, ast.For) and isinstance(lp.target, ast.Tuple)
                and len(lp.target.elts) == 2 and all(isinstance(x, ast.Name) for x in lp.target.elts)
                and _mentions_field(lp.iter, IMPACT_FIELD, d)]
    loops = impact_loops(fn)
    if not loops:
        # the propagation loop may have been extracted into a private helper of the class
        from .flow import helpers_of
        hs = helpers_of(prog, fi)
        for c in ast.walk(fn):
            if isinstance(c, ast.Call):
                nm = c.func.attr if isinstance(c.func, ast.Attribute) else getattr(c.func, "id", None)
                h = hs.get(nm) if nm and nm.startswith("_") else None
                if h is not None and h is not fn:
                    loops += impact_loops(h)
    if not loops:
        return ob.rep.error("R1", oblig, fi.qname, "counter-cell-per-production",
                            "%s does not iterate the impact entries as `for head, index in impacts[...]` any more; the "
                            "rule cannot follow it" % fi.name, site=site)
    n = 0
    for lp in loops:
        a, b = (x.id for x in lp.target.elts)
        flow = _name_flow(lp)
        cells = []
        for s in ast.walk(lp):
            if isinstance(s, ast.AugAssign) and isinstance(s.op, ast.Sub) and isinstance(s.target, ast.Subscript):
                cells.append(("decrement", s, s.target))
            elif isinstance(s, ast.Assign) and len(s.targets) == 1 and isinstance(s.targets[0], ast.Subscript) and \
                    any(isinstance(x, ast.BinOp) and isinstance(x.op, ast.Sub) for x in ast.walk(s.value)):
                cells.append(("decrement", s, s.targets[0]))
            elif isinstance(s, ast.Compare) and len(s.ops) == 1 and isinstance(s.ops[0], (ast.Eq, ast.LtE)) and \
                    isinstance(s.comparators[0], ast.Constant) and s.comparators[0].value == 0:
                left = s.left
                if isinstance(left, ast.Name) and left.id in flow.get("__defs__", {}):
                    left = flow["__defs__"][left.id]
                if isinstance(left, ast.Subscript):
                    cells.append(("zero-test", s, left))
        if not any(k == "decrement" for k, _, _ in cells):
            ob.rep.error("R1", oblig, fi.qname, "counter-cell-per-production",
                         "no counter decrement found in the loop over the impact entries of %s; the rule cannot follow it"
                         % fi.name, site=site_of(prog, fi, lp))
            continue
        for kind, stmt, cell in cells:
            keys = _key_names(cell, flow["__defs__"])
            closure = set(keys)
            for k in keys:
                closure |= flow.get(k, set())
            ok = a in closure and b in closure
            n += 1
            ob.decide("R1", oblig, fi, "counter-cell-per-production:" + kind, ok,
                      "the counter cell is selected by the head and the production index of the impact entry",
                      "the counter %s is selected by {%s} only, not by both components (%s, %s) of the impact entry: "
                      "productions share a counter" % (kind, ", ".join(sorted(keys)) or "nothing", a, b), None,
                      site=site_of(prog, fi, stmt))
    return n


def _key_names(cell, defs=None, depth=0):
    """Names used in the index positions of a subscript chain x[i][j]...; a base that is a local alias of another
    subscript (`cells = counters[head]; cells[i] -= 1`) contributes the keys of its definition."""
    out = set()
    while isinstance(cell, ast.Subscript):
        for n in ast.walk(cell.slice):
            if isinstance(n, ast.Name):
                out.add(n.id)
        cell = cell.value
    if isinstance(cell, ast.Name) and defs and cell.id in defs and depth < 4:
        d = defs[cell.id]
        if isinstance(d, ast.Call) and isinstance(d.func, ast.Attribute) and d.func.attr in ("get", "setdefault") and d.args:
            out |= {n.id for n in ast.walk(d.args[0]) if isinstance(n, ast.Name)}
            d = d.func.value
        out |= _key_names(d, defs, depth + 1)
    return out


def _name_flow(loop):
    """name -> names it (transitively) depends on through plain assignments inside the loop."""
    direct, defs = {}, {}
    for s in ast.walk(loop):
        if isinstance(s, ast.Assign) and len(s.targets) == 1 and isinstance(s.targets[0], ast.Name):
            direct.setdefault(s.targets[0].id, set()).update(n.id for n in ast.walk(s.value) if isinstance(n, ast.Name))
            defs[s.targets[0].id] = s.value
    changed = True
    while changed:
        changed = False
        for k, v in direct.items():
            new = set(v)
            for x in v:
                new |= direct.get(x, set())
            if new != v:
                direct[k] = new
                changed = True
    direct["__defs__"] = defs
    return direct
