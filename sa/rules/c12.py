"""C12 - CFG emptiness, finiteness, symbol classes, word enumeration: the clauses that have a shape.

The property as a whole is about *values* (of three fixpoints, of a cycle test, of a length-indexed enumeration with a
numeric stopping rule) and that part is not decided.  What is decided are necessary conditions that are visible on
every path of the anchored functions, all phrased on abstract values (dependences, aliases, constants, branch facts),
never on source text:

  C12.1  is_empty answers from the start symbol AND the generating symbols; __bool__ delegates to it
  C12.2  get_generating_symbols / get_nullable_symbols select the right mode of the shared fixpoint (constant mode
         flag), the fixpoint is seeded with the terminals in generating mode and NOT in nullable mode, with the heads
         of empty bodies in both, depends on heads and bodies of the productions, is a closure worklist; each accessor
         returns what it stores in ITS cache field
  C12.3  get_reachable_symbols is a closure worklist seeded with the start symbol, keyed by production heads, that
         follows the whole body (never only fixed positions of it)
  C12.4  is_finite builds its graph from the productions of to_normal_form()'s result, with an edge from the head to
         BOTH symbols of a binary body, and hands that graph to the cycle test
  C12.5  get_words: the empty word is yielded under `start in nullable` and not under a test that excludes bound 0;
         every other word is yielded under a test against the start symbol of the normal form, is enumerated from the
         normal form's productions, cannot be reached when the bound is 0; words built by concatenation are yielded
         under a duplicate (membership) test and under the length bound

A function written in a shape the rules cannot follow is ANALYSIS-ERROR (exit 2), never a violation.
Not decided: the values of the fixpoints (the counting discipline itself is C09.6 / C08), the cycle test, the stopping
rule `total_no_modification > current_length / 2`, completeness of the enumeration."""
from __future__ import annotations

import ast
import re

from ..av import AV as _AV
from ..model import CFG
from .common import site_of
from .flow import (own, Oblig, calls, deps_of, arg_deps, both_answers, code_nodes, resolved_facts, excludes_value)

EXPLANATION = (
    "Decides (necessary conditions, every path, abstract values only): is_empty answers from the start symbol and the "
    "generating set and __bool__ delegates (R1); the generating / nullable accessors pick the right constant mode of "
    "the shared counting fixpoint, terminals seed it in generating mode only, empty-body heads in both modes, it reads "
    "heads and bodies and is a closure worklist, each accessor returns what it stores in its own cache field (R1, R4b, "
    "R10a); get_reachable_symbols is a closure worklist from the start symbol over whole bodies keyed by heads (R1, "
    "R10a); is_finite builds the graph from the normal form with edges to both symbols of a binary body and passes it "
    "to the cycle test (R1); get_words yields the empty word under start-in-nullable independent of the bound, other "
    "words only for the normal form's start symbol, never for bound 0, concatenated words under a duplicate test and "
    "the length bound (R1). Not decided: the values of the fixpoints, the cycle test, the stopping rule, completeness.")

SELF = ("self", ())


def _f(*path):
    return ("self", tuple(path))


def _is_tag(d, name):
    return isinstance(d, tuple) and len(d) == 2 and d[0] == name


def _path_ends(l, *suffix):
    return isinstance(l, tuple) and len(l) == 2 and isinstance(l[1], tuple) and l[1][-len(suffix):] == tuple(suffix)


def _aliases(av):
    return av.alias if av is not None and av.alias else frozenset()


def _is_body(l):
    return _path_ends(l, "body")


def _is_body_elem(l):
    return _path_ends(l, "body", "[]")


def _is_head(l):
    return _path_ends(l, "head")


def _all_avs(ev):
    out = [a for a in ev.args if a is not None] + [v for _, v in ev.kwargs if v is not None]
    for a in (ev.value, ev.recv):
        if a is not None:
            out.append(a)
    return out


def _flat(av, depth=0):
    """the value, the items of a tuple / list literal and its element summary"""
    if av is None or depth > 3:
        return
    yield av
    for it in (av.items or ()):
        yield from _flat(it, depth + 1)
    if av.elem is not None:
        yield from _flat(av.elem, depth + 1)


def run(eng, rep, tier):
    prog, interp = eng.prog, eng.interp
    rep.explanation = EXPLANATION
    ob = Oblig(eng, rep, "C12")

    def site(fi):
        return site_of(prog, fi, fi.node)

    # ------------------------------------------------------------------ C12.1 is_empty / __bool__
    fi = prog.method("CFG", "is_empty")
    summ = interp.run_entry(fi, CFG)
    rd = deps_of(summ.ret)
    ob.decide("R1", "C12.1", fi, "is_empty-depends-on-start-symbol", _f("_start_symbol") in rd,
              "the answer depends on the start symbol", "is_empty does not look at the start symbol", summ, site=site(fi))
    ob.decide("R1", "C12.1", fi, "is_empty-depends-on-generating", any(_is_tag(d, "GENERATING") and d[1] == SELF for d in rd),
              "the answer depends on the generating symbols of this grammar",
              "is_empty does not use the generating symbols of the grammar", summ, site=site(fi))
    # every path answers from the generating set: a return that is not computed from it (an answer read off a cached
    # normal form, off the productions ...) is allowed only as a constant under a test of the start symbol itself
    rets = [ev for ev in summ.events if ev.kind == "ret" and ev.value is not None]
    def _from_generating(ev):
        ds = deps_of(ev.value) | ev.ctrl | ev.xctrl
        if any(_is_tag(d, "GENERATING") and d[1] == SELF for d in ds):
            return True
        return ev.value.has_const() and _f("_start_symbol") in (ev.ctrl | ev.xctrl) and \
            not any(isinstance(d, tuple) and d[0] == "self" and d[1] and d[1][0] not in ("_start_symbol",) for d in ev.ctrl | ev.xctrl)
    badr = [ev for ev in rets if not _from_generating(ev)]
    # Not a necessary condition of the property (a shortcut can be sound: `a cached normal form with productions => not
    # empty`), so an answer taken from other state is `cannot follow`, never a violation: whether the shortcut is sound is
    # a fact about values (seed C12-m3 is unsound for L = {epsilon}, its corrected twin is sound; both end here).
    if rets and not badr:
        rep.holds("R1", "C12.1", fi.qname, "every-answer-from-the-generating-set",
                  "every return of is_empty is computed from the generating symbols (%d returns)" % len(rets), site=site(fi))
    else:
        rep.error("R1", "C12.1", fi.qname, "every-answer-from-the-generating-set",
                  "a return of is_empty is not computed from the generating symbols of the grammar but read off other state; "
                  "whether that shortcut is sound (it is not for L = {epsilon} and a cached normal form) is a fact about "
                  "values this rule cannot follow", site=(badr[0].site.to_json() if badr else site(fi)))
    ob.decide("R1", "C12.1", fi, "is_empty-both-answers", both_answers(summ), "both answers reachable",
              "is_empty can only give one answer", summ, site=site(fi))
    fb = prog.method("CFG", "__bool__")
    sb = interp.run_entry(fb, CFG)
    ob.decide("R7", "C12.1", fb, "bool-delegates-to-is_empty",
              bool(calls(sb, "is_empty", own=True)) and _f("_start_symbol") in deps_of(sb.ret)
              and any(_is_tag(d, "GENERATING") for d in deps_of(sb.ret)),
              "truthiness is decided by is_empty", "CFG.__bool__ does not answer from is_empty", sb, site=site(fb))

    # ------------------------------------------------------------------ C12.2 generating / nullable
    core = prog.method("CFG", "_get_generating_or_nullable")
    for meth, want, cache in (("get_generating_symbols", False, "_generating_symbols"),
                              ("get_nullable_symbols", True, "_nullable_symbols")):
        fm = prog.method("CFG", meth)
        sm = interp.run_entry(fm, CFG)
        cs = [ev for ev, _ in calls(sm, "_get_generating_or_nullable", own=True)]
        modes = set()
        for ev in cs:
            a = ev.args[0] if ev.args else dict(ev.kwargs).get("nullable")
            if a is None:
                modes.add(False)            # the default of the parameter
            elif a.has_const():
                modes.add(bool(a.const))
            else:
                modes.add("?")
        if not cs:
            rep.error("R1", "C12.2", fm.qname, "mode-of-shared-fixpoint:" + meth,
                      "%s no longer calls the shared fixpoint _get_generating_or_nullable; the rule cannot follow it" % meth,
                      site=site(fm))
        elif "?" in modes:
            rep.error("R1", "C12.2", fm.qname, "mode-of-shared-fixpoint:" + meth,
                      "the mode flag handed to the shared fixpoint is not a constant; the rule cannot follow it", site=site(fm))
        else:
            ob.decide("R1", "C12.2", fm, "mode-of-shared-fixpoint:" + meth, modes == {want},
                      "the shared fixpoint is run with nullable=%s" % want,
                      "%s runs the shared fixpoint with nullable=%s (expected %s)" % (meth, sorted(modes, key=str), want), sm,
                      site=cs[0].site.to_json())
        stores = [ev for ev in own(sm) if ev.kind == "write" and ev.wkind == "attr" and ev.value is not None
                  and ev.attr in ("_generating_symbols", "_nullable_symbols")]
        rets = [ev for ev in sm.events if ev.kind == "ret" and ev.value is not None]
        wrong = [ev for ev in stores if ev.attr != cache]
        ret_locs = frozenset().union(*[_aliases(ev.value) for ev in rets]) if rets else frozenset()
        if stores:
            other = _f("_nullable_symbols" if cache == "_generating_symbols" else "_generating_symbols")
            stored = frozenset().union(*[_aliases(s_.value) for s_ in stores]) | {_f(cache)}
            okc = not wrong and all(_aliases(ev.value) & stored for ev in rets) and other not in ret_locs
            ob.decide("R4b", "C12.2", fm, "cache-field-is-its-own:" + meth, okc,
                      "the accessor stores the fixpoint in %s and returns that value" % cache,
                      "%s stores into / returns from the wrong cache field (%s)" % (
                          meth, ", ".join(sorted({ev.attr for ev in wrong})) or "returned value is not the stored one"),
                      sm, site=(wrong[0] if wrong else stores[0]).site.to_json())
        else:
            ob.decide("R4b", "C12.2", fm, "cache-field-is-its-own:" + meth, _f("_generating_symbols" if want else
                      "_nullable_symbols") not in ret_locs,
                      "no cache is kept; the value returned is not the other accessor's cache",
                      "%s returns the other accessor's cache" % meth, sm, site=site(fm))

    TERM = _f("_terminals")
    for mode in (False, True):
        sc = interp.run_entry(core, CFG, args=[_AV(types=frozenset({"bool"}), const=mode)])
        rd = deps_of(sc.ret) | (deps_of(sc.ret.elem) if sc.ret is not None and sc.ret.elem is not None else frozenset())
        label = "nullable" if mode else "generating"
        if mode:
            ob.decide("R1", "C12.2", core, "terminals-do-not-seed-nullable", TERM not in rd and
                      not any(isinstance(d, tuple) and d[0] == "self" and d[1][:1] == ("_terminals",) for d in rd),
                      "with nullable=True no terminal enters the fixpoint",
                      "the nullable fixpoint is seeded with (or depends on) the terminals", sc, site=site(core))
        else:
            ob.decide("R1", "C12.2", core, "terminals-seed-generating", TERM in rd,
                      "with nullable=False every terminal seeds the fixpoint",
                      "the generating fixpoint is not seeded with the terminals", sc, site=site(core))
        # the productions are read directly, or through the counting tables that _set_impacts_and_remaining_lists fills
        direct = _f("_productions", "[]", "head") in rd and _f("_productions", "[]", "body") in rd
        tables = _f("_impacts") in rd and _f("_remaining_lists") in rd
        ob.decide("R1", "C12.2", core, "%s-fixpoint-reads-the-productions" % label, direct or tables,
                  "the %s set depends on the productions (%s)" % (label, "heads and bodies" if direct else
                                                                   "through the impact and counter tables"),
                  "the %s fixpoint depends neither on the productions nor on both counting tables" % label, sc,
                  site=site(core))
        ob.decide("R1", "C12.2", core, "%s-fixpoint-depends-on-heads-of-empty-bodies" % label,
                  _f("_added_impacts") in rd or (direct and not tables),
                  "the heads of empty bodies enter the %s set" % label,
                  "the %s fixpoint does not depend on the heads of empty bodies" % label, sc, site=site(core))
        eps_new = [ev for ev in own(sc) if ev.kind == "new" and (ev.callee or "").rsplit(".", 1)[-1] == "Epsilon"]
        # ... not counting the instances only made to be taken out again or compared with
        taken = frozenset(l for ev in own(sc) if (ev.kind == "bcall" and (ev.callee or "") in ("remove", "discard"))
                          or ev.kind in ("compare", "member") for a in ev.args if a is not None for l in _aliases(a))
        eps_new = [ev for ev in eps_new if ev.result is None or not (_aliases(ev.result) and _aliases(ev.result) <= taken)]
        ob.decide("R1", "C12.2", core, "%s-fixpoint-seeded-with-epsilon" % label, bool(eps_new),
                  "an Epsilon symbol seeds the %s fixpoint (a raw Epsilon in a body counts as derived)" % label,
                  "no Epsilon symbol seeds the %s fixpoint: a body that holds a raw Epsilon() never counts down" % label, sc,
                  site=site(core))
    setup = prog.method("CFG", "_set_impacts_and_remaining_lists")
    ss = interp.run_entry(setup, CFG)
    sevs = [ev for ev in own(ss) if ev.kind in ("bcall", "write", "call", "subscript")]
    uses_head = any(_is_head(l) for ev in sevs for a in _all_avs(ev) if a is not ev.recv for x in _flat(a) for l in _aliases(x))
    walks_body = any(ev.kind == "iter" and any(_is_body(l) for l in _aliases(ev.recv)) for ev in own(ss)) or \
        any(_is_body_elem(l) for ev in sevs for a in _all_avs(ev) if a is not ev.recv for x in _flat(a) for l in _aliases(x))
    ob.decide("R1", "C12.2", setup, "tables-built-from-heads-and-bodies", uses_head and walks_body,
              "the counting tables are filled from the head and from every symbol of the body of each production",
              "the counting tables are not filled from %s" % ("production heads" if not uses_head else "the symbols of the bodies"),
              ss, site=site(setup))
    # each symbol enters the worklist once: the counters are decremented once per registered occurrence each time a
    # symbol is popped, so a symbol pushed twice (a terminal that is already known - `Terminal("epsilon")` equals the
    # Epsilon seed) counts a body down twice and marks a head whose other symbols derive nothing (F40)
    sc = interp.run_entry(core, CFG, args=[_AV(types=frozenset({"bool"}), const=False)])
    cevs = own(sc)
    cnodes = code_nodes(prog, core)
    popped = frozenset(l for ev in cevs if ev.kind == "bcall" and (ev.callee or "") in ("pop", "popleft") and ev.recv is not None
                       for l in _aliases(ev.recv))
    pushes = [ev for ev in cevs if ev.kind == "write" and ev.wkind in ("mutate:append", "mutate:extend", "mutate:appendleft")
              and ev.recv is not None and (_aliases(ev.recv) & popped)]

    def _guarded(ev):
        for e, pol in resolved_facts(cnodes, ev.facts):
            for c in ast.walk(e):
                if isinstance(c, ast.Compare) and len(c.ops) == 1 and (
                        (isinstance(c.ops[0], ast.NotIn) and (pol or c is not e)) or (isinstance(c.ops[0], ast.In) and (not pol or c is not e))):
                    return True
        return False

    def _filtered_expr(x, depth=0):
        """True: the expression keeps only members not yet known; False: it takes a collection as it is; None: unknown"""
        if isinstance(x, (ast.ListComp, ast.SetComp, ast.GeneratorExp)):
            return any(isinstance(c, ast.Compare) and isinstance(c.ops[0], (ast.NotIn, ast.In)) for g in x.generators
                       for i_ in g.ifs for c in ast.walk(i_)) or None
        if isinstance(x, ast.BinOp) and isinstance(x.op, ast.Sub):
            return True
        if isinstance(x, ast.Call) and isinstance(x.func, ast.Attribute) and x.func.attr == "difference":
            return True
        if isinstance(x, ast.Call) and isinstance(x.func, ast.Name) and x.func.id in ("list", "set", "sorted", "tuple") and len(x.args) == 1:
            return _filtered_expr(x.args[0], depth + 1)
        if isinstance(x, ast.Attribute):
            return False
        if isinstance(x, ast.Name) and depth < 3:
            ds = [st.value for fn_ in cnodes for st in ast.walk(fn_) if isinstance(st, ast.Assign) and len(st.targets) == 1
                  and isinstance(st.targets[0], ast.Name) and st.targets[0].id == x.id]
            if len(ds) == 1:
                return _filtered_expr(ds[0], depth + 1)
        return None
    if not popped or not pushes:
        rep.error("R10a", "C12.2", core.qname, "each-symbol-pushed-once", "cannot see the worklist of the counting fixpoint "
                  "(what is popped, what is pushed); the rule cannot follow it", site=site(core))
    else:
        bad, unknown = [], []
        for ev in pushes:
            if ev.wkind == "mutate:extend":
                arg = ev.node.args[0] if isinstance(ev.node, ast.Call) and ev.node.args else None
                v = _guarded(ev) or (_filtered_expr(arg) if arg is not None else None)
                (bad if v is False else unknown if v is None else []).append(ev)
            elif not _guarded(ev):
                bad.append(ev)
        if bad:
            rep.violation("R10a", "C12.2", core.qname, "each-symbol-pushed-once",
                          "a symbol is pushed on the worklist of the counting fixpoint without a `not already known` test: a "
                          "symbol that is already there (Terminal('epsilon') equals the Epsilon seed) is popped twice and counts "
                          "every body it occurs in down twice", site=bad[0].site.to_json())
        elif unknown:
            rep.error("R10a", "C12.2", core.qname, "each-symbol-pushed-once", "a collection is pushed on the worklist as a whole "
                      "and the rule cannot see whether known symbols were filtered out of it", site=unknown[0].site.to_json())
        else:
            rep.holds("R10a", "C12.2", core.qname, "each-symbol-pushed-once",
                      "every push on the worklist (%d) sits under a `not already known` test" % len(pushes), site=site(core))
    ob.worklist("C12.2", core, "fixpoint-is-a-closure-worklist", "the counting fixpoint is a visited-set worklist",
                "_get_generating_or_nullable is not a closure worklist")

    # ------------------------------------------------------------------ C12.3 reachable
    fr = prog.method("CFG", "get_reachable_symbols")
    sr = interp.run_entry(fr, CFG)
    rd = deps_of(sr.ret) | (deps_of(sr.ret.elem) if sr.ret is not None and sr.ret.elem is not None else frozenset())
    ob.decide("R1", "C12.3", fr, "reachable-depends-on-start-symbol", _f("_start_symbol") in rd,
              "reachability starts from the start symbol", "get_reachable_symbols does not depend on the start symbol", sr,
              site=site(fr))
    ob.decide("R1", "C12.3", fr, "reachable-depends-on-bodies", _f("_productions", "[]", "body") in rd,
              "reachability follows production bodies", "get_reachable_symbols does not follow production bodies", sr,
              site=site(fr))
    evs = own(sr)
    head_used = any(any(_is_head(l) for a in _all_avs(ev) for x in _flat(a) for l in _aliases(x)) or
                    any(_is_head(d) for a in _all_avs(ev) for d in deps_of(a))
                    for ev in evs if ev.kind in ("bcall", "write", "subscript", "compare", "member", "call"))
    ob.decide("R1", "C12.3", fr, "successors-keyed-by-head", head_used,
              "the successor relation is keyed by the head of each production",
              "get_reachable_symbols never uses the head of a production (every body is followed from every symbol, or none)",
              sr, site=site(fr))
    fixed = sorted({ev.args[0].const for ev in evs if ev.kind == "subscript" and ev.args and ev.args[0].has_const()
                    and isinstance(ev.args[0].const, int) and any(_is_body(l) for l in _aliases(ev.recv))})
    # the body is walked as a whole: a loop / comprehension over it, or it is handed over as a collection - and no
    # fixed position of it is picked
    whole = any(ev.kind == "iter" and any(_is_body(l) for l in _aliases(ev.recv)) for ev in evs) or (not fixed and any(
        any(_is_body(l) or _is_body_elem(l) for a in _all_avs(ev) if a is not ev.recv for x in _flat(a) for l in _aliases(x))
        for ev in evs if ev.kind in ("bcall", "write", "call")))
    if whole:
        rep.holds("R1", "C12.3", fr.qname, "whole-body-followed", "every symbol of a body is a successor of its head",
                  site=site(fr))
    elif fixed:
        rep.violation("R1", "C12.3", fr.qname, "whole-body-followed",
                      "get_reachable_symbols follows only positions %s of a body: a symbol reachable only through "
                      "another position is missed" % fixed, site=site(fr))
    else:
        rep.error("R1", "C12.3", fr.qname, "whole-body-followed",
                  "cannot see how get_reachable_symbols walks a production body; the rule cannot follow it", site=site(fr))
    ob.worklist("C12.3", fr, "reachability-is-a-closure-worklist", "reachability is a visited-set worklist",
                "get_reachable_symbols is not a closure worklist")
    seeds = [ev for ev in evs if ev.kind in ("write", "new", "bcall") and
             any(_f("_start_symbol") in _aliases(x) for a in _all_avs(ev) if a is not ev.recv for x in _flat(a))]
    ob.decide("R1", "C12.3", fr, "start-symbol-is-a-seed", bool(seeds) or (sr.ret is not None and any(
        _f("_start_symbol") in _aliases(x) for x in _flat(sr.ret))),
              "the start symbol itself is put into the result / the worklist",
              "the start symbol is never put into the reachable set or the worklist", sr, site=site(fr))

    # ------------------------------------------------------------------ C12.4 is_finite
    ff = prog.method("CFG", "is_finite")
    sf = interp.run_entry(ff, CFG)
    evs = own(sf)
    nf = [ev for ev, _ in calls(sf, "to_normal_form", own=True)]
    nf_locs = frozenset(l for ev in nf for l in _aliases(ev.result) if l != SELF)

    def from_nf(av):
        return any(any(l[0] == r[0] and l[1][:len(r[1])] == r[1] for r in nf_locs) for l in _aliases(av))
    edge_ws = [ev for ev in evs if ev.kind == "write" and ev.wkind.startswith("mutate:ext:add_")]
    graphs = frozenset(l for ev in edge_ws for l in _aliases(ev.recv))
    if not edge_ws:
        rep.error("R1", "C12.4", ff.qname, "graph-built-from-normal-form",
                  "is_finite builds no graph object through add_edge / add_edges_from; the rule cannot follow it", site=site(ff))
    else:
        vals = [x for ev in edge_ws for x in _flat(ev.value)]
        ob.decide("R1", "C12.4", ff, "graph-built-from-normal-form",
                  bool(nf) and any(from_nf(x) for x in vals) and
                  not any(any(_is_head(l) or _is_body_elem(l) for l in _aliases(x)) and not from_nf(x) for x in vals),
                  "the edges come from the productions of to_normal_form()'s result",
                  "the finiteness graph is not built from the normal form (epsilon / unit / useless productions create "
                  "or hide cycles)", sf, site=edge_ws[0].site.to_json())
        ob.decide("R1", "C12.4", ff, "edges-start-at-the-head", any(_is_head(l) for x in vals for l in _aliases(x)),
                  "edges leave the head of the production", "no edge of the finiteness graph starts at a production head",
                  sf, site=edge_ws[0].site.to_json())
        idx = sorted({ev.args[0].const for ev in evs if ev.kind == "subscript" and ev.args and ev.args[0].has_const()
                      and isinstance(ev.args[0].const, int) and any(_is_body(l) for l in _aliases(ev.recv))
                      and ev.result is not None and any(_aliases(ev.result) & _aliases(x) for x in vals)})
        any_idx = any(ev.kind == "subscript" and ev.args and ev.args[0].has_const() and
                      any(_is_body(l) for l in _aliases(ev.recv)) for ev in evs)
        whole_b = any(ev.kind == "iter" and any(_is_body(l) for l in _aliases(ev.recv)) for ev in evs) or \
            any(_is_body(l) for x in vals for l in _aliases(x)) or \
            (not any_idx and any(_is_body_elem(l) for x in vals for l in _aliases(x)))
        if whole_b or (0 in idx and (1 in idx or -1 in idx)):
            rep.holds("R1", "C12.4", ff.qname, "edges-to-both-body-symbols",
                      "a binary body contributes an edge to each of its two symbols", site=edge_ws[0].site.to_json())
        elif idx:
            rep.violation("R1", "C12.4", ff.qname, "edges-to-both-body-symbols",
                          "only position(s) %s of a binary body get an edge: a cycle through the other symbol is missed "
                          "(an infinite language is called finite)" % idx, site=edge_ws[0].site.to_json())
        else:
            rep.error("R1", "C12.4", ff.qname, "edges-to-both-body-symbols",
                      "cannot see which body symbols receive an edge; the rule cannot follow it", site=site(ff))
        consumers = [ev for ev in evs if ev.kind in ("ecall", "bcall", "call") and not (ev.callee or "").endswith(
            ("add_edge", "add_edges_from", "add_node", "add_nodes_from", "DiGraph", "MultiDiGraph"))
            and any(_aliases(a) & graphs for a in _all_avs(ev))]
        ob.decide("R1", "C12.4", ff, "graph-reaches-the-cycle-test", bool(consumers),
                  "the graph that received the edges is handed to the cycle test",
                  "the graph that receives the edges is never examined (the verdict cannot depend on it)", sf,
                  site=site(ff))
    ob.decide("R1", "C12.4", ff, "is_finite-both-answers", both_answers(sf), "both answers reachable",
              "is_finite can only give one answer", sf, site=site(ff))

    # ------------------------------------------------------------------ C12.5 get_words
    fw = prog.method("CFG", "get_words")
    sw = interp.run_entry(fw, CFG)
    fn_nodes = code_nodes(prog, fw)
    evs = own(sw)           # helper-frame events carry the facts / control dependences of their call sites
    yields = [ev for ev in evs if ev.kind == "yield"]
    nfw = [ev for ev, _ in calls(sw, "to_normal_form", own=True)]
    nfw_locs = frozenset(l for ev in nfw for l in _aliases(ev.result) if l != SELF)

    def from_nfw(av):
        return any(any(l[0] == r[0] and l[1][:len(r[1])] == r[1] for r in nfw_locs) for l in _aliases(av))

    def is_start_loc(l):
        return _path_ends(l, "_start_symbol")
    # tests against a start symbol, by the text of the test (used only to link branch facts to compare events of the
    # same run: renaming a local changes both sides alike)
    start_tests = {ast.unparse(ev.node) for ev in evs if ev.kind == "compare" and
                   any(is_start_loc(l) for a in ev.args if a is not None for l in _aliases(a))}

    def sub_exprs(e):
        return {ast.unparse(x) for x in ast.walk(e) if isinstance(x, ast.Compare)}

    def helper_in_facts(ev):
        return any(isinstance(x, ast.Call) and isinstance(x.func, ast.Attribute) and x.func.attr.startswith("_")
                   for e, _ in resolved_facts(fn_nodes, ev.facts) for x in ast.walk(e))
    if not yields:
        rep.error("R1", "C12.5", fw.qname, "yields", "get_words yields nothing the analysis can see; the rule cannot "
                  "follow it", site=site(fw))
        yields = []
    MAXL = ("p:max_length", ())

    def nullable_guarded(ev):
        return any(_is_tag(d, "NULLABLE") and d[1] == SELF for d in ev.ctrl | ev.xctrl) and \
            not any(_is_tag(d, "GENERATING") for d in ev.ctrl | ev.xctrl)
    empties = [ev for ev in yields if nullable_guarded(ev)]
    others = [ev for ev in yields if ev not in empties]

    def is_zero(n):
        return isinstance(n, ast.Constant) and n.value == 0 and not isinstance(n.value, bool)

    def is_bound(n):
        return isinstance(n, ast.Name) and n.id == "max_length"

    def excludes_zero(ev):
        """the facts on the path say the bound is not 0 (any spelling of `max_length != 0`, or `max_length > 0`,
        `max_length >= 1`, `1 <= max_length` with the right polarity)"""
        if excludes_value(fn_nodes, ev.facts, is_zero):
            return True
        for e, pol in resolved_facts(fn_nodes, ev.facts):
            if isinstance(e, ast.Compare) and len(e.ops) == 1:
                l, op, r = e.left, e.ops[0], e.comparators[0]
                if is_bound(r) and not is_bound(l):
                    flip = {ast.Lt: ast.Gt, ast.LtE: ast.GtE, ast.Gt: ast.Lt, ast.GtE: ast.LtE}
                    l, r = r, l
                    op = flip.get(type(op), type(op))()
                if is_bound(l) and isinstance(r, ast.Constant) and isinstance(r.value, int):
                    c = r.value
                    if pol and ((isinstance(op, ast.Gt) and c >= 0) or (isinstance(op, ast.GtE) and c >= 1)):
                        return True
                    if not pol and ((isinstance(op, ast.LtE) and c >= 0) or (isinstance(op, ast.Lt) and c >= 1)):
                        return True
        return False
    ob.decide("R1", "C12.5", fw, "empty-word-under-start-in-nullable",
              bool(empties) and all(_f("_start_symbol") in (ev.ctrl | ev.xctrl) for ev in empties),
              "the empty word is yielded exactly under `start symbol in nullable symbols`",
              "get_words has no yield guarded by `start symbol in nullable symbols` (the empty word is lost, or yielded "
              "unconditionally)", sw, site=(yields[0].site.to_json() if yields else site(fw)))
    if empties:
        bad = [ev for ev in empties if excludes_zero(ev)]
        ob.decide("R1", "C12.5", fw, "empty-word-independent-of-bound", len(bad) < len(empties) or not bad,
                  "the empty word is yielded for every bound, 0 included",
                  "the empty word is only yielded when the bound is not 0: get_words(0) loses it", sw,
                  site=(bad[0] if bad else empties[0]).site.to_json())
    if others:
        def start_tested(ev):
            for e, pol in resolved_facts(fn_nodes, ev.facts):
                for c in ast.walk(e):
                    if isinstance(c, ast.Compare) and len(c.ops) == 1 and ast.unparse(c) in start_tests:
                        if isinstance(c.ops[0], (ast.Eq, ast.Is)) and (pol or c is not e):
                            return True
                        if isinstance(c.ops[0], (ast.NotEq, ast.IsNot)) and (not pol or c is not e):
                            return True
            return False
        bad = [ev for ev in others if not start_tested(ev)]
        if bad and (not start_tests or any(helper_in_facts(ev) for ev in bad)) and start_tests is not None and \
                any(helper_in_facts(ev) for ev in bad):
            rep.error("R1", "C12.5", fw.qname, "words-only-for-the-start-symbol",
                      "a word is yielded under a test made by a helper the rule cannot see through", site=bad[0].site.to_json())
        else:
            ob.decide("R1", "C12.5", fw, "words-only-for-the-start-symbol", not bad,
                      "a word is yielded only under an equality test against the start symbol",
                      "a word is yielded without an equality test against the start symbol (words of other variables "
                      "leak out)", sw, site=(bad[0] if bad else others[0]).site.to_json())
        prod_iters = [ev for ev in evs if ev.kind == "iter" and any(_path_ends(l, "_productions") for l in _aliases(ev.recv))]
        bad = [ev for ev in prod_iters if not from_nfw(ev.recv)]
        if not prod_iters:
            rep.error("R1", "C12.5", fw.qname, "enumeration-runs-on-the-normal-form",
                      "get_words has no loop over a production set the rule can see; cannot follow", site=site(fw))
        else:
            ob.decide("R1", "C12.5", fw, "enumeration-runs-on-the-normal-form", bool(nfw) and not bad,
                      "every production loop of the enumeration runs over the productions of to_normal_form()'s result",
                      "a production loop of get_words runs over productions that are not the normal form's (the dynamic "
                      "programme assumes bodies of one terminal or two variables)", sw,
                      site=(bad[0] if bad else prod_iters[0]).site.to_json())
        bad = [ev for ev in others if not excludes_zero(ev)]
        ob.decide("R1", "C12.5", fw, "no-word-for-bound-zero", not bad,
                  "a non-empty word can only be yielded when the bound is not 0",
                  "a non-empty word can be yielded although the bound is 0", sw,
                  site=(bad[0] if bad else others[0]).site.to_json())
        # the value of `a + b` on lists lives at the fresh location named after the BinOp node
        concat_pts = {":%d:%d" % (ev.node.lineno, ev.node.col_offset) for ev in evs if ev.kind == "concat"
                      and any(a is not None and a.types and "list" in a.types for a in ev.args)}
        # ... and a copy of it (`list(word)`, `word.copy()`, `word[:]`) is still that word
        copies = []          # (position of the copying call, aliases of what it copies)
        for e2 in evs:
            if e2.kind == "bcall" and (e2.callee or "") in ("list", "tuple", "copy", "sorted", "deepcopy") and hasattr(e2.node, "lineno"):
                src = frozenset().union(*[_aliases(a) for a in list(e2.args) + ([e2.recv] if e2.recv is not None else [])])
                copies.append((":%d:%d" % (e2.node.lineno, e2.node.col_offset), src))

        def sources(av):
            out = set(_aliases(av))
            for _ in range(3):
                for pt, src in copies:
                    if any(l[0].startswith("fresh:") and re.search(re.escape(pt) + r"(\D|$)", l[0]) for l in out):
                        out |= src
            return out
        longer = [ev for ev in others if any(l[0].startswith("fresh:") and any(
            re.search(re.escape(pt) + r"(\D|$)", l[0]) for pt in concat_pts) for l in sources(ev.value))]
        if not longer:
            rep.error("R1", "C12.5", fw.qname, "concatenated-words-duplicate-guarded",
                      "no yielded word is the concatenation of two shorter ones; the rule cannot follow this enumeration",
                      site=site(fw))
        else:
            def dup_guarded(ev):
                for e, pol in resolved_facts(fn_nodes, ev.facts):
                    if isinstance(e, ast.Compare) and len(e.ops) == 1 and (
                            (isinstance(e.ops[0], ast.NotIn) and pol) or (isinstance(e.ops[0], ast.In) and not pol)):
                        return True
                return False
            bad = [ev for ev in longer if not dup_guarded(ev)]
            ob.decide("R1", "C12.5", fw, "concatenated-words-duplicate-guarded", not bad,
                      "a concatenated word is yielded only under a `not already present` test",
                      "a concatenated word is yielded without a membership test: an ambiguous grammar yields it twice", sw,
                      site=(bad[0] if bad else longer[0]).site.to_json())
            # the store consulted by that test is shared by all productions of one head: it is neither selected by the
            # production itself nor created afresh inside the loop over the productions
            fact_texts = {ev_.site.line: {ast.unparse(c) for e, _ in resolved_facts(fn_nodes, ev_.facts) for c in ast.walk(e)
                                          if isinstance(c, ast.Compare)} for ev_ in longer}
            all_txt = set().union(*fact_texts.values()) if fact_texts else set()
            tests = [m for m in evs if m.kind == "member" and ast.unparse(m.node) in all_txt and m.recv is not None]
            prod_loop_lines = {e2.site.line for e2 in prod_iters}

            def is_production(l):
                return _path_ends(l, "_productions", "[]")
            why_bad, where = None, None
            for m in tests:
                cont = _aliases(m.recv)
                getters = [g for g in evs if g.kind in ("bcall", "subscript") and g.result is not None and
                           (_aliases(g.result) & cont) and (g.kind == "subscript" or (g.callee or "") in ("setdefault", "get"))
                           and g.args]
                keyed_prod = [g for g in getters if any(is_production(l) for x in _flat(g.args[0]) for l in _aliases(x))]
                if keyed_prod and not any(any(_is_head(l) for x in _flat(g.args[0]) for l in _aliases(x)) for g in getters):
                    why_bad, where = "the store of already-known words is selected by the production, not by its head: two " \
                        "productions of one head that derive the same word both yield it", keyed_prod[0]
                    break
                cmp_ = m.node if isinstance(m.node, ast.Compare) else None
                name = cmp_.comparators[0].id if cmp_ is not None and isinstance(cmp_.comparators[0], ast.Name) else None
                if name is not None:
                    def _creation(v):
                        return (isinstance(v, ast.Call) and isinstance(v.func, ast.Name) and v.func.id in ("set", "list", "dict")
                                and not v.args) or (isinstance(v, (ast.Set, ast.List, ast.Dict)) and
                                                    not getattr(v, "elts", None) and not getattr(v, "keys", None))
                    defs_ = [(st, fn_) for fn_ in fn_nodes for st in ast.walk(fn_) if isinstance(st, ast.Assign)
                             and any(isinstance(t_, ast.Name) and t_.id == name for t_ in st.targets)]
                    if defs_ and all(_creation(st.value) for st, _ in defs_):
                        for st, fn_ in defs_:
                            for lp in ast.walk(fn_):
                                if isinstance(lp, ast.For) and lp.lineno in prod_loop_lines and any(x is st for x in ast.walk(lp)):
                                    why_bad, where = "the store of already-known words is created anew for every production: " \
                                        "two productions of one head that derive the same word both yield it", m
                if why_bad:
                    break
            if tests:
                ob.decide("R1", "C12.5", fw, "duplicate-store-shared-per-head", why_bad is None,
                          "the duplicate test consults a store shared by all productions of the head",
                          why_bad or "", sw, site=(where or tests[0]).site.to_json())

            def bound_read(ev):
                """a branch fact on the path compares the bound with something that is not a constant (the current
                length), or a loop on the path iterates a range computed from the bound"""
                for e, pol in resolved_facts(fn_nodes, ev.facts):
                    for c in ast.walk(e):
                        if isinstance(c, ast.Compare) and len(c.ops) == 1:
                            sides = [c.left, c.comparators[0]]
                            for a_, b_ in (sides, sides[::-1]):
                                if any(is_bound(x) for x in ast.walk(a_)) and not isinstance(b_, ast.Constant) and \
                                        not (isinstance(b_, ast.UnaryOp) and isinstance(b_.operand, ast.Constant)):
                                    return True
                return False
            range_loops = [e2 for e2 in evs if e2.kind in ("iter", "bcall") and (e2.callee or "iter") in ("iter", "range")
                           and any(MAXL in deps_of(a) for a in _all_avs(e2))]
            bad = [ev for ev in longer if not bound_read(ev)]
            if bad and range_loops:
                bad = []
            ob.decide("R1", "C12.5", fw, "concatenated-words-under-the-length-bound", not bad,
                      "concatenated words are yielded under a test of the current length against the bound",
                      "a concatenated word is yielded on a path that never compares a length with max_length", sw,
                      site=(bad[0] if bad else longer[0]).site.to_json())
    rep.stats.update(eng.stats())
    rep.floor = 30
