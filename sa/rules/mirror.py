"""R7 sibling agreement of the two derivation listings (C15).

`ParseTree.get_leftmost_derivation` and `get_rightmost_derivation` are mirror images: each walks the sons (left to
right / right to left), lists the son's own derivation between the part already rewritten (the accumulator) and the
part not yet touched, and then adds what the son finally derives to the accumulator.  Whatever a son contributes to
the accumulator when its own list adds no further step - a terminal leaf contributes its value, a variable rewritten to
epsilon contributes nothing - does not depend on the direction of the walk.  So the two functions must update their
accumulator by the same case analysis.  Rule (contradiction between siblings, Engler et al.): the table

    valuation of the branch conditions of the loop body  ->  kinds of accumulator updates that execute

is computed for both functions on alpha-normalised names and must be equal.  If one sibling guards the update with a
test the other does not have, one of them is wrong."""
from __future__ import annotations

import ast
import builtins

from .flow import block_atoms, assignments, _eval_test


def _son_loop(fn):
    for lp in ast.walk(fn):
        if isinstance(lp, ast.For) and "sons" in ast.unparse(lp.iter):
            return lp
    # the loop that makes the recursive call (whatever it iterates: an index range, a reversed order kept in a local)
    for lp in ast.walk(fn):
        if isinstance(lp, ast.For) and any(isinstance(c, ast.Call) and isinstance(c.func, ast.Attribute) and
                                           c.func.attr == getattr(fn, "name", None) for c in ast.walk(lp)):
            return lp
    return None


def delegate(fn, helpers):
    """`return self._worker(flag)` with a constant flag: (worker node, {parameter: constant}) - the two listings may be
    one private function specialised by a boolean"""
    for r in ast.walk(fn):
        if isinstance(r, ast.Return) and isinstance(r.value, ast.Call):
            c = r.value
            nm = c.func.attr if isinstance(c.func, ast.Attribute) else getattr(c.func, "id", None)
            h = (helpers or {}).get(nm) if nm and nm.startswith("_") else None
            if h is None:
                continue
            params = [a.arg for a in h.args.posonlyargs + h.args.args]
            if isinstance(c.func, ast.Attribute) and params:
                params = params[1:]
            fixed = {}
            for prm, a in zip(params, c.args):
                if isinstance(a, ast.Constant) and isinstance(a.value, bool):
                    fixed[prm] = a.value
            for kw in c.keywords:
                if kw.arg and isinstance(kw.value, ast.Constant) and isinstance(kw.value.value, bool):
                    fixed[kw.arg] = kw.value.value
            if fixed:
                return h, fixed
    return None, None


def _accumulator(fn, loop):
    """the list initialised before the loop that takes part in the appended sentential forms and is updated in the loop"""
    inits = [s.targets[0].id for s in fn.body if isinstance(s, ast.Assign) and len(s.targets) == 1 and
             isinstance(s.targets[0], ast.Name) and isinstance(s.value, ast.List) and not s.value.elts]
    updated = set()
    for s in ast.walk(loop):
        if isinstance(s, (ast.Assign, ast.AugAssign)):
            for t in (s.targets if isinstance(s, ast.Assign) else [s.target]):
                if isinstance(t, ast.Name):
                    updated.add(t.id)
        if isinstance(s, ast.Call) and isinstance(s.func, ast.Attribute) and s.func.attr in ("append", "extend") and \
                isinstance(s.func.value, ast.Name):
            updated.add(s.func.value.id)
    cands = [n for n in inits if n in updated]
    return cands[0] if len(cands) == 1 else None


def _alpha(loop, acc, fn=None):
    """How the names of the loop are made comparable between the two siblings: a name stands for its role, not for its
    spelling or for how many other locals precede it - the accumulator is ACC, the loop targets are T0, T1, .., a local
    assigned once in the loop body stands for the expression assigned to it (inlined), the recursive call is REC."""
    targets = {}
    for n in ast.walk(loop.target):
        if isinstance(n, ast.Name):
            targets[n.id] = "T%d" % len(targets)
    defs = {}
    for st in ast.walk(loop):
        if isinstance(st, ast.Assign) and len(st.targets) == 1 and isinstance(st.targets[0], ast.Name):
            defs.setdefault(st.targets[0].id, []).append(st.value)
        elif isinstance(st, ast.AugAssign) and isinstance(st.target, ast.Name):
            defs.setdefault(st.target.id, []).extend([st.value, st.value])       # not a plain definition
    single = {k: v[0] for k, v in defs.items() if len(v) == 1 and k != acc and k not in targets}
    return {"acc": acc, "targets": targets, "defs": single, "rec": getattr(fn, "name", None)}


def _norm(e, names, depth=0):
    e = ast.parse(ast.unparse(e), mode="eval").body

    class R(ast.NodeTransformer):
        def visit_Name(self, node):
            if node.id == names["acc"]:
                return ast.Name(id="ACC", ctx=ast.Load())
            if node.id in names["targets"]:
                return ast.Name(id=names["targets"][node.id], ctx=ast.Load())
            if node.id in names["defs"] and depth < 5:
                return ast.parse("(" + _norm(names["defs"][node.id], names, depth + 1) + ")", mode="eval").body
            return ast.Name(id=node.id, ctx=ast.Load())

        def visit_Attribute(self, node):
            self.generic_visit(node)
            if names.get("rec") and node.attr == names["rec"]:
                node.attr = "REC"
            return node
    return ast.unparse(ast.fix_missing_locations(R().visit(e)))


def _update_kind(stmt, acc, names):
    """classification of one accumulator update, independent of operand order and of the spelling of concatenation"""
    def operands(e):
        if isinstance(e, ast.BinOp) and isinstance(e.op, ast.Add):
            return operands(e.left) + operands(e.right)
        return [_norm(e, names)]
    if isinstance(stmt, ast.Assign) and len(stmt.targets) == 1 and isinstance(stmt.targets[0], ast.Name) and \
            stmt.targets[0].id == acc:
        rest = set(operands(stmt.value)) - {"ACC", "list(ACC)", "ACC.copy()", "ACC[:]"}
        return ("concat", tuple(sorted(rest))) if rest else None       # `acc = list(acc)` adds nothing
    if isinstance(stmt, ast.AugAssign) and isinstance(stmt.target, ast.Name) and stmt.target.id == acc:
        return ("concat", tuple(sorted(set(operands(stmt.value)))))
    if isinstance(stmt, ast.Expr) and isinstance(stmt.value, ast.Call) and isinstance(stmt.value.func, ast.Attribute) and \
            isinstance(stmt.value.func.value, ast.Name) and stmt.value.func.value.id == acc and stmt.value.args:
        if stmt.value.func.attr == "extend":
            return ("concat", (_norm(stmt.value.args[0], names),))
        if stmt.value.func.attr == "append":
            return ("concat", ("[%s]" % _norm(stmt.value.args[0], names),))
    return None


def update_table(fn, fixed=None):
    """(table, why): table = frozenset of (valuation of the atoms that guard accumulator updates, executed kinds);
    `fixed` = {parameter: bool} values the function is specialised by (its tests on those parameters are decided)"""
    loop = _son_loop(fn)
    if loop is None:
        return None, "no loop over the sons"
    acc = _accumulator(fn, loop)
    if acc is None:
        return None, "no single accumulator list"
    names = _alpha(loop, acc, fn)
    atoms = block_atoms(loop.body)
    models = assignments(atoms)
    if models is None:
        return None, "too many branch conditions"
    if fixed:
        fk = {k: fixed[a.id] for k, a in atoms.items() if isinstance(a, ast.Name) and a.id in fixed}
        models = [m for m in models if all(m[k] == v for k, v in fk.items())]
        atoms = {k: a for k, a in atoms.items() if k not in fk}
        models = [{**m} for m in models]

    def run(block, asg, out):
        for s in block:
            if isinstance(s, ast.If):
                run(s.body if _eval_test(s.test, asg) else s.orelse, asg, out)
            elif isinstance(s, (ast.For, ast.While)):
                continue
            else:
                k = _update_kind(s, acc, names)
                if k is not None:
                    out.append(k)
    # only the atoms that actually decide an accumulator update matter
    rows = {}
    for asg in models:
        out = []
        run(loop.body, asg, out)
        rows[tuple(sorted(asg.items()))] = tuple(out)
    deciding = set()
    for key in atoms:
        for asg in models:
            flipped = dict(asg)
            flipped[key] = not asg[key]
            if tuple(sorted(flipped.items())) in rows and \
                    rows[tuple(sorted(asg.items()))] != rows[tuple(sorted(flipped.items()))]:
                deciding.add(key)
    table = set()
    for asg in models:
        guard = tuple(sorted((_norm(atoms[k], names), v) for k, v in asg.items() if k in deciding))
        table.add((guard, rows[tuple(sorted(asg.items()))]))
    return frozenset(table), ""
