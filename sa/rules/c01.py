"""C01 - acceptance; determinise / epsilon-removal / minimise / copy."""
from __future__ import annotations

import ast

from ..model import ENFA, NFA, DFA, TF, NTF, FA_EPSILON
from . import names
from .common import site_of
from .flow import (Oblig, calls, events, receivers, START, FINAL, STATES, SYMBOLS, DELTA_SYM, DELTA_EPS, ECL, ELEM_ECL,
                   SELF, qual_all, result_locs, deps_of, is_worklist_closure, undecidable, arg_deps)

EXPLANATION = (
    "Decides, on every path and every call chain: the set whose finality decides EpsilonNFA.accepts is epsilon-closed "
    "(R2); every set that becomes a DFA state under the subset construction is epsilon-closed and its finality is read "
    "over that same set (R2); epsilon-removal reads outgoing edges and finality over eclose(state) (R2+R1); copy / "
    "to_deterministic / remove_epsilon_transitions / minimize read every component of their operand with the right "
    "roles (R1); advertised result classes and the class invariants behind them (R7); eclose is a closure worklist "
    "over epsilon successors (R10a); merged-state names are injective (R5). Not decided: that the subset "
    "construction, Hopcroft refinement and the acceptance loops compute the right values on every automaton and word.")


def run(eng, rep, tier):
    prog, interp = eng.prog, eng.interp
    rep.explanation = EXPLANATION
    rep.assumptions = ["EpsilonNFA.eclose is the source of the qualifier ECL; its body is validated as a closure "
                       "worklist over epsilon successors in obligation C01.5e"]
    ob = Oblig(eng, rep, "C01")

    # ---------------------------------------------------------------- C01.1 accepts (EpsilonNFA only)
    fi = prog.method("EpsilonNFA", "accepts")
    summ = interp.run_entry(fi, ENFA)
    tests = [(ev, ch) for ev, ch in calls(summ, "is_final_state", own=True)]
    tests += [(ev, ch) for ev, ch in events(summ, "member", own=True)
              if ev.recv is not None and FINAL() in ev.recv.alias]
    ok, bad, n = qual_all(tests, 0, ELEM_ECL())
    ob.decide("R2", "C01.1", fi, "finality-range", ok,
              "the set whose finality decides the answer is ECL(self) on every path (%d finality tests)" % n,
              "finality is tested on a set that is not epsilon-closed on some path" if n else
              "no finality test found in accepts", summ, site=(bad.site.to_json() if bad else site_of(prog, fi, fi.node)))
    for tag, role in ((START(), "answer-depends-on-start"), (FINAL(), "answer-depends-on-final"),
                      (DELTA_SYM(), "answer-depends-on-symbol-edges"), (DELTA_EPS(), "answer-depends-on-epsilon-edges")):
        ob.decide("R1", "C01.1", fi, role, tag in deps_of(summ.ret),
                  "return value of accepts depends on %s" % role.split("-on-")[1],
                  "return value of EpsilonNFA.accepts does not depend on %s" % role.split("-on-")[1], summ,
                  site=site_of(prog, fi, fi.node))
    for cname, cq in (("NondeterministicFiniteAutomaton", NFA), ("DeterministicFiniteAutomaton", DFA)):
        f2 = prog.method(cname, "accepts")
        if f2 is fi:
            rep.error("R1", "C01.1", f2.qname, "override", "%s no longer overrides accepts" % cname)
            continue
        s2 = interp.run_entry(f2, cq)
        for tag, role in ((START(), "answer-depends-on-start"), (FINAL(), "answer-depends-on-final"),
                          (DELTA_SYM(), "answer-depends-on-symbol-edges")):
            ob.decide("R1", "C01.1", f2, role, tag in deps_of(s2.ret), "return value depends on it",
                      "return value of %s.accepts does not depend on %s" % (cname, role.split("-on-")[1]), s2,
                      site=site_of(prog, f2, f2.node))

    # ---------------------------------------------------------------- C01.2 subset construction
    fi = prog.method("EpsilonNFA", "to_deterministic")
    summ = interp.run_entry(fi, ENFA)
    merged = list(calls(summ, "to_single_state"))
    ok, bad, n = qual_all(merged, 0, ECL())
    ob.decide("R2", "C01.2a", fi, "dfa-state-arg", ok and n >= 2,
              "every set merged into a DFA state is ECL(self) (%d merge sites)" % n,
              "a set that becomes a DFA state is not epsilon-closed on some path", summ,
              site=(bad.site.to_json() if bad else site_of(prog, fi, fi.node)))
    fin = [(ev, ch) for ev, ch in events(summ, "member") if ev.recv is not None and FINAL() in ev.recv.alias]
    fin += list(calls(summ, "is_final_state"))
    ok, bad, n = qual_all(fin, 0, ELEM_ECL())
    ob.decide("R2", "C01.2b", fi, "dfa-final-range", ok,
              "finality of a DFA state is decided over an epsilon-closed set (%d tests)" % n,
              "finality of a DFA state is decided over a set that is not epsilon-closed", summ,
              site=(bad.site.to_json() if bad else site_of(prog, fi, fi.node)))
    res = result_locs(summ)
    for recv_q, label in ((ENFA, "EpsilonNFA"), (NFA, "NondeterministicFiniteAutomaton")):
        f2 = prog.method(label, "to_deterministic")
        s2 = interp.run_entry(f2, recv_q)
        r2 = result_locs(s2)
        ob.flow("R1", "C01.2c", f2, s2, "start->add_start_state:" + label, calls(s2, "add_start_state", recv_locs=r2), 0,
                START(), "the DFA start state is built from START")
        ob.flow("R1", "C01.2c", f2, s2, "final=>add_final_state:" + label, calls(s2, "add_final_state", recv_locs=r2), None,
                FINAL(), "a DFA state is made final under a test on FINAL", ctrl_ok=True)
        ob.flow("R1", "C01.2c", f2, s2, "delta->add_transition#2:" + label, calls(s2, "add_transition", recv_locs=r2), 2,
                DELTA_SYM(), "DFA successors come from the symbol edges")
        ob.flow("R1", "C01.2c", f2, s2, "symbols->add_transition#1:" + label, calls(s2, "add_transition", recv_locs=r2), 1,
                SYMBOLS(), "DFA edges range over the alphabet")
        ob.decide("R7", "C01.5", f2, "return-class:" + label, s2.ret.only(DFA),
                  "every return path yields a DeterministicFiniteAutomaton",
                  "to_deterministic can return something that is not a DeterministicFiniteAutomaton (%s)" % s2.ret.short(),
                  s2, site=site_of(prog, f2, f2.node))
    ob.flow("R1", "C01.2c", fi, summ, "eps->dfa-states", merged, 0, DELTA_EPS(),
            "merged DFA states cover the epsilon successors")

    # ---------------------------------------------------------------- C01.3 epsilon removal
    fi = prog.method("EpsilonNFA", "remove_epsilon_transitions")
    summ = interp.run_entry(fi, ENFA)
    res = result_locs(summ)
    reads = [(ev, ch) for ev, ch in calls(summ, "__call__", own=True)
             if ev.recv is not None and ev.recv.types and ev.recv.types & {NTF, TF}
             and len(ev.args) > 1 and not (ev.args[1].only(FA_EPSILON))]
    ok, bad, n = qual_all(reads, 0, ELEM_ECL())
    ob.decide("R2", "C01.3a", fi, "delta-src", ok,
              "outgoing symbol edges are read from the elements of eclose(state) (%d reads)" % n,
              "outgoing edges are read from a state set that is not the epsilon closure", summ,
              site=(bad.site.to_json() if bad else site_of(prog, fi, fi.node)))
    fin = [(ev, ch) for ev, ch in events(summ, "member", own=True) if ev.recv is not None and FINAL() in ev.recv.alias]
    fin += list(calls(summ, "is_final_state", own=True))
    ok, bad, n = qual_all(fin, 0, ELEM_ECL())
    ob.decide("R2", "C01.3b", fi, "final-guard", ok,
              "finality copied to the result is read over eclose(state) (%d tests)" % n,
              "finality of the result is not read over the epsilon closure of the state", summ,
              site=(bad.site.to_json() if bad else site_of(prog, fi, fi.node)))
    ob.flow("R1", "C01.3c", fi, summ, "start->add_start_state", calls(summ, "add_start_state", recv_locs=res), 0, START(),
            "start states of the result come from START")
    ob.flow("R1", "C01.3c", fi, summ, "final=>add_final_state", calls(summ, "add_final_state", recv_locs=res), None, FINAL(),
            "final states of the result depend on FINAL", ctrl_ok=True)
    ob.flow("R1", "C01.3c", fi, summ, "delta->add_transition#2", calls(summ, "add_transition", recv_locs=res), 2,
            DELTA_SYM(), "edges of the result come from the symbol edges")
    ob.flow("R1", "C01.3c", fi, summ, "eps=>add_transition", calls(summ, "add_transition", recv_locs=res), None,
            DELTA_EPS(), "edges of the result are taken over epsilon successors", ctrl_ok=True)
    ob.decide("R7", "C01.5", fi, "return-class", summ.ret.only(NFA),
              "every return path yields a NondeterministicFiniteAutomaton",
              "remove_epsilon_transitions can return %s" % summ.ret.short(), summ, site=site_of(prog, fi, fi.node))

    # ---------------------------------------------------------------- C01.4 copy
    for cname, meth_cls in (("EpsilonNFA", "EpsilonNFA"), ("DeterministicFiniteAutomaton", "DeterministicFiniteAutomaton")):
        for recv_q, f2, s2 in receivers(eng, cname, "copy"):
            label = prog.classes[recv_q].name
            r2 = result_locs(s2)
            ob.flow("R1", "C01.4", f2, s2, "start->add_start_state:" + label, calls(s2, "add_start_state", recv_locs=r2), 0,
                    START(), "copy transfers START")
            ob.flow("R1", "C01.4", f2, s2, "final->add_final_state:" + label, calls(s2, "add_final_state", recv_locs=r2), 0,
                    FINAL(), "copy transfers FINAL")
            adds = list(calls(s2, "add_transition", own=True, recv_locs=r2))
            ob.flow("R1", "C01.4", f2, s2, "edge.dst->add_transition#2:" + label, adds, 2, DELTA_SYM(),
                    "copy transfers the symbol edges (target in position 2)")
            src_bad = [ev for ev, _ in adds if DELTA_SYM() in arg_deps(ev, 0) or DELTA_EPS() in arg_deps(ev, 0)]
            ob.decide("R1", "C01.4", f2, "edge.src->add_transition#0:" + label, bool(adds) and not src_bad,
                      "the source of a copied edge is the state the edge was read from",
                      "copy swaps edge direction: position 0 of add_transition receives a successor", s2,
                      site=(src_bad[0].site.to_json() if src_bad else site_of(prog, f2, f2.node)))
            if recv_q == ENFA:
                ob.flow("R1", "C01.4", f2, s2, "eps-edge->add_transition:" + label, adds, 2, DELTA_EPS(),
                        "copy transfers the epsilon edges")
            want = {ENFA: ENFA, NFA: ENFA, DFA: DFA}[recv_q]
            ob.decide("R7", "C01.5", f2, "return-class:" + label, s2.ret.only(want), "copy returns a fresh " + want.rsplit(".")[-1],
                      "copy returns %s" % s2.ret.short(), s2, site=site_of(prog, f2, f2.node))

    # ---------------------------------------------------------------- C01.5 class invariants
    check_invariants(eng, rep, ob)

    # ---------------------------------------------------------------- C01.6 minimize
    fi = prog.method("DeterministicFiniteAutomaton", "minimize")
    summ = interp.run_entry(fi, DFA)
    res = result_locs(summ)
    fins = list(calls(summ, "add_final_state", own=True, recv_locs=res))
    adds = list(calls(summ, "add_transition", own=True, recv_locs=res))
    ob.flow("R1", "C01.6", fi, summ, "states-filter", fins + adds, 0, START(),
            "states and edges of the result are restricted to what is reachable from START", must_all=True)
    ob.flow("R1", "C01.6", fi, summ, "target-filter", adds, 2, START(),
            "edge targets of the result are restricted to what is reachable from START", must_all=True)
    ob.flow("R1", "C01.6", fi, summ, "final=>add_final_state", fins, None, FINAL(), "finality read from FINAL", ctrl_ok=True)
    ob.flow("R1", "C01.6", fi, summ, "start->add_start_state", calls(summ, "add_start_state", own=True, recv_locs=res), 0,
            START(), "start state mapped through the block map")
    ob.flow("R1", "C01.6", fi, summ, "delta->add_transition#2", adds, 2, DELTA_SYM(), "edges come from the symbol edges")
    ob.flow("R1", "C01.6", fi, summ, "blocks-depend-on-final", adds, 2, FINAL(),
            "block names (partition) depend on FINAL")
    ob.decide("R7", "C01.5", fi, "return-class", summ.ret.only(DFA), "minimize returns a DeterministicFiniteAutomaton",
              "minimize can return %s" % summ.ret.short(), summ, site=site_of(prog, fi, fi.node))
    f2 = prog.method("EpsilonNFA", "minimize")
    for recv_q in (ENFA, NFA):
        s2 = interp.run_entry(f2, recv_q)
        det = list(calls(s2, "to_deterministic", own=True))
        mins = list(calls(s2, "minimize", own=True))
        ok = bool(det) and bool(mins) and all(ev.recv is not None and ev.recv.only(DFA) for ev, _ in mins)
        ob.decide("R3", "C01.6", f2, "minimize-of-determinised:" + prog.classes[recv_q].name, ok,
                  "minimize() of a non-DFA first determinises",
                  "EpsilonNFA.minimize does not minimise the determinised automaton", s2, site=site_of(prog, f2, f2.node))

    from .c02 import hopcroft_pending_rule
    hopcroft_pending_rule(eng, ob, "C01.6")
    # ---------------------------------------------------------------- C01.7 names
    names.check(eng, rep, "C01")
    # states and symbols live in the same dictionaries of the transition functions: sibling __eq__ must be symmetric
    from . import eqsym
    eqsym.check(eng, ob, "C01.8", "pyformlang.finite_automaton.finite_automaton_object.FiniteAutomatonObject")
    # optional identifiers of the constructors are compared with None (0 / '' are legitimate state names)
    from . import optid
    n_opt = optid.check(eng, rep, "C01", "C01.9",
                        [(prog.method("EpsilonNFA", "__init__"), ENFA), (prog.method("DeterministicFiniteAutomaton", "__init__"), DFA)],
                        names.ID_CLASSES)
    if n_opt < 1:       # DeterministicFiniteAutomaton.start_state (EpsilonNFA takes a set of start states)
        rep.error("R6", "C01.9", DFA, "optional-identifier-tested-against-None",
                  "the optional start state of the DFA constructor was not found (%d)" % n_opt)
    rep.stats.update(eng.stats())
    rep.floor = 40


def check_invariants(eng, rep, ob):
    prog, interp = eng.prog, eng.interp
    # eclose is a closure worklist over epsilon successors
    fi = prog.method("EpsilonNFA", "eclose")
    summ = interp.run_entry(fi, ENFA)
    ob.worklist("C01.5e", fi, "eclose-is-closure", "eclose is a worklist closure (pop / guarded push / mark)",
                "eclose is not a closure worklist")
    eps_reads = [ev for ev, _ in calls(summ, "__call__", own=True) if len(ev.args) > 1 and ev.args[1].only(FA_EPSILON)]
    ob.decide("R10a", "C01.5e", fi, "eclose-follows-epsilon", bool(eps_reads) and DELTA_EPS() in deps_of(summ.ret)
              and DELTA_SYM() not in deps_of(summ.ret),
              "the closure follows exactly the epsilon successors and contains its seed",
              "eclose does not follow exactly the epsilon edges", summ, site=site_of(prog, fi, fi.node))
    seed_ok = any(("p:state", ()) in deps_of(summ.ret) for _ in [0])
    ob.decide("R10a", "C01.5e", fi, "eclose-contains-seed", seed_ok, "the closure contains the state it starts from",
              "the state itself is not part of its epsilon closure", summ, site=site_of(prog, fi, fi.node))
    fi2 = prog.method("EpsilonNFA", "eclose_iterable")
    s2 = interp.run_entry(fi2, ENFA)
    ob.decide("R2", "C01.5e", fi2, "eclose_iterable-is-union-of-closures", ECL() in s2.ret.quals,
              "eclose_iterable returns a union of eclose(x) (qualifier established by interpreting its body)",
              "eclose_iterable does not return a union of epsilon closures on every path", s2,
              site=site_of(prog, fi2, fi2.node))
    # NFA.add_transition / the deterministic transition function refuse epsilon: every store they make (the delegated
    # add_transition call, the write into the table) lies on a path where the symbol was compared unequal to Epsilon()
    from .flow import own, code_nodes, excludes_value

    def _is_eps(n):
        return isinstance(n, ast.Call) and (getattr(n.func, "id", None) == "Epsilon" or getattr(n.func, "attr", None) == "Epsilon")
    f3 = prog.method("NondeterministicFiniteAutomaton", "add_transition")
    s3 = interp.run_entry(f3, NFA)
    stores = [ev for ev, _ in calls(s3, "add_transition", own=True)]
    bad = [ev for ev in stores if not excludes_value(code_nodes(prog, f3), ev.facts, _is_eps)]
    ob.decide("R7", "C01.5", f3, "nfa-rejects-epsilon", bool(stores) and not bad,
              "NFA.add_transition delegates only on a path where the symbol differs from Epsilon()",
              "NondeterministicFiniteAutomaton.add_transition can store an epsilon edge", s3,
              site=(bad[0].site.to_json() if bad else site_of(prog, f3, f3.node)))
    f4 = prog.functions[TF + ".add_transition"]
    s4 = interp.run_entry(f4, TF)
    stores = [ev for ev in own(s4) if ev.kind == "write" and ev.recv is not None and
              any(l[0] == "self" and l[1][:1] == ("_transitions",) for l in ev.recv.alias)]
    bad = [ev for ev in stores if not excludes_value(code_nodes(prog, f4), ev.facts, _is_eps)]
    ob.decide("R7", "C01.5", f4, "dfa-function-rejects-epsilon", bool(stores) and not bad,
              "the deterministic transition function writes its table only on a path where the symbol differs from "
              "Epsilon() (%d writes)" % len(stores),
              "TransitionFunction.add_transition can store an epsilon edge", s4,
              site=(bad[0].site.to_json() if bad else site_of(prog, f4, f4.node)))
    # a DFA's transition function is only ever the deterministic class
    tf = interp.field_table.get((DFA, "_transition_function"))
    ob.decide("R7", "C01.5", prog.method("DeterministicFiniteAutomaton", "__init__"), "dfa-transition-function-class",
              tf is not None and tf.only(TF),
              "DeterministicFiniteAutomaton._transition_function is always a TransitionFunction",
              "a DeterministicFiniteAutomaton can hold a transition function of class %s" % (tf.short() if tf else "?"),
              None, site=site_of(prog, prog.method("DeterministicFiniteAutomaton", "__init__"),
                                 prog.method("DeterministicFiniteAutomaton", "__init__").node))
    # Epsilon is never put into the alphabet
    f5 = prog.functions["pyformlang.finite_automaton.finite_automaton.FiniteAutomaton.add_transition"]
    s5 = interp.run_entry(f5, ENFA)
    from .flow import own, code_nodes, excludes_value

    def _is_eps(n):
        return isinstance(n, ast.Call) and (getattr(n.func, "id", None) == "Epsilon" or getattr(n.func, "attr", None) == "Epsilon")
    alpha = ("self", ("_input_symbols",))
    adds = [ev for ev in own(s5) if ev.kind == "write" and ev.recv is not None and alpha in ev.recv.alias
            and (ev.wkind or "").startswith("mutate:") and ev.value is not None]
    nodes5 = code_nodes(prog, f5)
    bad = [ev for ev in adds if not excludes_value(nodes5, ev.facts, _is_eps)]
    ob.decide("R7", "C01.5", f5, "epsilon-not-in-alphabet", bool(adds) and not bad,
              "add_transition puts a symbol into the alphabet only on a path where it differs from Epsilon() (%d insertions)"
              % len(adds),
              "Epsilon can enter _input_symbols through add_transition" if adds else
              "add_transition does not record the symbol in _input_symbols", s5,
              site=(bad[0].site.to_json() if bad else site_of(prog, f5, f5.node)))
