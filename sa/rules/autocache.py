"""Recognition of a *correct* memoisation (C19, rule R4a).

A query that writes `self._f` is an operand write - unless `_f` is a cache that can never go stale.  The discipline
that makes it one is structural and is checked here for a field that the model does not declare:

  1. private field; every assignment of `self._f` in the class family is an initialisation (in `__init__`, or a class
     attribute), a RESET (`= None`, an empty display, `.clear()`), or a FILL that sits under a test of the field itself
     (`if self._f is None:`, `if key not in self._f:`); stores inside the cached object (`self._f[k] = v`) count as
     fills;
  2. every public mutator (table MUTATORS of sa/model.py) of every concrete class that can reach a filling method, and
     that can write a field the cached value was computed from (its may-dependences), resets the field on every
     path: a top-level reset statement, or a top-level call of a method of the class / of `super()` that does;
  3. (checked by R4c, not here) the cached object is not returned itself when it is mutable.

If 1 fails the field is not a cache at all (the write is a plain operand write); if 2 fails the cache goes stale - the
message names the mutators that forget to reset it."""
from __future__ import annotations

import ast
from typing import Optional, Tuple

from ..model import MUTATORS


def _is_self_attr(node, field):
    return isinstance(node, ast.Attribute) and node.attr == field and isinstance(node.value, ast.Name) and \
        node.value.id == "self"


def _is_reset_value(v):
    if isinstance(v, ast.Constant) and v.value is None:
        return True
    if isinstance(v, (ast.Dict, ast.List, ast.Set, ast.Tuple)) and not (getattr(v, "elts", None) or getattr(v, "keys", None)):
        return True
    if isinstance(v, ast.Call) and isinstance(v.func, ast.Name) and v.func.id in ("dict", "set", "list") and not v.args:
        return True
    return False


def _mentions(test, fn, field):
    """the test reads self.<field>, directly or through a local bound to it (`cache = self._f`)"""
    aliases = {t.id for st in ast.walk(fn) if isinstance(st, ast.Assign) and _is_self_attr(st.value, field)
               for t in st.targets if isinstance(t, ast.Name)}
    return any(_is_self_attr(x, field) or (isinstance(x, ast.Name) and x.id in aliases) for x in ast.walk(test))


def _under_own_test(fn, node, field):
    """node sits in an `if` whose test mentions self.<field>"""
    def rec(cur, guards):
        if cur is node:
            return guards
        for ch in ast.iter_child_nodes(cur):
            g = guards
            if isinstance(cur, (ast.If, ast.While, ast.IfExp)) and ch is not cur.test:
                g = guards + [cur.test]
            r = rec(ch, g)
            if r is not None:
                return r
        return None
    guards = rec(fn, []) or []
    if any(_mentions(t, fn, field) for t in guards):
        return True
    # early-return idiom: an earlier statement of an enclosing block is `if <test on self.field>: return ...`
    def blocks(cur, path):
        for fieldname in ("body", "orelse", "finalbody"):
            blk = getattr(cur, fieldname, None)
            if isinstance(blk, list):
                for i, st in enumerate(blk):
                    if any(x is node for x in ast.walk(st)):
                        yield blk[:i]
                        yield from blocks(st, path + [cur])
    for before in blocks(fn, []):
        for st in before:
            if isinstance(st, ast.If) and not st.orelse and st.body and isinstance(st.body[-1], ast.Return) and \
                    _mentions(st.test, fn, field):
                return True
    return False


def _family(prog, cls_q):
    """classes that share the field: the MRO of cls_q and every subclass of the top-most repository class of it"""
    mro = [q for q in prog.classes[cls_q].mro if q in prog.classes]
    root = mro[-1]
    return sorted(set(mro) | set(prog.subclasses(root)))


def _is_reset_stmt(st, field):
    if isinstance(st, ast.Assign) and _is_reset_value(st.value):
        for t in st.targets:
            if _is_self_attr(t, field):
                return True
            if isinstance(t, ast.Subscript) and any(_is_self_attr(x, field) for x in ast.walk(t.value)):
                return True                      # a slot of a memo box set back to None
    if isinstance(st, ast.Expr) and isinstance(st.value, ast.Call) and isinstance(st.value.func, ast.Attribute) and \
            st.value.func.attr == "clear" and _is_self_attr(st.value.func.value, field):
        return True
    return False


def _state_writes(fn, field):
    """statements of the method that write some other attribute of self (assignment, del, or a mutating call on it)"""
    out = []
    for st in ast.walk(fn):
        if isinstance(st, (ast.Assign, ast.AugAssign, ast.Delete)):
            targets = st.targets if isinstance(st, (ast.Assign, ast.Delete)) else [st.target]
            for t in targets:
                base = t
                while isinstance(base, ast.Subscript):
                    base = base.value
                if isinstance(base, ast.Attribute) and isinstance(base.value, ast.Name) and base.value.id == "self" and \
                        base.attr != field:
                    out.append(st)
        elif isinstance(st, ast.Expr) and isinstance(st.value, ast.Call) and isinstance(st.value.func, ast.Attribute) and \
                st.value.func.attr in ("add", "append", "remove", "discard", "pop", "update", "clear", "insert", "extend",
                                       "setdefault", "popitem"):
            base = st.value.func.value
            while isinstance(base, ast.Subscript):
                base = base.value
            if isinstance(base, ast.Attribute) and isinstance(base.value, ast.Name) and base.value.id == "self" and \
                    base.attr != field:
                out.append(st)
    return out


def _accompanied(fn, stmt, field):
    """a reset sits in the block of `stmt` or in one of its enclosing blocks"""
    def rec(cur):
        for fieldname in ("body", "orelse", "finalbody", "handlers"):
            blk = getattr(cur, fieldname, None)
            if isinstance(blk, list):
                for st in blk:
                    if st is stmt or any(x is stmt for x in ast.walk(st)):
                        if any(_is_reset_stmt(o, field) for o in blk):
                            return True
                        return rec(st) if st is not stmt else False
        return False
    return rec(fn)


def _mentions_epsilon(test) -> bool:
    return any(isinstance(x, ast.Call) and (getattr(x.func, "id", None) == "Epsilon" or getattr(x.func, "attr", None) == "Epsilon")
               for x in ast.walk(test))


def _resets(prog, cls_q, fi, field, depth=0, eps_only=False) -> bool:
    """the method resets self.<field>: by a top-level statement (or a top-level call that does), or next to every
    statement in which it writes other state of the object (resets inside the branches that actually change something)"""
    writes = _state_writes(fi.node, field)
    if depth == 0 and writes and all(_accompanied(fi.node, w, field) for w in writes):
        return True
    stmts = []
    for st in fi.node.body:
        stmts.append(st)
        if isinstance(st, ast.For):          # `for t in ts: self.add_transition(..)`: the state only changes inside
            stmts.extend(st.body)
    if eps_only:
        # the cached value was computed from the epsilon edges alone: a mutator that resets it whenever the edge it adds /
        # removes is an epsilon edge (`if to_symbol(symb) == Epsilon(): self._f.clear()`) resets it whenever it matters
        for st in list(stmts):
            if isinstance(st, ast.If) and _mentions_epsilon(st.test):
                stmts.extend(st.body)
    for st in stmts:
        if isinstance(st, ast.Assign) and any(_is_self_attr(t, field) for t in st.targets) and _is_reset_value(st.value):
            return True
        call = st.value if isinstance(st, (ast.Expr, ast.Return, ast.Assign)) and isinstance(getattr(st, "value", None), ast.Call) \
            else None
        if call is not None and isinstance(call.func, ast.Attribute):
            f = call.func
            if f.attr == "clear" and _is_self_attr(f.value, field):
                return True
            if depth < 2:
                callee = None
                if isinstance(f.value, ast.Name) and f.value.id == "self":
                    callee = prog.find_method(cls_q, f.attr)
                elif isinstance(f.value, ast.Call) and isinstance(f.value.func, ast.Name) and f.value.func.id == "super" \
                        and fi.cls is not None:
                    callee = prog.find_method(cls_q, f.attr, after=fi.cls.qname)
                if callee is not None and _resets(prog, cls_q, callee, field, depth + 1, eps_only):
                    return True
    return False


def _written_fields(interp, fi, cls_q):
    """first-level fields of self that the method may write (through any callee)"""
    from ..effects import writes
    summ = interp.run_entry(fi, cls_q)
    return {l[1][0] for _ev, _ch, l in writes(summ) if l[0] == "self" and l[1]}


def _uses_field(fn, field) -> bool:
    return any(_is_self_attr(x, field) for x in ast.walk(fn))


def _per_call_scratch(prog, fam, field) -> bool:
    """`self._f` is working storage of one call: every public method of the class family from which a use of the field
    can be reached (through self.method() calls, three levels) assigns it a fresh value at the top level of its own body
    (`self._f = {}` / `= Helper(..)`), outside any branch - whatever an earlier call left there is never read."""
    methods = {}
    for q in fam:
        for m in prog.classes[q].methods.values():
            methods.setdefault(m.name, []).append(m)
    users = {n for n, ms in methods.items() if n != "__init__" and any(_uses_field(m.node, field) for m in ms)}
    if not users:
        return False

    def reaches(m, depth=0, seen=None):
        seen = seen or set()
        if m.name in users:
            return True
        if depth >= 3 or m.name in seen:
            return False
        seen = seen | {m.name}
        for c in ast.walk(m.node):
            if isinstance(c, ast.Call) and isinstance(c.func, ast.Attribute) and isinstance(c.func.value, ast.Name) and \
                    c.func.value.id in ("self", "cls") and c.func.attr in methods:
                if any(reaches(m2, depth + 1, seen) for m2 in methods[c.func.attr]):
                    return True
        return False

    def resets_first(m):
        for st in m.node.body:
            if isinstance(st, ast.Assign) and any(_is_self_attr(t, field) for t in st.targets) and \
                    isinstance(st.value, (ast.Call, ast.Dict, ast.List, ast.Set, ast.Constant, ast.DictComp, ast.ListComp, ast.SetComp)):
                return True
            if _uses_field(st, field):
                return False            # used before it is re-initialised
        return False
    n = 0
    for name, ms in methods.items():
        if name.startswith("_") and not (name.startswith("__") and name.endswith("__")):
            continue
        if name == "__init__":
            continue
        for m in ms:
            if m.kind == "property" and not reaches(m):
                continue
            if reaches(m):
                n += 1
                if not resets_first(m):
                    return False
    return n > 0


def judge(prog, abstract, cls_q: str, field: str, interp=None, dep_fields=None, eps_only=False) -> Tuple[Optional[bool], str]:
    """(True, reason) the field is a correctly invalidated cache; (False, reason) it is a cache that goes stale;
    (None, reason) it is not a cache at all."""
    if not field.startswith("_") or field.startswith("__"):
        return None, "not a private field"
    fam = _family(prog, cls_q)
    fills = []
    for q in fam:
        for m in prog.classes[q].methods.values():
            for node in ast.walk(m.node):
                if isinstance(node, (ast.Assign, ast.AugAssign, ast.AnnAssign)):
                    targets = node.targets if isinstance(node, ast.Assign) else [node.target]
                    for t in targets:
                        if _is_self_attr(t, field):
                            if m.name == "__init__" or (isinstance(node, ast.Assign) and _is_reset_value(node.value)):
                                continue
                            if _under_own_test(m.node, node, field):
                                fills.append((q, m))
                            elif _per_call_scratch(prog, fam, field):
                                return True, "per-call scratch table: every public method that can reach a use of it " \
                                             "re-initialises it first, so no value survives from one call to the next"
                            else:
                                return None, "%s.%s assigns self.%s unconditionally" % (prog.classes[q].name, m.name, field)
                        elif isinstance(t, ast.Subscript) and any(_is_self_attr(x, field) for x in ast.walk(t.value)):
                            if m.name != "__init__":
                                fills.append((q, m))
                elif isinstance(node, ast.Call) and isinstance(node.func, ast.Attribute) and \
                        node.func.attr in ("add", "append", "setdefault", "update", "extend", "insert") and \
                        any(_is_self_attr(x, field) for x in ast.walk(node.func.value)) and m.name != "__init__":
                    fills.append((q, m))
    if not fills:
        return None, "no fill of self.%s found" % field
    # a cache is only ever filled or reset as a whole: an entry taken out of it (pop / remove / discard / popitem / del)
    # by anything but a public mutator makes the next answer depend on the calls made before
    for q in fam:
        for m in prog.classes[q].methods.values():
            if m.name == "__init__" or m.name in MUTATORS.get(q, ()):
                continue
            for node in ast.walk(m.node):
                if isinstance(node, ast.Call) and isinstance(node.func, ast.Attribute) and \
                        node.func.attr in ("pop", "remove", "discard", "popitem", "popleft") and \
                        any(_is_self_attr(x, field) for x in ast.walk(node.func.value)):
                    return None, "%s.%s takes entries out of self.%s (%s): it is consumed, not kept" % (
                        prog.classes[q].name, m.name, field, node.func.attr)
                if isinstance(node, ast.Delete) and any(isinstance(t, ast.Subscript) and any(
                        _is_self_attr(x, field) for x in ast.walk(t.value)) for t in node.targets):
                    return None, "%s.%s deletes entries of self.%s: it is consumed, not kept" % (
                        prog.classes[q].name, m.name, field)
    missing = []
    n_mut = 0
    for q in fam:
        if q in abstract or q not in MUTATORS:
            continue
        # does this concrete class reach a filling method?
        if not any(prog.find_method(q, m.name) is m for _, m in fills):
            continue
        for name in MUTATORS[q]:
            mf = prog.find_method(q, name)
            if mf is None or mf.kind == "property":
                continue
            if interp is not None and dep_fields is not None:
                # only mutators that can change what the cached value was computed from have to reset it
                if not (_written_fields(interp, mf, q) & set(dep_fields)):
                    continue
            n_mut += 1
            if not _resets(prog, q, mf, field, eps_only=eps_only):
                missing.append("%s.%s" % (prog.classes[q].name, name))
    if missing and _per_call_scratch(prog, fam, field):
        return True, "per-call scratch table: every public method that can reach a use of it re-initialises it first, so " \
                     "no value survives from one call to the next"
    if missing:
        return False, "mutators that do not reset it: " + ", ".join(sorted(set(missing))[:8])
    if n_mut == 0:
        return True, "filled under its own test; the class has no public mutator"
    return True, "filled under its own test and reset by all %d public mutators of the classes that use it" % n_mut
