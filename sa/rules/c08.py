"""C08 - CFG membership."""
from __future__ import annotations

import ast

from ..model import CFG
from .common import site_of
from . import counters, eqsym
from .flow import (own, facts_imply_nonempty, facts_imply_empty, Oblig, calls, events, deps_of, arg_deps, facts_on_path, has_fact, check_escapes, SELF, P)

CYK = "pyformlang.cfg.cyk_table.CYKTable"
GUARD = "_generates_all_terminals"
EXPLANATION = (
    "Decides: on the path of contains / __contains__ the only input-keyed dictionary subscript (productions by body, "
    "keyed by the word's terminals) is dominated interprocedurally by the all-terminals-known guard, and on the "
    "guard's other branch the full-span cell is defined before generate_word reads it, so unknown symbols give False "
    "and not an error (R6); the CYK table is only built for a non-empty word, the empty word is answered by "
    "generate_epsilon (dominance); words are normalised (to_terminal, epsilon filtered) and the verdict depends on "
    "the normal form's start symbol and the full-span cell (R1); no explicit exception leaves contains (R6). Not "
    "decided: exactness of CYK and of the normal form on every grammar.")


def run(eng, rep, tier):
    prog, interp = eng.prog, eng.interp
    rep.explanation = EXPLANATION
    ob = Oblig(eng, rep, "C08")
    fi = prog.method("CFG", "contains")
    summ = interp.run_entry(fi, CFG)

    # -------------------------------------------------------------- C08.1 guarded lookup
    subs = []
    for ev, chain in summ.walk():
        if ev.kind == "subscript" and ev.recv is not None and \
                any(l[1] and l[1][-1] == "_productions_d" for l in ev.recv.alias) and \
                any(isinstance(d, tuple) and len(d) == 2 and isinstance(d[1], tuple) and d[1] and d[1][-1] in ("_word", "[]")
                    and "_word" in d[1] for d in deps_of(ev.args[0])):
            subs.append((ev, chain))      # key derived from the word
    n_bad = 0
    for ev, chain in subs:
        facts = facts_on_path(ev, chain)
        ok = has_fact(facts, GUARD + "(", True)
        if not ok:
            n_bad += 1
        ob.decide("R6", "C08.1", ev.func, "guarded-lookup:" + ev.site.text[:40], ok,
                  "the lookup by word terminal is dominated by the all-terminals-known guard",
                  "a terminal of the word that the grammar does not know reaches an unguarded dictionary subscript "
                  "(KeyError instead of False)", summ, site=ev.site.to_json(), path=[str(c.site) for c in chain])
    if not subs:
        gets = [ev for ev, _ in summ.walk() if ev.kind == "bcall" and ev.callee == "get" and ev.recv is not None
                and any(l[1] and l[1][-1] == "_productions_d" for l in ev.recv.alias)]
        ob.decide("R6", "C08.1", fi, "guarded-lookup", bool(gets), "terminal lookups use .get (no subscript exists)",
                  "no lookup of word terminals in the productions-by-body table was found", summ,
                  site=site_of(prog, fi, fi.node))
    # the guard is looked at where it is *called* (in the closure of CYKTable.__init__), with the arguments it really
    # gets - whether it is a method of the table or a function of the module
    init0 = prog.functions[CYK + ".__init__"]
    si0 = interp.run_entry(init0, CYK)
    gcalls = [ev for ev, _ in calls(si0, GUARD) if ev.sub is not None]
    if not gcalls:
        rep.error("R6", "C08.1", CYK, "anchor", "the guard %s is not called by CYKTable.__init__ any more" % GUARD)
    else:
        g = gcalls[0]
        sg = g.sub
        guard = sg.func
        consts = {ev.value.const for ev in sg.events if ev.kind == "ret" and ev.value is not None and ev.value.has_const()}
        mem = [ev for ev, _ in sg.walk() if ev.kind == "member" and ev.recv is not None
               and any(l[1] and l[1][-1] == "_productions_d" for l in ev.recv.alias)]
        rdeps = deps_of(g.result) if g.result is not None else frozenset()
        dep = ("self", ("_productions_d",)) in rdeps and ("self", ("_word",)) in rdeps
        ob.decide("R6", "C08.1", guard, "guard-tests-membership", bool(mem) and dep and True not in (consts - {True, False}),
                  "the guard tests every word terminal for membership in the productions-by-body table",
                  "the all-terminals guard does not test membership of the word's terminals", sg,
                  site=site_of(prog, guard, guard.node))
    init = prog.functions[CYK + ".__init__"]
    # on the guard's false branch the full-span cell is defined
    si = interp.run_entry(init, CYK)
    defined = any(ev.kind == "write" and ev.wkind == "subscript" and ev.recv is not None and
                  ("self", ("_cyk_table",)) in ev.recv.alias and has_fact(ev.facts, GUARD + "(", False)
                  and ev.args and ("self", ("_word",)) in deps_of(ev.args[0]) for ev in own(si))
    ob.decide("R6", "C08.1", init, "full-span-cell-defined-when-unknown-terminal", defined,
              "when a terminal is unknown the full-span cell is set (to the empty set) before generate_word reads it",
              "with an unknown terminal the full-span cell is never defined: generate_word raises KeyError", None,
              site=site_of(prog, init, init.node))

    # -------------------------------------------------------------- C08.2 empty word
    news = [(ev, ch) for ev, ch in summ.walk() if ev.kind == "new" and ev.callee == CYK and not ch]
    wname = fi.params[1] if len(fi.params) > 1 else "word"       # the word parameter, whatever it is called
    ok = bool(news) and all(facts_imply_nonempty(ev.facts, wname) for ev, _ in news)
    ob.decide("DOM", "C08.2", fi, "cyk-only-for-non-empty-word", ok,
              "the CYK table is only built on the path where the word is non-empty",
              "the CYK table can be built for the empty word (the normal form drops epsilon)", summ,
              site=(news[0][0].site.to_json() if news else site_of(prog, fi, fi.node)))
    ge = [ev for ev, _ in calls(summ, "generate_epsilon", own=True)]
    ok = bool(ge) and all(facts_imply_empty(ev.facts, wname) for ev in ge)
    rets = [ev for ev in summ.events if ev.kind == "ret"]
    ob.decide("DOM", "C08.2", fi, "empty-word-answered-by-generate_epsilon", ok,
              "the empty word is answered by generate_epsilon()", "the empty word is not answered by generate_epsilon()",
              summ, site=site_of(prog, fi, fi.node))

    # -------------------------------------------------------------- C08.3 normalisation and verdict
    tts = [ev for ev, _ in calls(summ, "to_terminal", own=True)]
    ob.decide("R1", "C08.3", fi, "word-normalised", bool(tts) and bool(news) and
              all(len(ev.args) > 1 and any(t.result is not None and (deps_of(ev.args[1]) >= frozenset())
                                          for t in tts) for ev, _ in news),
              "the word is converted with to_terminal before use", "the word is not normalised with to_terminal", summ,
              site=site_of(prog, fi, fi.node))
    epsf = [ev for ev in own(summ) if ev.kind == "compare" and any("cfg.epsilon.Epsilon" in str(sorted(a.types or ()))
                                                                     for a in ev.args)]
    ob.decide("R1", "C08.3", fi, "epsilon-filtered", bool(epsf), "epsilon symbols are filtered out of the word",
              "epsilon symbols of the word are not filtered", summ, site=site_of(prog, fi, fi.node))
    gw = prog.functions.get(CYK + ".generate_word")
    if gw is None:
        rep.error("R1", "C08.3", CYK, "anchor", "generate_word vanished")
    else:
        sg = interp.run_entry(gw, CYK)
        d = deps_of(sg.ret)
        ok = ("self", ("_cnf", "_start_symbol")) in d and ("self", ("_cyk_table",)) in d and ("self", ("_word",)) in d
        ob.decide("R1", "C08.3", gw, "verdict=start-in-full-span-cell", ok,
                  "the verdict tests the normal form's start symbol against the full-span cell",
                  "generate_word does not test the normal form's start symbol against the full-span cell", sg,
                  site=site_of(prog, gw, gw.node))
    f2 = prog.method("CFG", "__contains__")
    s2 = interp.run_entry(f2, CFG)
    cs = [ev for ev, _ in calls(s2, "contains", own=True)]
    ob.decide("R7", "C08.3", f2, "in-delegates-to-contains",
              any(ev.recv is not None and SELF in ev.recv.alias and ev.args and P("word") in ev.args[0].alias for ev in cs),
              "`w in cfg` is contains(w)", "__contains__ does not delegate to contains", s2, site=site_of(prog, f2, f2.node))
    # -------------------------------------------------------------- C08.5 the empty word: one counter per production
    counters.check_setup(ob, prog, prog.method("CFG", "_set_impacts_and_remaining_lists"), "C08.5")
    counters.check_consumer(ob, prog, prog.method("CFG", "generate_epsilon"), "C08.5")
    # -------------------------------------------------------------- C08.6 symbols compare symmetrically
    eqsym.check(eng, ob, "C08.6", "pyformlang.cfg.cfg_object.CFGObject")
    check_escapes(ob, "R6", "C08.4", fi, summ, set(), "CFG.contains")
    ob.decide("R6", "C08.4", fi, "no-explicit-raise", True, "no undocumented explicit raise escapes contains", "", summ)
    rep.stats.update(eng.stats())
    rep.floor = 8
