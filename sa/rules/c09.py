"""C09 - CFG clean-up and Chomsky normal form."""
from __future__ import annotations

import ast

from ..model import CFG
from . import names, counters
from .common import site_of
from .flow import (own, helpers_of, Oblig, calls, events, deps_of, arg_deps, SELF, P, is_worklist_closure, result_locs)

EXPLANATION = (
    "Decides: remove_useless_symbols filters by generating first and computes reachability on the filtered grammar, "
    "then filters by reachable (R1 ordering); remove_epsilon expands over the nullable symbols and drops empty bodies; "
    "eliminate_unit_productions drops unit productions from the base set and re-adds non-unit bodies over the unit "
    "pairs, whose closure is a visited-set worklist (R1, R10a); the slow path of to_normal_form is useless -> epsilon "
    "-> useless -> unit -> useless, the fast path lifts terminals before binarising (phase order); every assignment "
    "to the normal-form cache stores exactly the value returned on that path (R4b); C#CNF#k names are fresh, "
    "<terminal>#CNF# must be (R5). Not decided: language preservation; the arithmetic fast-path condition.")


def tag(name, l=SELF):
    return (name, l)


def run(eng, rep, tier):
    prog, interp = eng.prog, eng.interp
    rep.explanation = EXPLANATION
    ob = Oblig(eng, rep, "C09")

    # -------------------------------------------------------------- C09.1 remove_useless_symbols
    fi = prog.method("CFG", "remove_useless_symbols")
    summ = interp.run_entry(fi, CFG)
    reach = [ev for ev, _ in calls(summ, "get_reachable_symbols", own=True)]
    ok = bool(reach) and all(ev.recv is not None and ev.recv.alias and all(l[0].startswith("fresh:") for l in ev.recv.alias)
                             and tag("GENERATING") in deps_of(ev.recv) for ev in reach)
    ob.decide("R1", "C09.1", fi, "reachable-computed-on-generating-filtered", ok,
              "reachability is computed on the grammar already restricted to generating symbols",
              "reachability is not computed on the generating-filtered grammar (a symbol reachable only through a "
              "non-generating one survives)", summ, site=(reach[0].site.to_json() if reach else site_of(prog, fi, fi.node)))
    rd = deps_of(summ.ret)
    has_reach = any(isinstance(d, tuple) and d[0] == "REACHABLE" for d in rd)
    ob.decide("R1", "C09.1", fi, "result-filtered-by-generating", tag("GENERATING") in rd,
              "the result depends on the generating symbols", "the result is not filtered by generating symbols", summ,
              site=site_of(prog, fi, fi.node))
    ob.decide("R1", "C09.1", fi, "result-filtered-by-reachable", has_reach,
              "the result depends on the reachable symbols", "the result is not filtered by reachable symbols", summ,
              site=site_of(prog, fi, fi.node))
    news = [ev for ev in own(summ) if ev.kind == "new" and ev.callee == CFG]
    last = news[-1] if news else None
    okp = last is not None and any(isinstance(d, tuple) and d[0] == "REACHABLE" for d in
                                   deps_of(last.args[3] if len(last.args) > 3 else dict(last.kwargs).get("productions")))
    ob.decide("R1", "C09.1", fi, "productions-filtered-by-reachable", okp,
              "the productions of the result are filtered by reachability",
              "the productions handed to the result are not filtered by reachability", summ,
              site=(last.site.to_json() if last else site_of(prog, fi, fi.node)))

    # -------------------------------------------------------------- C09.2 epsilon and unit
    fi = prog.method("CFG", "remove_epsilon")
    summ = interp.run_entry(fi, CFG)
    ob.decide("R1", "C09.2", fi, "expands-over-nullable", tag("NULLABLE") in deps_of(summ.ret),
              "the productions of the result are expanded over the nullable symbols",
              "remove_epsilon does not use the nullable symbols", summ, site=site_of(prog, fi, fi.node))
    rn = prog.functions.get("pyformlang.cfg.utils_cfg.remove_nullable_production")
    if rn is None:
        rep.error("R1", "C09.2", "utils_cfg", "anchor", "remove_nullable_production vanished")
    else:
        drops = any(isinstance(c, (ast.ListComp, ast.GeneratorExp)) and any(g.ifs for g in c.generators)
                    for c in ast.walk(rn.node)) or any(isinstance(c, ast.If) for c in ast.walk(rn.node))
        ob.decide("R1", "C09.2", rn, "drops-empty-bodies", drops, "expanded bodies that became empty are dropped",
                  "empty bodies produced by the nullable expansion are kept (epsilon productions survive)", None,
                  site=site_of(prog, rn, rn.node))
    fi = prog.method("CFG", "eliminate_unit_productions")
    summ = interp.run_entry(fi, CFG)
    ob.decide("R1", "C09.2", fi, "re-adds-over-unit-pairs", tag("UNITPAIRS") in deps_of(summ.ret),
              "non-unit bodies are re-added over the unit pairs", "eliminate_unit_productions ignores the unit pairs",
              summ, site=site_of(prog, fi, fi.node))
    # some comprehension filter of the function keeps exactly the productions that are NOT of the form A -> B:
    # evaluated as a boolean function of the two atoms `len(body) == 1` and `isinstance(body[0], Variable)`,
    # through private one-expression helpers and local names
    base_ok = False
    helpers = helpers_of(prog, fi)

    def _expand(e, depth=0):
        if isinstance(e, ast.Call) and depth < 3:
            nm = e.func.attr if isinstance(e.func, ast.Attribute) else getattr(e.func, "id", None)
            h = helpers.get(nm) if nm and nm.startswith("_") else None
            if h is not None:
                rets = [r for r in ast.walk(h) if isinstance(r, ast.Return) and r.value is not None]
                if len(rets) == 1:
                    return _expand(rets[0].value, depth + 1)
        return e

    def _unit_value(e, a, b):
        """value of the filter for (len(body) == 1) = a, (body[0] is a Variable) = b; None when not understood"""
        e = _expand(e)
        if isinstance(e, ast.BoolOp):
            vals = [_unit_value(v, a, b) for v in e.values]
            if any(v is None for v in vals):
                return None
            return all(vals) if isinstance(e.op, ast.And) else any(vals)
        if isinstance(e, ast.UnaryOp) and isinstance(e.op, ast.Not):
            v = _unit_value(e.operand, a, b)
            return None if v is None else (not v)
        if isinstance(e, ast.Compare) and len(e.ops) == 1 and any(
                isinstance(c, ast.Call) and getattr(c.func, "id", "") == "len" for c in ast.walk(e)) and \
                any(isinstance(c, ast.Constant) and c.value == 1 for c in [e.left] + e.comparators):
            return a if isinstance(e.ops[0], ast.Eq) else (not a) if isinstance(e.ops[0], ast.NotEq) else None
        if isinstance(e, ast.Call) and getattr(e.func, "id", "") == "isinstance" and len(e.args) == 2 and \
                "Variable" in ast.unparse(e.args[1]):
            return b
        return None
    for c in ast.walk(fi.node):
        if isinstance(c, (ast.ListComp, ast.SetComp, ast.GeneratorExp)) and c.generators and c.generators[0].ifs:
            f_ = c.generators[0].ifs[0]
            table = {(a, b): _unit_value(f_, a, b) for a in (False, True) for b in (False, True)}
            if table == {(False, False): True, (False, True): True, (True, False): True, (True, True): False}:
                base_ok = True
    ob.decide("R1", "C09.2", fi, "base-set-excludes-unit-productions", base_ok,
              "unit productions are excluded from the base set",
              "the base set of eliminate_unit_productions keeps unit productions", None, site=site_of(prog, fi, fi.node))
    fu = prog.method("CFG", "get_unit_pairs")
    ob.worklist("C09.2", fu, "unit-pair-closure", "unit pairs are closed by a visited-set worklist",
                "get_unit_pairs is not a closure worklist")
    su = interp.run_entry(fu, CFG)
    ob.decide("R1", "C09.2", fu, "unit-pairs-reflexive-and-from-productions",
              ("self", ("_variables",)) in deps_of(su.ret) and ("self", ("_productions",)) in deps_of(su.ret),
              "unit pairs start from (A, A) for every variable and follow the productions",
              "get_unit_pairs does not depend on the variables and the productions", su, site=site_of(prog, fu, fu.node))

    # -------------------------------------------------------------- C09.3 pipeline order
    fi = prog.method("CFG", "to_normal_form")
    summ = interp.run_entry(fi, CFG)
    order = [ev for ev in own(summ) if ev.kind == "call" and ev.callee.rsplit(".", 1)[-1] in
             ("remove_useless_symbols", "remove_epsilon", "eliminate_unit_productions")]
    seq = [ev.callee.rsplit(".", 1)[-1] for ev in order]
    want = ["remove_useless_symbols", "remove_epsilon", "remove_useless_symbols", "eliminate_unit_productions",
            "remove_useless_symbols"]
    chained = all(order[i + 1].recv is not None and order[i].result is not None and
                  (order[i + 1].recv.alias & order[i].result.alias) for i in range(len(order) - 1)) if order else False
    ob.decide("PHASE", "C09.3", fi, "slow-path-order", seq == want and chained,
              "useless -> epsilon -> useless -> unit -> useless, each on the previous result",
              "the clean-up pipeline of to_normal_form is %s (expected %s, chained)" % (" -> ".join(seq), " -> ".join(want)),
              summ, site=site_of(prog, fi, fi.node))
    lift = [ev for ev in own(summ) if ev.kind == "call" and ev.callee.endswith("_get_productions_with_only_single_terminals")]
    deco = [ev for ev in own(summ) if ev.kind == "call" and ev.callee.endswith("_decompose_productions")]
    okf = bool(lift) and bool(deco) and all(ev.args and lift[0].result is not None and
                                             (ev.args[0].alias & lift[0].result.alias) for ev in deco)
    ob.decide("PHASE", "C09.3", fi, "fast-path-lift-before-binarise", okf,
              "terminals are lifted into their own productions before long bodies are binarised",
              "binarisation does not run on the terminal-lifted productions", summ, site=site_of(prog, fi, fi.node))
    # -------------------------------------------------------------- C09.4 cache coherence
    # Every grammar the function can return has been stored in the cache (by the function or by a private helper whose
    # result it passes on), or is the cached grammar itself; and everything stored is something that can be returned.
    # Decided on identities: the aliases of the stored values and of the entry frame's return values.
    stores = [ev for ev in own(summ) if ev.kind == "write" and ev.attr == "_normal_form" and ev.value is not None]
    rets = [ev for ev in summ.events if ev.kind == "ret" and ev.value is not None]
    stored_locs = frozenset().union(*[ev.value.alias for ev in stores]) if stores else frozenset()
    ret_locs = frozenset().union(*[ev.value.alias for ev in rets]) if rets else frozenset()
    CACHE = ("self", ("_normal_form",))
    unstored = [ev for ev in rets if not (ev.value.alias & stored_locs)
                and not (CACHE in ev.value.alias and any("_normal_form is not None" in f[0] and f[1] for f in ev.facts))]
    bad = next((ev for ev in stores if not (ev.value.alias & ret_locs)), None)
    n_pairs = len(stores)
    ob.decide("R4b", "C09.4", fi, "cache-stores-returned-value", bad is None and n_pairs >= 1 and not unstored,
              "every path stores in the cache exactly the grammar it returns (%d paths)" % n_pairs,
              "a path of to_normal_form returns a grammar different from the one it caches (or caches nothing)", summ,
              site=((bad or (unstored[0] if unstored else None)).site.to_json() if (bad or unstored) else None))
    nf = prog.method("CFG", "is_normal_form")
    # -------------------------------------------------------------- C09.6 one counter per production
    counters.check_setup(ob, prog, prog.method("CFG", "_set_impacts_and_remaining_lists"), "C09.6")
    counters.check_consumer(ob, prog, prog.method("CFG", "_get_generating_or_nullable"), "C09.6")
    names.check(eng, rep, "C09")
    rep.stats.update(eng.stats())
    rep.floor = 14
