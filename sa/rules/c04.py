"""C04 - emptiness, determinism, acyclicity, enumeration."""
from __future__ import annotations

import ast

from ..model import ENFA, NFA, DFA, EPS_TAG
from .common import site_of
from .flow import (code_nodes, helpers_of, events as _events_unused, own, both_answers, Oblig, calls, events, receivers, START, FINAL, STATES, SYMBOLS, DELTA_SYM, DELTA_EPS, SELF, P,
                   result_locs, deps_of, arg_deps, is_worklist_closure, comp)

EXPLANATION = (
    "Decides: is_empty searches from every start state over symbol and epsilon edges and answers from FINAL, with a "
    "visited-set worklist (R1, R10a); is_deterministic depends on all its conjuncts (number of start states, "
    "transition-function determinism, trivial epsilon closure) (R1); is_acyclic follows symbol and epsilon edges from "
    "START (R1); get_accepted_words depends on START / FINAL / both edge kinds, an epsilon edge extends the path "
    "without extending the word, the length bound guards expansion and yields are guarded by a duplicate set (R1). "
    "Not decided: exactness of the enumeration (the pruning helper is an order-dependent DFS, DESIGN section 7).")


def run(eng, rep, tier):
    prog, interp = eng.prog, eng.interp
    rep.explanation = EXPLANATION
    ob = Oblig(eng, rep, "C04")
    TFT = ("self", ("_transition_function", "_transitions"))

    # -------------------------------------------------------------- is_empty
    for recv_q, fi, summ in receivers(eng, "EpsilonNFA", "is_empty"):
        label = prog.classes[recv_q].name
        rd = deps_of(summ.ret)
        for tag, role in ((START(), "start"), (FINAL(), "final"), (DELTA_SYM(), "symbol-edges"), (DELTA_EPS(), "epsilon-edges")):
            if role == "epsilon-edges" and recv_q != ENFA:
                continue
            ob.decide("R1", "C04.1", fi, "is_empty-depends-on-%s:%s" % (role, label), tag in rd,
                      "the answer depends on " + role, "is_empty does not depend on " + role, summ,
                      site=site_of(prog, fi, fi.node))
        consts = {ev.value.const for ev in summ.events if ev.kind == "ret" and ev.value is not None and ev.value.has_const()}
        ob.decide("R1", "C04.1", fi, "is_empty-both-answers:" + label, both_answers(summ), "both answers reachable",
                  "is_empty can only answer %s" % sorted(consts), summ, site=site_of(prog, fi, fi.node))
        fin_ret = [ev for ev in summ.events if ev.kind == "ret" and ev.value is not None and ev.value.has_const()
                   and ev.value.const is False]
        set_form = _set_level_emptiness(eng, summ, recv_q)
        ob.decide("R1", "C04.1", fi, "non-empty-iff-final-reached:" + label,
                  (bool(fin_ret) and all(FINAL() in ev.ctrl for ev in fin_ret)) or set_form is not None,
                  "`non-empty` is answered under a test on FINAL", "is_empty answers False without testing FINAL", summ,
                  site=site_of(prog, fi, fi.node))
    fi = prog.method("EpsilonNFA", "is_empty")
    summ = interp.run_entry(fi, ENFA)
    tests = [ev for ev in own(summ) if ev.kind == "member" and ev.recv is not None and FINAL() in ev.recv.alias]
    tests += [ev for ev, _ in calls(summ, "is_final_state", own=True)]
    from .flow import may_be_element_of
    TRANS = ("self", ("_transition_function", "_transitions"))
    for role, pred in (("start-states", lambda ev: may_be_element_of(ev.args[0] if ev.args else None, START())),
                       ("symbol-successors", lambda ev: may_be_element_of(ev.args[0] if ev.args else None, TRANS)
                        and DELTA_SYM() in arg_deps(ev, 0)),
                       ("epsilon-successors", lambda ev: may_be_element_of(ev.args[0] if ev.args else None, TRANS)
                        and DELTA_EPS() in arg_deps(ev, 0))):
        ob.decide("R1", "C04.1", fi, "finality-tested-on-" + role,
                  any(pred(ev) for ev in tests) or _set_level_emptiness(eng, summ, ENFA) is not None,
                  "the finality test is applied to the " + role,
                  "is_empty never tests the %s for finality (an accepted word ending there is missed)" % role, summ,
                  site=(tests[0].site.to_json() if tests else site_of(prog, fi, fi.node)))
    ob.worklist("C04.1", fi, "is_empty-worklist", "reachability by a visited-set worklist",
                "is_empty is not a closure worklist")

    # -------------------------------------------------------------- is_deterministic
    fi = prog.method("EpsilonNFA", "is_deterministic")
    summ = interp.run_entry(fi, ENFA)
    rd = deps_of(summ.ret)
    for tag, role in ((START(), "number-of-start-states"), (TFT, "transition-function"), (DELTA_EPS(), "epsilon-closure")):
        ob.decide("R1", "C04.2", fi, "is_deterministic-depends-on-" + role, tag in rd,
                  "the verdict depends on " + role, "EpsilonNFA.is_deterministic ignores " + role, summ,
                  site=site_of(prog, fi, fi.node))
    f2 = prog.method("NondeterministicFiniteAutomaton", "is_deterministic")
    s2 = interp.run_entry(f2, NFA)
    rd = deps_of(s2.ret)
    for tag, role in ((START(), "number-of-start-states"), (TFT, "transition-function")):
        ob.decide("R1", "C04.2", f2, "is_deterministic-depends-on-" + role, tag in rd,
                  "the verdict depends on " + role, "NondeterministicFiniteAutomaton.is_deterministic ignores " + role,
                  s2, site=site_of(prog, f2, f2.node))
    f3 = prog.functions["pyformlang.finite_automaton.nondeterministic_transition_function."
                        "NondeterministicTransitionFunction.is_deterministic"]
    s3 = interp.run_entry(f3, f3.cls.qname)
    consts = {ev.value.const for ev in s3.events if ev.kind == "ret" and ev.value is not None and ev.value.has_const()}
    ob.decide("R1", "C04.2", f3, "tf-determinism-both-answers", both_answers(s3) and
              ("self", ("_transitions",)) in deps_of(s3.ret),
              "the transition function's determinism test reads every successor set",
              "NondeterministicTransitionFunction.is_deterministic does not inspect the successor sets", s3,
              site=site_of(prog, f3, f3.node))
    f4 = prog.method("DeterministicFiniteAutomaton", "is_deterministic")
    s4 = interp.run_entry(f4, DFA)
    ob.decide("R7", "C04.2", f4, "dfa-constant-true", s4.ret.has_const() and s4.ret.const is True,
              "a DFA is deterministic by its class invariant (C01.5)", "DFA.is_deterministic is not constantly True", s4,
              site=site_of(prog, f4, f4.node))

    # -------------------------------------------------------------- is_acyclic
    for recv_q, fi, summ in receivers(eng, "EpsilonNFA", "is_acyclic"):
        label = prog.classes[recv_q].name
        rd = deps_of(summ.ret)
        for tag, role in ((START(), "start"), (DELTA_SYM(), "symbol-edges"), (DELTA_EPS(), "epsilon-edges")):
            if role == "epsilon-edges" and recv_q != ENFA:
                continue
            ob.decide("R1", "C04.3", fi, "is_acyclic-depends-on-%s:%s" % (role, label), tag in rd,
                      "the answer depends on " + role, "is_acyclic does not follow " + role, summ,
                      site=site_of(prog, fi, fi.node))
        consts = {ev.value.const for ev in summ.events if ev.kind == "ret" and ev.value is not None and ev.value.has_const()}
        ob.decide("R1", "C04.3", fi, "is_acyclic-both-answers:" + label, both_answers(summ), "both answers reachable",
                  "is_acyclic can only answer %s" % sorted(consts), summ, site=site_of(prog, fi, fi.node))

    # per-path visited sets: every pushed (state, visited) pair carries its own copy of the path set
    fa = prog.method("EpsilonNFA", "is_acyclic")
    sa_ = interp.run_entry(fa, ENFA)
    def pushed(ev):
        """the element put on the worklist: the argument of append, an element of the argument of extend"""
        if ev.kind != "write" or ev.value is None:
            return None
        v = ev.value if ev.wkind in ("mutate:append", "mutate:appendleft") else \
            ev.value.elem if ev.wkind in ("mutate:extend", "mutate:__iadd__", "mutate:augassign", "augassign") else None
        return v if v is not None and v.items is not None and len(v.items) == 2 else None
    pushes = [ev for ev, _ in events(sa_, "write", own=True) if pushed(ev) is not None]
    shared = [ev for ev in pushes if any(l[1] and l[1][-1] == "[]" for l in pushed(ev).items[1].alias)]
    ob.decide("R8b", "C04.3", fa, "path-set-copied-per-push", bool(pushes) and not shared,
              "every pushed successor gets its own copy of the path's visited set (%d pushes)" % len(pushes),
              "a successor is pushed with the visited set of the popped path itself: sibling successors share one set and "
              "a later sibling sees states visited by an earlier one (a DAG is reported cyclic)", sa_,
              site=(shared[0].site.to_json() if shared else site_of(prog, fa, fa.node)))
    # -------------------------------------------------------------- get_accepted_words
    for recv_q, fi, summ in receivers(eng, "EpsilonNFA", "get_accepted_words"):
        label = prog.classes[recv_q].name
        el = summ.ret.elem
        rd = deps_of(el) if el is not None else frozenset()
        for tag, role in ((START(), "start"), (FINAL(), "final"), (DELTA_SYM(), "symbol-edges"), (DELTA_EPS(), "epsilon-edges"),
                          (P("max_length"), "length-bound")):
            if role == "epsilon-edges" and recv_q != ENFA:
                continue
            ob.decide("R1", "C04.4", fi, "words-depend-on-%s:%s" % (role, label), tag in rd,
                      "yielded words depend on " + role, "get_accepted_words does not depend on " + role, summ,
                      site=site_of(prog, fi, fi.node))
        # epsilon extends the path, not the word
        appends = [ev for ev in own(summ) if ev.kind == "write" and ev.wkind == "mutate:append"
                   and ev.value is not None and ("EDGE_SYMBOL", SELF) in deps_of(ev.value)]
        ok = bool(appends) and all(EPS_TAG in ev.ctrl for ev in appends)
        ob.decide("R1", "C04.4", fi, "epsilon-not-appended:" + label, ok,
                  "a symbol is appended to the word only under a comparison with Epsilon()",
                  "an epsilon edge can extend the yielded word (the append is not guarded by a comparison with Epsilon)",
                  summ, site=(appends[0].site.to_json() if appends else site_of(prog, fi, fi.node)))
    fi = prog.method("EpsilonNFA", "get_accepted_words")
    bound_ok = False
    fnodes = code_nodes(prog, fi)       # the exploration loop may live in a private worker
    for lp in [x for fnode in fnodes for x in ast.walk(fnode) if isinstance(x, ast.While)]:
        for st_ in ast.walk(lp):
            # anywhere in the exploration loop (per popped path or per successor): a test on the bound that either cuts
            # (continue / break / return) or is the condition under which successors are pushed
            if isinstance(st_, ast.If) and any(isinstance(x, ast.Name) and x.id == "max_length" for x in ast.walk(st_.test)) \
                    and st_.body:
                cuts = isinstance(st_.body[-1], (ast.Continue, ast.Break, ast.Return))
                pushes = any(isinstance(c, ast.Call) and isinstance(c.func, ast.Attribute) and
                             c.func.attr in ("append", "appendleft", "extend", "put", "add") for b in st_.body for c in ast.walk(b))
                if cuts or pushes:
                    bound_ok = True
    ob.decide("R1", "C04.4", fi, "length-bound-guards-expansion", bound_ok,
              "inside the exploration loop the length bound cuts the expansion of a path",
              "the length bound does not guard the expansion of paths inside the exploration loop", None,
              site=site_of(prog, fi, fi.node))
    yields = [(fnode, y) for fnode in fnodes for y in ast.walk(fnode) if isinstance(y, ast.Yield)]
    hs = helpers_of(prog, fi)
    guarded = all(_under_try_add(fnode, y, hs) for fnode, y in yields)
    ob.decide("R1", "C04.4", fi, "yield-guarded-by-duplicate-set", bool(yields) and guarded,
              "every yield is guarded by the insertion test into the set of yielded words",
              "a word can be yielded without passing the duplicate test", None, site=site_of(prog, fi, fi.node))
    rep.stats.update(eng.stats())
    rep.floor = 30


def _set_level_emptiness(eng, summ, recv_q):
    """is_empty written on sets: the answer is `R.isdisjoint(FINAL)` / `not (R & FINAL)` where R is what a visited-set
    worklist (the function itself or a private helper) reaches from START over symbol and epsilon edges.  Returns the
    deciding event or None."""
    from ..model import ENFA as _ENFA
    for ev in own(summ):
        if ev.kind != "bcall" or ev.callee not in ("isdisjoint", "intersection", "__and__", "issuperset", "issubset"):
            continue
        sides = [ev.recv] + list(ev.args[:1])
        if len(sides) != 2 or any(x is None for x in sides):
            continue
        fin = [x for x in sides if FINAL() in x.alias]
        oth = [x for x in sides if FINAL() not in x.alias]
        if len(fin) != 1 or len(oth) != 1:
            continue
        rd = deps_of(oth[0])
        need = {START(), DELTA_SYM()} | ({DELTA_EPS()} if recv_q == _ENFA else set())
        if not need <= rd:
            continue
        # R comes out of a closure: a call (own frames) of a function that is a visited-set worklist
        for cev, _ in events(summ, "call", own=True):
            if cev.result is not None and cev.result.alias & oth[0].alias and cev.sub is not None and cev.sub.func is not None:
                ok, _why, _ = is_worklist_closure(cev.sub.func.node, helpers_of(eng.prog, cev.sub.func))
                if ok and cev.args and START() in (cev.args[0].alias | deps_of(cev.args[0])):
                    return ev
    return None


def _guard_exprs(fn, test, depth=3):
    """the test and, for the locals it reads, the expressions assigned to them (`is_new = helper(..); if is_new:`)"""
    out, seen, frontier = [test], set(), [test]
    for _ in range(depth):
        names = {n.id for e in frontier for n in ast.walk(e) if isinstance(n, ast.Name)} - seen
        seen |= names
        frontier = []
        for st in ast.walk(fn):
            if isinstance(st, ast.Assign) and any(isinstance(t, ast.Name) and t.id in names for t in st.targets):
                frontier.append(st.value)
            elif isinstance(st, (ast.AnnAssign, ast.NamedExpr)) and st.value is not None and \
                    isinstance(st.target, ast.Name) and st.target.id in names:
                frontier.append(st.value)
        out.extend(frontier)
    return out


def _is_insertion_test(call, helpers):
    """a call of a helper that inserts one of its parameters' arguments into a collection parameter (`set_.add(element)`)
    and reports whether it was new"""
    nm = call.func.attr if isinstance(call.func, ast.Attribute) else getattr(call.func, "id", None)
    h = (helpers or {}).get(nm)
    if h is None:
        return False
    params = {a.arg for a in h.args.args}
    adds = [c for c in ast.walk(h) if isinstance(c, ast.Call) and isinstance(c.func, ast.Attribute) and c.func.attr == "add"
            and isinstance(c.func.value, ast.Name) and c.func.value.id in params]
    return bool(adds) and any(isinstance(r, ast.Return) and r.value is not None for r in ast.walk(h))


def _under_try_add(fn, node, helpers=None):
    from .flow import _path_to
    for anc in _path_to(fn, node):
        if isinstance(anc, ast.If):
            for e in _guard_exprs(fn, anc.test):
                for x in ast.walk(e):
                    if isinstance(x, ast.Compare) and any(isinstance(o, (ast.NotIn, ast.In)) for o in x.ops):
                        return True
                    if isinstance(x, ast.Call) and _is_insertion_test(x, helpers):
                        return True
    return False
