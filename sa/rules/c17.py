"""C17 - indexed-grammar emptiness."""
from __future__ import annotations

import ast

from ..model import IG, FST, RULES
from . import names
from .common import site_of
from .flow import (own, Oblig, calls, events, deps_of, arg_deps, SELF, P, result_locs, has_fact)

RO = "pyformlang.indexed_grammar.rule_ordering.RuleOrdering"
EXPLANATION = (
    "Decides: a grammar derived from another one inherits its start variable and its ordering option, and no library "
    "code uses the literal `S` where the grammar holds the start variable (R9 configuration forwarding); Rules handles "
    "every ordering option 1..8 and every ordering returns a permutation of the rules it was given (R7, R10b); the four "
    "reduced-rule classes agree on how they read each other's accessors in __eq__ (R7 sibling); the marking loop of "
    "is_empty dispatches on both non-terminal-producing rule kinds, continues while either changed something and "
    "answers `empty` only after convergence (R7, R4b-D5); intersection hands the grammar to the transducer of the "
    "automaton (R1); names of the product grammar are closed-world / injective (R5). Not decided: that the marking "
    "fixpoint is the emptiness decision, and order independence of its value.")


def run(eng, rep, tier):
    prog, interp = eng.prog, eng.interp
    rep.explanation = EXPLANATION
    ob = Oblig(eng, rep, "C17")

    # -------------------------------------------------------------- C17.1 configuration forwarding
    fi = prog.method("IndexedGrammar", "remove_useless_rules")
    summ = interp.run_entry(fi, IG)
    news = [ev for ev in own(summ) if ev.kind == "new" and ev.callee == IG]
    SV = ("self", ("start_variable",))
    fwd = bool(news) and all((len(ev.args) > 1 and SV in deps_of(ev.args[1])) or
                             (dict(ev.kwargs).get("start_variable") is not None and SV in deps_of(dict(ev.kwargs)["start_variable"]))
                             for ev in news)
    ob.decide("R9", "C17.1", fi, "start_variable-forwarded", fwd,
              "the derived grammar is built with the source grammar's start variable",
              "remove_useless_rules builds the derived grammar without start_variable: it answers for the default `S` "
              "whenever the user's start variable is another one", summ,
              site=(news[0].site.to_json() if news else site_of(prog, fi, fi.node)))
    rnews = [ev for ev in own(summ) if ev.kind == "new" and ev.callee == RULES]
    OPT = ("self", ("rules", "_optim"))
    okopt = bool(rnews) and all(len(ev.args) > 1 and any(isinstance(d, tuple) and isinstance(d[1], tuple) and d[1][-1:] in (("_optim",), ("optim",))
                                                         for d in deps_of(ev.args[1])) for ev in rnews)
    ob.decide("R9", "C17.1", fi, "optim-forwarded", okopt, "the ordering option is forwarded",
              "remove_useless_rules drops the ordering option", summ, site=site_of(prog, fi, fi.node))
    ff = prog.method("FST", "intersection")
    sf = interp.run_entry(ff, FST)
    GSV = ("p:indexed_grammar", ("start_variable",))
    uses = GSV in deps_of(sf.ret) or any(GSV in deps_of(a) for ev, _ in sf.walk() if ev.kind == "new" for a in ev.args)
    ob.decide("R9", "C17.1", ff, "start-variable-used", uses,
              "the root rule of the product grammar is built from the grammar's start variable",
              "FST.intersection never reads indexed_grammar.start_variable: the root rule is built from the literal `S`", sf,
              site=site_of(prog, ff, ff.node))
    rr = [ev for ev in own(sf) if ev.kind == "new" and ev.callee == RULES]
    ob.decide("R9", "C17.1", ff, "optim-forwarded", bool(rr) and all(len(ev.args) > 1 and any(
        isinstance(d, tuple) and isinstance(d[1], tuple) and d[0] == "p:indexed_grammar" and d[1][-1:] in (("_optim",), ("optim",))
        for d in deps_of(ev.args[1])) for ev in rr), "the ordering option of the grammar is forwarded",
        "FST.intersection drops the grammar's ordering option", sf, site=site_of(prog, ff, ff.node))
    # literal start symbol in the ordering heuristics
    rocls = prog.classes.get(RO)
    if rocls is None:
        rep.error("R9", "C17.1", RO, "anchor", "RuleOrdering vanished")
    else:
        for name, f in sorted(rocls.methods.items()):
            lits = [c for c in ast.walk(f.node) if isinstance(c, ast.Constant) and c.value == "S"
                    and c is not _doc(f.node)]
            # the failure is the lookup: `tree["S"]` raises KeyError when no rule mentions S.  A lookup that only happens
            # under `"S" in tree` (or through .get) cannot fail - the literal is then a heuristic root, not a defect
            from .flow import _path_to

            def _guarded(sub):
                cont = ast.unparse(sub.value)
                for anc in _path_to(f.node, sub):
                    if isinstance(anc, (ast.If, ast.While)) and any(
                            isinstance(c, ast.Compare) and len(c.ops) == 1 and isinstance(c.ops[0], ast.In) and
                            isinstance(c.left, ast.Constant) and c.left.value == "S" and ast.unparse(c.comparators[0]) == cont
                            for c in ast.walk(anc.test)) and any(x is sub for b in anc.body for x in ast.walk(b)):
                        return True
                return False
            lookups = [x for x in ast.walk(f.node) if isinstance(x, ast.Subscript) and isinstance(x.slice, ast.Constant)
                       and x.slice.value == "S" and isinstance(x.ctx, ast.Load)]
            if lits and lookups and all(_guarded(x) for x in lookups):
                rep.holds("R9", "C17.1", f.qname, "literal-start-symbol",
                          "the literal `S` is only looked up where it is known to be present (heuristic root, no KeyError)")
            elif lits:
                rep.violation("R9", "C17.1", f.qname, "literal-start-symbol",
                              "%s uses the literal `S` as the root of its ordering (%d places) instead of the grammar's start "
                              "variable: a grammar that does not mention `S` fails with KeyError" % (name, len(lits)),
                              site=site_of(prog, f, _stmt(f.node, lits[0])))
            elif name.startswith("order_") or name == "reverse":
                rep.holds("R9", "C17.1", f.qname, "literal-start-symbol", "no hard-coded start symbol", nontrivial=False)

    # -------------------------------------------------------------- C17.2 options and permutations
    ri = prog.method("Rules", "__init__")
    # decided by analysing the constructor once per option value: for optim = 1..8 some method of the ordering helper
    # is called and its result stored as the rule list; for 0 none is (the given order is kept) - wherever the option
    # chain lives (constructor, private helper, table)
    from ..av import AV as _AV
    RULES_Q = prog.cls("Rules").qname
    handled, missing = set(), []
    for k in range(0, 9):
        rules_av = _AV(types=frozenset({"list"}), alias=frozenset({("p:rules", ())}))
        sk = interp.run_entry(ri, RULES_Q, args=[rules_av, _AV(types=frozenset({"int"}), const=k)])
        ordered = [ev for ev, _ in events(sk, "call", own=True)
                   if ev.callee and rocls is not None and ev.callee.startswith(rocls.qname + ".")
                   and not ev.callee.endswith(".__init__")]
        if ordered:
            handled.add(k)
    ob.decide("R7", "C17.2", ri, "optim-1..8-handled", handled == set(range(1, 9)),
              "every ordering option 1..8 reaches an ordering method (0 keeps the given order)",
              "ordering options that reach an ordering method: %s (expected exactly 1..8)" % sorted(handled), None,
              site=site_of(prog, ri, ri.node))
    if rocls is not None:
        RL = ("self", ("rules",))
        for name, f in sorted(rocls.methods.items()):
            if not (name.startswith("order_") or name == "reverse"):
                continue
            s = interp.run_entry(f, RO)
            ret = s.ret
            perm = (RL in ret.alias) or any(isinstance(q, tuple) and q[0] == "PERM_OF" and q[1] == RL for q in ret.quals)
            ob.decide("R10b", "C17.2", f, "returns-permutation", perm and (ret.types is None or ret.only("list")),
                      "the result is the given rule list re-ordered (sorted / reversed / sliced / shuffled)",
                      "%s does not return a permutation of the rules it was given" % name, s, site=site_of(prog, f, f.node))

    # -------------------------------------------------------------- C17.3 sibling __eq__
    for cname in ("ConsumptionRule", "DuplicationRule", "ProductionRule", "EndRule"):
        f = prog.method(cname, "__eq__")
        s = interp.run_entry(f, prog.cls(cname).qname)
        pc = [ev for ev in own(s) if ev.kind == "propcall"]
        if pc:
            rep.violation("R7", "C17.3", f.qname, "property-called",
                          "%s.__eq__ calls `other.%s()`, but %s is a property in every rule class (its siblings read it "
                          "without calling): comparing two rules of this kind raises TypeError" % (cname, pc[0].attr, pc[0].attr),
                          site=pc[0].site.to_json())
        else:
            kind = "is_" + {"ConsumptionRule": "consumption", "DuplicationRule": "duplication",
                            "ProductionRule": "production", "EndRule": "end_rule"}[cname]
            okk = any(ev.kind == "call" and ev.callee.endswith("." + kind) for ev, _ in s.walk()) or \
                kind in ast.unparse(f.node)
            ob.decide("R7", "C17.3", f, "eq-reads-accessors-as-properties", okk,
                      "other's accessors are read as properties after the kind test",
                      "%s.__eq__ does not test the kind of the other rule" % cname, s, site=site_of(prog, f, f.node))

    # -------------------------------------------------------------- C17.4 marking loop
    fe = prog.method("IndexedGrammar", "is_empty")
    se = interp.run_entry(fe, IG)
    dup = [ev for ev, _ in calls(se, "_duplication_processing", own=True)]
    prd = [ev for ev, _ in calls(se, "_production_process", own=True)]
    ob.decide("R7", "C17.4", fe, "dispatch-on-both-rule-kinds",
              # (the rule list the loop walks holds duplication and production rules only - consumption and end rules
              # are kept elsewhere - so `else` of one kind test selects the other kind)
              bool(dup) and bool(prd) and
              all(has_fact(ev.facts, "is_duplication()", True) or has_fact(ev.facts, "is_production()", False) for ev in dup) and
              all(has_fact(ev.facts, "is_production()", True) or has_fact(ev.facts, "is_duplication()", False) for ev in prd),
              "duplication and production rules are both processed, each under its kind test",
              "the marking loop does not process both duplication and production rules", se, site=site_of(prog, fe, fe.node))
    # the continuation flag of the marking loop derives from the results of both processing routines (through whatever
    # locals, tuple unpacking or merged tails the code uses)
    from .flow import name_origins
    from .flow import helper_origins, helpers_of
    def _is_worklist(w, name):
        """the loop's test variable is a collection the body takes elements out of, not a boolean flag"""
        for c in ast.walk(w):
            if isinstance(c, ast.Call):
                if isinstance(c.func, ast.Attribute) and c.func.attr in ("pop", "popleft", "get") and \
                        isinstance(c.func.value, ast.Name) and c.func.value.id == name:
                    return True
                if getattr(c.func, "id", getattr(c.func, "attr", None)) in ("heappop",) and c.args and \
                        isinstance(c.args[0], ast.Name) and c.args[0].id == name:
                    return True
        return False
    flags = {w.test.id for w in ast.walk(fe.node) if isinstance(w, ast.While) and isinstance(w.test, ast.Name)
             and not _is_worklist(w, w.test.id)}
    for w in ast.walk(fe.node):          # `while True: ... if not flag: break`
        if isinstance(w, ast.While) and isinstance(w.test, ast.Constant) and w.test.value is True:
            for st in w.body:
                if isinstance(st, ast.If) and len(st.body) == 1 and isinstance(st.body[0], ast.Break):
                    t_ = st.test.operand if isinstance(st.test, ast.UnaryOp) and isinstance(st.test.op, ast.Not) else st.test
                    if isinstance(t_, ast.Name):
                        flags.add(t_.id)
    orig = name_origins(fe.node)
    hs = helpers_of(prog, fe)
    reach = set()
    for f_ in flags:
        for o in orig.get(f_, set()):
            reach.add(o)
            if o.startswith("call:") and o[5:].startswith("_") and o[5:] in hs:
                reach |= helper_origins(hs[o[5:]], hs)          # through a private generator / helper
    srcs = {o for o in reach if o in ("call:_duplication_processing", "call:_production_process")}
    if not flags:
        # no round-robin loop driven by a change flag: the fixpoint is organised another way (a worklist of rules to
        # revisit) - what makes that exact is which rules are re-queued when, not a flag
        rep.error("R7", "C17.4", fe.qname, "continues-while-either-changed",
                  "is_empty is not a flag-driven round-robin fixpoint any more; the rule cannot follow how rules are revisited",
                  site=site_of(prog, fe, fe.node))
    else:
      ob.decide("R7", "C17.4", fe, "continues-while-either-changed", len(srcs) >= 2,
              "the continuation flag accumulates the change flags of both kinds",
              "the loop's continuation flag ignores one rule kind: the fixpoint stops early", None, site=site_of(prog, fe, fe.node))
    # -------------------------------------------------------------- C17.6 every new mark raises the change flag
    # The round-robin fixpoint of is_empty stops when one sweep reports no change.  Necessary condition: a routine that
    # inserts into a marked set reports it - every insertion (into self.marked[..] / the marked-set parameter) sits in a
    # block, or inside a block, that assigns the routine's change flag (the local initialised to False that the routine
    # returns); insertions deferred through a local list are judged at the place the list is filled.
    for cls_, nm in (("IndexedGrammar", "_duplication_processing"), ("IndexedGrammar", "_production_process"), (None, "addrec_ter")):
        fm = prog.find_method(IG, nm) if cls_ else prog.functions.get("pyformlang.indexed_grammar.indexed_grammar." + nm)
        if fm is None:
            continue          # the routine was merged / renamed: C17.4 (origins of the loop flag) still applies
        _change_flag(ob, rep, prog, interp, fm, IG if cls_ else None)
    # -------------------------------------------------------------- C17.7 duplication counter = number of registrations
    # get_generating_non_terminals counts a duplication rule A -> B C down from the constant in its cell `[A, 2]`, once
    # per registration of the cell under a right term.  Necessary: the cell is registered once per OCCURRENCE (B B registers
    # it twice); registered once per DISTINCT right term (a loop over set(right_terms)) the counter of A -> B B stops at 1.
    def _has_cell(f_):
        return f_ is not None and any(isinstance(n, ast.List) and len(n.elts) == 2 and isinstance(n.elts[1], ast.Constant)
                                      and isinstance(n.elts[1].value, int) and not isinstance(n.elts[1].value, bool)
                                      and n.elts[1].value >= 2 for n in ast.walk(f_.node))
    cands = [f_ for f_ in (prog.find_method(IG, "_preprocess_rules_generating"),
                           prog.find_method(IG, "get_generating_non_terminals")) if _has_cell(f_)]
    cands += [f_ for f_ in prog.classes[IG].methods.values() if f_ not in cands and _has_cell(f_)]
    if cands:
        _dup_counter(rep, prog, interp, cands[0], IG)
    else:
        rep.error("R1", "C17.7", IG + ".get_generating_non_terminals", "duplication-counter-matches-registrations",
                  "no method of IndexedGrammar builds a counter cell `[left, 2]` any more; the rule cannot follow how duplication "
                  "rules are counted", site=site_of(prog, prog.method("IndexedGrammar", "get_generating_non_terminals"),
                                                    prog.method("IndexedGrammar", "get_generating_non_terminals").node))
    # -------------------------------------------------------------- C17.5 intersection goes through the transducer
    fx = prog.method("IndexedGrammar", "intersection")
    sx = interp.run_entry(fx, IG)
    tf = [ev for ev, _ in calls(sx, "to_fst", own=True)]
    it = [ev for ev, _ in calls(sx, "intersection", own=True) if ev.callee == FST + ".intersection"]
    ok = bool(tf) and bool(it) and all(ev.args and SELF in ev.args[0].alias and (ev.recv.alias & tf[0].result.alias) for ev in it)
    ob.decide("R1", "C17.5", fx, "grammar-x-transducer-of-automaton", ok,
              "the result is the product of the grammar with the identity transducer of the automaton",
              "IndexedGrammar.intersection does not intersect self with the transducer of the automaton", sx,
              site=site_of(prog, fx, fx.node))
    names.check(eng, rep, "C17")
    # the four rule kinds are compared with each other when rule lists are de-duplicated: symmetric __eq__
    from . import eqsym
    eqsym.check(eng, ob, "C17.3", "pyformlang.indexed_grammar.reduced_rule.ReducedRule")
    rep.stats.update(eng.stats())
    rep.floor = 20


def _doc(fn):
    b = fn.body
    if b and isinstance(b[0], ast.Expr) and isinstance(b[0].value, ast.Constant):
        return b[0].value
    return None


def _stmt(fn, node):
    for sub in ast.walk(fn):
        if isinstance(sub, ast.stmt) and not isinstance(sub, (ast.FunctionDef, ast.For, ast.While, ast.If)) and \
                any(x is node for x in ast.walk(sub)):
            return sub
    return fn


def _change_flag(ob, rep, prog, interp, fm, recv):
    fn = fm.node
    sm = interp.run_entry(fm, recv)
    site0 = site_of(prog, fm, fn)
    inits = {st.targets[0].id for st in fn.body if isinstance(st, ast.Assign) and len(st.targets) == 1 and
             isinstance(st.targets[0], ast.Name) and isinstance(st.value, ast.Constant) and st.value.value is False}
    returned = set()
    for r in ast.walk(fn):
        if isinstance(r, ast.Return) and r.value is not None:
            # the change flag is what the routine returns, or the first component of the pair it returns (the second one
            # is the early-stop signal)
            e = r.value.elts[0] if isinstance(r.value, ast.Tuple) and r.value.elts else r.value
            if isinstance(e, ast.Name):
                returned.add(e.id)
    flags = inits & returned

    def marked_loc(l):
        return (l[0] == "self" and l[1][:1] == ("marked",)) or l[0].startswith("p:marked")
    ins = [ev for ev in sm.events if ev.kind == "write" and ev.wkind in ("mutate:add", "mutate:update", "mutate:__ior__")
           and (any(marked_loc(l) for l in ev.target) or (ev.recv is not None and any(marked_loc(l) for l in ev.recv.alias)))]
    role = "new-mark-raises-the-change-flag"
    if not ins:
        return rep.holds("R1", "C17.6", fm.qname, role, "the routine inserts into no marked set itself", site=site0,
                         nontrivial=False)
    if not flags:
        return rep.error("R1", "C17.6", fm.qname, role, "the routine inserts into a marked set but has no local change flag "
                         "(initialised to False and returned) the rule can follow", site=site0)
    parent = {}
    for n in ast.walk(fn):
        for c in ast.iter_child_nodes(n):
            parent[id(c)] = n

    def sets_flag(st):
        if isinstance(st, ast.Assign) and any(isinstance(t, ast.Name) and t.id in flags for t in st.targets):
            return not (isinstance(st.value, ast.Constant) and st.value.value is False)
        if isinstance(st, ast.AugAssign) and isinstance(st.target, ast.Name) and st.target.id in flags:
            return True
        return False

    def raised_around(node):
        """some enclosing statement list of the node assigns the flag (whenever the node runs, that list runs)"""
        cur = node
        while id(cur) in parent:
            par = parent[id(cur)]
            for fieldname in ("body", "orelse", "finalbody"):
                blk = getattr(par, fieldname, None)
                if isinstance(blk, list) and any(x is cur for x in blk):
                    if par is not fn and any(sets_flag(st) for st in blk):
                        return True
            cur = par
        return False

    def list_ok(lst):
        fills = [c for c in ast.walk(fn) if isinstance(c, ast.Call) and isinstance(c.func, ast.Attribute) and
                 c.func.attr in ("append", "add", "extend") and isinstance(c.func.value, ast.Name) and c.func.value.id == lst]
        created = any(isinstance(st, ast.Assign) and any(isinstance(t, ast.Name) and t.id == lst for t in st.targets)
                      and isinstance(st.value, (ast.List, ast.Set, ast.Call)) for st in ast.walk(fn))
        return bool(fills) and created and all(raised_around(c) for c in fills)

    def deferred_ok(node):
        # the collected marks are handed over as a whole: `marked.update(collected)` / `marked |= collected`
        if isinstance(node, ast.Call) and len(node.args) == 1 and isinstance(node.args[0], ast.Name) and list_ok(node.args[0].id):
            return True
        if isinstance(node, ast.AugAssign) and isinstance(node.value, ast.Name) and list_ok(node.value.id):
            return True
        cur = node
        while id(cur) in parent:
            par = parent[id(cur)]
            if isinstance(par, ast.For) and isinstance(par.iter, ast.Name) and any(x is cur for x in par.body):
                lst = par.iter.id
                fills = [c for c in ast.walk(fn) if isinstance(c, ast.Call) and isinstance(c.func, ast.Attribute) and
                         c.func.attr in ("append", "add", "extend") and isinstance(c.func.value, ast.Name) and c.func.value.id == lst]
                created = any(isinstance(st, ast.Assign) and any(isinstance(t, ast.Name) and t.id == lst for t in st.targets)
                              and isinstance(st.value, (ast.List, ast.Set, ast.Call)) for st in ast.walk(fn))
                if fills and created and all(raised_around(c) for c in fills):
                    return True
            cur = par
        return False
    bad = [ev for ev in ins if not (raised_around(ev.node) or deferred_ok(ev.node))]
    ob.decide("R1", "C17.6", fm, role, not bad,
              "every insertion into a marked set (%d) is accompanied by the change flag %s" % (len(ins), "/".join(sorted(flags))),
              "a set is newly marked without raising the change flag %s: the sweep can report `nothing changed` and the "
              "fixpoint of is_empty stops before the start variable is marked" % "/".join(sorted(flags)), sm,
              site=(bad[0].site.to_json() if bad else site0))


def _dup_counter(rep, prog, interp, fp, recv):
    fn = fp.node
    role = "duplication-counter-matches-registrations"
    site0 = site_of(prog, fp, fn)
    cells = [n for n in ast.walk(fn) if isinstance(n, ast.List) and len(n.elts) == 2 and isinstance(n.elts[1], ast.Constant)
             and isinstance(n.elts[1].value, int) and not isinstance(n.elts[1].value, bool) and n.elts[1].value >= 2]
    if len(cells) != 1:
        return rep.error("R1", "C17.7", fp.qname, role, "cannot find the counter cell `[left, 2]` of a duplication rule (%d "
                         "candidates); the rule cannot follow the counting" % len(cells), site=site0)
    cell = cells[0]
    n_init = cell.elts[1].value
    pt = ":%d:%d" % (cell.lineno, cell.col_offset)
    import re as _re

    def is_cell(l):
        return l[0].startswith("fresh:") and not l[1] and _re.search(_re.escape(pt) + r"(\D|$)", l[0]) is not None

    def flat(av, d=0):
        if av is None or d > 3:
            return
        yield av
        for it in (av.items or ()):
            yield from flat(it, d + 1)
        if av.elem is not None:
            yield from flat(av.elem, d + 1)
    sm = interp.run_entry(fp, recv)
    regs = [ev for ev in sm.events if ev.kind == "write" and ev.value is not None and
            any(is_cell(l) for x in flat(ev.value) for l in (x.alias or ())) and
            not (ev.recv is not None and any(is_cell(l) for l in (ev.recv.alias or ())))]
    if not regs:
        return rep.error("R1", "C17.7", fp.qname, role, "the counter cell is never registered under a right term; cannot follow",
                         site=site0)
    parent = {}
    for n in ast.walk(fn):
        for c in ast.iter_child_nodes(n):
            parent[id(c)] = n
    iters = {ev.site.line: ev for ev in sm.events if ev.kind == "iter"}

    def inner_loops(node):
        out, cur = [], node
        while id(cur) in parent:
            cur = parent[id(cur)]
            if isinstance(cur, ast.For):
                out.append(cur)
        return out[:-1] if out else out          # the outermost one walks the rules
    distinct = []
    for ev in regs:
        for lp in inner_loops(ev.node):
            it = iters.get(lp.lineno)
            is_set = isinstance(lp.iter, (ast.Set, ast.SetComp)) or (isinstance(lp.iter, ast.Call) and getattr(
                lp.iter.func, "id", "") in ("set", "frozenset")) or (it is not None and it.recv is not None and it.recv.types
                                                                       and it.recv.types <= {"set", "frozenset"})
            if is_set:
                distinct.append(ev)
    if distinct:
        return rep.violation("R1", "C17.7", fp.qname, role,
                             "the counter cell of a duplication rule starts at %d but is registered once per DISTINCT right term "
                             "(a loop over a set): for A -> B B it is counted down once and A is never found generating"
                             % n_init, site=distinct[0].site.to_json())
    in_loop = [ev for ev in regs if inner_loops(ev.node)]
    idx = {ev.args[0].const for ev in sm.events if ev.kind == "subscript" and ev.args and ev.args[0].has_const()
           and isinstance(ev.args[0].const, int) and ev.recv is not None and
           any(l[1] and l[1][-1] == "right_terms" for l in (ev.recv.alias or ()))}
    unpacked = any(isinstance(st, ast.Assign) and len(st.targets) == 1 and isinstance(st.targets[0], ast.Tuple)
                   and len(st.targets[0].elts) == n_init and isinstance(st.value, ast.Attribute) and st.value.attr == "right_terms"
                   for st in ast.walk(fn))
    if unpacked and len({id(ev.node) for ev in regs}) >= n_init:
        return rep.holds("R1", "C17.7", fp.qname, role, "the cell `[left, %d]` is registered under each of the %d unpacked right "
                         "terms" % (n_init, n_init), site=site0)
    if in_loop or len(idx) == n_init:
        return rep.holds("R1", "C17.7", fp.qname, role, "the cell `[left, %d]` is registered once per occurrence of a right "
                         "term (%s)" % (n_init, "a loop over the right terms" if in_loop else "positions %s" % sorted(idx)),
                         site=site0)
    return rep.error("R1", "C17.7", fp.qname, role, "cannot relate the %d registration sites of the counter cell to the %d right "
                     "terms; the rule cannot follow the counting" % (len(regs), n_init), site=site0)
