"""C07 - PythonRegex vs re.fullmatch (narrow claim)."""
from __future__ import annotations

import ast
import string

from ..model import PYREGEX
from .common import site_of
from .flow import Oblig, calls, P

PR = "pyformlang.regular_expression.python_regex"
RO = "pyformlang.regular_expression.regex_objects"
EXPLANATION = (
    "Decides only two clauses. (1) `A pattern that Python rejects is rejected`: on every path of PythonRegex.__init__ "
    "with a str argument, re.compile(pattern) - CPython's own compiler as the gate - is executed before the first "
    "rewriting step and outside any handler (must-pass-through). (2) Agreement of the escape tables, constant-folded "
    "from the source: every one-character operator of the Regex reader, plus space and backslash, is a key of "
    "TRANSFORMATIONS and maps to backslash+itself; ESCAPED_PRINTABLES is PRINTABLES through TRANSFORMATIONS; "
    "DOT_REPLACEMENT is built from it; TO_ESCAPE_IN_BRACKETS is covered; the shortcuts \\d \\s \\w exist with the "
    "documented classes. NOT decided - stated plainly: the matching equivalence itself, a chain of seven string "
    "rewrites whose truth is a function of string values.")


def run(eng, rep, tier):
    prog, interp = eng.prog, eng.interp
    rep.explanation = EXPLANATION
    ob = Oblig(eng, rep, "C07")
    fi = prog.method("PythonRegex", "__init__")
    summ = interp.run_entry(fi, PYREGEX)
    own = summ.events
    gate = [i for i, ev in enumerate(own) if ev.kind == "ecall" and ev.callee == "re.compile"]
    first_rewrite = [i for i, ev in enumerate(own) if ev.kind == "call" and ev.recv is not None and
                     ("self", ()) in ev.recv.alias]
    in_try = False
    for sub in ast.walk(fi.node):
        if isinstance(sub, ast.Try):
            if any(isinstance(c, ast.Call) and ast.unparse(c.func) == "re.compile" for c in ast.walk(sub)):
                in_try = True
    ok = bool(gate) and (not first_rewrite or gate[0] < first_rewrite[0]) and not in_try
    if gate:
        gev = own[gate[0]]
        from .flow import resolved_facts

        def _is_str_test(e):
            return isinstance(e, ast.Call) and getattr(e.func, "id", None) == "isinstance" and len(e.args) == 2 and \
                isinstance(e.args[0], ast.Name) and e.args[0].id == "python_regex" and \
                "str" in {getattr(t_, "id", None) for t_ in (e.args[1].elts if isinstance(e.args[1], ast.Tuple) else [e.args[1]])}
        # the gate lies on the path on which the argument IS a str (any spelling of the test, also through a flag)
        on_str = any(_is_str_test(e) and pol for e, pol in resolved_facts([fi.node], gev.facts))
        arg_ok = bool(gev.args) and P("python_regex") in gev.args[0].alias
        ok = ok and on_str and arg_ok
    ob.decide("MUSTPASS", "C07.1", fi, "re.compile-gate", ok,
              "for a str pattern re.compile(pattern) runs, uncaught, before any rewriting",
              "a str pattern can reach the rewriting pipeline without having passed re.compile (or its error is caught)",
              summ, site=site_of(prog, fi, fi.node))
    sup = [i for i, ev in enumerate(own) if ev.kind == "call" and ev.callee.endswith("Regex.__init__")]
    ob.decide("MUSTPASS", "C07.1", fi, "rewritten-text-parsed-by-Regex", bool(sup) and (not first_rewrite or sup[-1] > first_rewrite[-1] - 1),
              "the rewritten text is handed to Regex.__init__ last", "the rewritten text is not parsed by Regex.__init__",
              summ, site=site_of(prog, fi, fi.node))

    # ------------------------------------------------------------------ tables
    T = prog.const(PR, "TRANSFORMATIONS")
    special = prog.const(RO, "SPECIAL_SYMBOLS")
    mod = prog.modules[PR]
    anchor = fi
    for ch in sorted({c for c in special if len(c) == 1} | {" ", "\\"}):
        ob.decide("R7", "C07.2", anchor, "escape-covers:%r" % ch, T.get(ch) == "\\" + ch,
                  "%r is escaped as backslash+itself" % ch,
                  "the Regex operator character %r is not escaped by TRANSFORMATIONS (maps to %r)" % (ch, T.get(ch)), None,
                  site={"file": mod.relpath, "line": 0, "function": PR, "construct": "TRANSFORMATIONS"})
    printables = prog.const(PR, "PRINTABLES")
    esc = prog.const(PR, "ESCAPED_PRINTABLES")
    want = [T.get(x, x) for x in printables if T.get(x, x)]
    ob.decide("R7", "C07.2", anchor, "escaped-printables", list(esc) == want and list(printables) == list(string.printable),
              "ESCAPED_PRINTABLES is string.printable mapped through TRANSFORMATIONS",
              "ESCAPED_PRINTABLES is not PRINTABLES mapped through TRANSFORMATIONS", None,
              site={"file": mod.relpath, "line": 0, "function": PR, "construct": "ESCAPED_PRINTABLES"})
    dot = prog.const(PR, "DOT_REPLACEMENT")
    ob.decide("R7", "C07.2", anchor, "dot-replacement", dot == "(" + "|".join(esc) + ")",
              "`.` is replaced by the union of all escaped printables",
              "DOT_REPLACEMENT is not the union of ESCAPED_PRINTABLES", None,
              site={"file": mod.relpath, "line": 0, "function": PR, "construct": "DOT_REPLACEMENT"})
    tob = prog.const(PR, "TO_ESCAPE_IN_BRACKETS")
    ob.decide("R7", "C07.2", anchor, "bracket-escapes-covered", all(c in T for c in tob),
              "every character escaped inside brackets has a transformation",
              "TO_ESCAPE_IN_BRACKETS contains a character without transformation", None,
              site={"file": mod.relpath, "line": 0, "function": PR, "construct": "TO_ESCAPE_IN_BRACKETS"})
    sc = prog.const(PR, "SHORTCUTS")
    ok = sc.get("\\d") == "[0-9]" and sc.get("\\w") == "[a-zA-Z0-9_]" and \
        all(c in sc.get("\\s", "") for c in ("\\ ", "\t", "\n", "\r", "\f", "\v"))
    ob.decide("R7", "C07.2", anchor, "shortcuts", ok, "\\d, \\s, \\w expand to the documented classes",
              "a shortcut class (\\d \\s \\w) is missing or expands to something else: %r" % sc, None,
              site={"file": mod.relpath, "line": 0, "function": PR, "construct": "SHORTCUTS"})
    ob.decide("R7", "C07.2", anchor, "question-mark-escaped", T.get("?") == "\\?", "? has a transformation",
              "`?` is not in TRANSFORMATIONS", None,
              site={"file": mod.relpath, "line": 0, "function": PR, "construct": "TRANSFORMATIONS"})
    rep.stats.update(eng.stats())
    rep.floor = 12
