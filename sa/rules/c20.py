"""C20 - export / import round trips, text round trip, recursive automata."""
from __future__ import annotations

import ast
import itertools

from ..model import CFG, PDA, FST, ENFA, RSA, BOX
from . import names
from .common import site_of
from .flow import (fold_consts, code_nodes as _code_nodes, block_atoms, own, Oblig, calls, events, deps_of, arg_deps, SELF, P, result_locs)

EXPLANATION = (
    "Decides writer / reader agreement, from constants and boolean structure only: for automata, PDAs and transducers "
    "the node attributes read by from_networkx are written by to_networkx, the label separators written are the ones "
    "split on, every json.dumps field has its json.loads, the epsilon spelling written is one to_symbol accepts, the "
    "hidden start-stack node name and the start pseudo-node prefix agree (R7); CFG.to_text markers and the reader's "
    "slices agree, and the reader's if/elif classifier - evaluated over its atoms {first letter upper-case, marker "
    "VAR, marker TER, epsilon spelling} - classifies every case the writer emits as the writer's class (R7 predicate "
    "table); from_ebnf builds one box per head with the alternatives joined by a union spelling, each box is the "
    "minimised automaton of the body's regex, Box equality is automaton equivalence plus non-terminal (R1); reserved "
    "graph node names must be fresh against user state names (R5). Not decided: round-trip equality of values beyond "
    "these agreements.")


def consts(node, kind=str):
    doc = None
    if isinstance(node, (ast.FunctionDef,)) and node.body and isinstance(node.body[0], ast.Expr) and \
            isinstance(node.body[0].value, ast.Constant):
        doc = node.body[0].value
    return [c.value for c in ast.walk(node) if isinstance(c, ast.Constant) and isinstance(c.value, kind) and c is not doc]


def run(eng, rep, tier):
    prog, interp = eng.prog, eng.interp
    rep.explanation = EXPLANATION
    ob = Oblig(eng, rep, "C20")
    _folded = {}

    def K(fi):
        """the function with module- / class-level string constants folded in (a separator or a reserved name kept in a
        constant is the same separator)"""
        if fi.qname not in _folded:
            _folded[fi.qname] = fold_consts(prog, fi.module, fi.node, fi.cls)
        return _folded[fi.qname]

    def code_nodes(prog_, fi):
        return [fold_consts(prog_, fi.module, n_, fi.cls) for n_ in _code_nodes(prog_, fi)]

    # -------------------------------------------------------------- C20.1 networkx writer / reader
    for cname in ("EpsilonNFA", "PDA", "FST"):
        w = prog.method(cname, "to_networkx")
        r = prog.method(cname, "from_networkx")
        helper = prog.functions["pyformlang.finite_automaton.finite_automaton.add_start_state_to_graph"]
        written = set()
        for fn in (w, helper):
            for c in ast.walk(K(fn)):
                if isinstance(c, ast.Call) and isinstance(c.func, ast.Attribute) and c.func.attr in ("add_node", "add_edge"):
                    written |= {k.arg for k in c.keywords if k.arg}
        read = set()
        for c in [x for fn_ in code_nodes(prog, r) for x in ast.walk(fn_)]:      # the reader and the helpers it calls
            if isinstance(c, ast.Call) and isinstance(c.func, ast.Attribute) and c.func.attr in ("nodes", "edges"):
                # graph.edges(data="label") / graph.nodes(data="is_start"): the attribute named by `data` is read
                for kw in c.keywords:
                    if kw.arg == "data" and isinstance(kw.value, ast.Constant) and isinstance(kw.value.value, str):
                        read.add(kw.value.value)
            if isinstance(c, ast.Call) and isinstance(c.func, ast.Attribute) and c.func.attr == "get" and c.args and \
                    isinstance(c.args[0], ast.Constant) and isinstance(c.args[0].value, str):
                read.add(c.args[0].value)
            if isinstance(c, ast.Subscript) and isinstance(c.slice, ast.Constant) and isinstance(c.slice.value, str):
                read.add(c.slice.value)
            if isinstance(c, ast.Compare) and isinstance(c.left, ast.Constant) and isinstance(c.left.value, str) and \
                    isinstance(c.ops[0], ast.In) and c.left.value.islower():
                read.add(c.left.value)
        read -= {"INITIAL_STACK_HIDDEN"}
        ob.decide("R7", "C20.1", r, "attributes-read-are-written:" + cname, bool(read) and read <= written,
                  "from_networkx reads %s, all written by to_networkx" % sorted(read),
                  "from_networkx reads graph attributes %s that to_networkx does not write" % sorted(read - written), None,
                  site=site_of(prog, r, r.node))
        # the two marks are independent: a node can be start AND final, so the test of one mark must not sit in the
        # else-branch of the test of the other (`if start: .. elif final: ..` drops the final mark of a start state)
        def _mark_of(test, fn_):
            """which mark ("is_start" / "is_final") a test reads - directly or through a local bound to the read"""
            from .flow import inline_locals as _il
            got = set()
            for e in _il(fn_, test):
                for x in ast.walk(e):
                    if isinstance(x, ast.Constant) and x.value in ("is_start", "is_final"):
                        got.add(x.value)
            return got
        exclusive = None
        for fn_ in code_nodes(prog, r):
            for st_ in ast.walk(fn_):
                if isinstance(st_, ast.If) and st_.orelse:
                    m1 = _mark_of(st_.test, fn_)
                    if len(m1) == 1:
                        other_mark = ({"is_start", "is_final"} - m1).pop()
                        for o in st_.orelse:
                            for inner in ast.walk(o):
                                if isinstance(inner, ast.If) and other_mark in _mark_of(inner.test, fn_):
                                    exclusive = st_
        ob.decide("R7", "C20.1", r, "start-and-final-marks-independent:" + cname, exclusive is None,
                  "the start mark and the final mark of a node are read independently of each other",
                  "the final (start) mark of a node is only looked at when the other mark is absent: a state that is both "
                  "start and final loses one of the two", None,
                  site=site_of(prog, r, exclusive if exclusive is not None else r.node))
        need = {"is_start", "is_final", "label"}
        ob.decide("R7", "C20.1", r, "start-final-label-read:" + cname, need <= read,
                  "start marking, final marking and edge labels are read back",
                  "from_networkx does not read back %s" % sorted(need - read), None, site=site_of(prog, r, r.node))
        wsep = [c for c in consts(K(w)) if c.startswith(" ") and c.endswith(" ") and len(c) > 2]
        rsep = [c.args[0].value for c in ast.walk(K(r)) if isinstance(c, ast.Call) and isinstance(c.func, ast.Attribute)
                and c.func.attr == "split" and c.args and isinstance(c.args[0], ast.Constant)]
        ob.decide("R7", "C20.1", r, "separators-agree:" + cname, sorted(wsep) == sorted(rsep),
                  "label separators written %s = separators split on" % wsep,
                  "to_networkx writes the separators %s, from_networkx splits on %s" % (wsep, rsep), None,
                  site=site_of(prog, r, r.node))
        # counted over the writer / reader and the private helpers they call (a label built or cached by a helper)
        nd = sum(1 for fn_ in code_nodes(prog, w) for c in ast.walk(fn_)
                 if isinstance(c, ast.Call) and ast.unparse(c.func) == "json.dumps")
        nl = sum(1 for fn_ in code_nodes(prog, r) for c in ast.walk(fn_)
                 if isinstance(c, ast.Call) and ast.unparse(c.func) == "json.loads")
        ob.decide("R7", "C20.1", r, "json-fields-agree:" + cname, nd == nl,
                  "%d json.dumps fields, %d json.loads" % (nd, nl),
                  "to_networkx encodes %d fields with json.dumps, from_networkx decodes %d" % (nd, nl), None,
                  site=site_of(prog, r, r.node))
    w = prog.method("EpsilonNFA", "to_networkx")
    ts = prog.functions["pyformlang.finite_automaton.finite_automaton.to_symbol"]
    eps_written = [c for c in consts(K(w)) if c in ("ɛ", "epsilon", "ε", "$")]
    accepted = set()
    for c in ast.walk(K(ts)):
        if isinstance(c, ast.Compare) and isinstance(c.ops[0], ast.In) and isinstance(c.comparators[0], ast.Tuple):
            accepted |= {e.value for e in c.comparators[0].elts if isinstance(e, ast.Constant)}
    ob.decide("R7", "C20.1", w, "epsilon-spelling-accepted", bool(eps_written) and set(eps_written) <= accepted,
              "the epsilon label written (%s) is read back as Epsilon by to_symbol" % eps_written,
              "to_networkx writes epsilon as %s, to_symbol accepts %s" % (eps_written, sorted(accepted)), None,
              site=site_of(prog, w, w.node))
    pw, pr = prog.method("PDA", "to_networkx"), prog.method("PDA", "from_networkx")
    hid_w = sorted({c for fn_ in code_nodes(prog, pw) for c in consts(fn_) if c.isupper() and "_" in c})
    hid_r = sorted({c for fn_ in code_nodes(prog, pr) for c in consts(fn_) if c.isupper() and "_" in c})
    ob.decide("R7", "C20.1", pr, "hidden-stack-node-name-agrees", bool(hid_w) and set(hid_w) == set(hid_r),
              "writer and reader use the same hidden start-stack node name",
              "hidden start-stack node: written %s, read %s" % (hid_w, hid_r), None, site=site_of(prog, pr, pr.node))
    helper = prog.functions["pyformlang.finite_automaton.finite_automaton.add_start_state_to_graph"]
    pre_w = {c for fn_ in code_nodes(prog, helper) for c in consts(fn_) if c.endswith("_") and len(c) > 1}
    pre_r = {c.args[0].value for fn_ in code_nodes(prog, pr) for c in ast.walk(fn_) if isinstance(c, ast.Call)
             and isinstance(c.func, ast.Attribute) and c.func.attr == "startswith" and c.args and isinstance(c.args[0], ast.Constant)}
    ob.decide("R7", "C20.1", pr, "pseudo-node-prefix-agrees", pre_r <= pre_w,
              "the prefix skipped by the reader is the prefix of the writer's pseudo-nodes",
              "PDA.from_networkx skips nodes starting with %s, the writer names pseudo-nodes %s" % (sorted(pre_r), sorted(pre_w)),
              None, site=site_of(prog, pr, pr.node))

    # -------------------------------------------------------------- C20.2 text round trip
    rl = prog.method("CFG", "_read_line")
    ist = prog.functions["pyformlang.cfg.cfg.is_special_text"]
    vt = prog.functions["pyformlang.cfg.variable.Variable.to_text"]
    tt = prog.functions["pyformlang.cfg.terminal.Terminal.to_text"]
    wv = [c for c in consts(K(vt)) if ":" in c]
    wt = [c for c in consts(K(tt)) if ":" in c]
    rm = [c for c in consts(K(ist)) if ":" in c]
    ob.decide("R7", "C20.2", rl, "markers-agree", sorted(wv + wt) == sorted(rm) and len(rm) == 2,
              "the markers written by to_text are the ones recognised by the reader",
              "markers written %s, recognised %s" % (wv + wt, rm), None, site=site_of(prog, ist, ist.node))
    slices = sorted(ast.unparse(s.slice) for fn_ in code_nodes(prog, rl) for s in ast.walk(fn_)
                    if isinstance(s, ast.Subscript) and isinstance(s.slice, ast.Slice))
    mlen = len(rm[0]) if rm else 0
    ok = ("%d:-1" % mlen) in slices and "1:4" in slices and all(m[1:4] in ("VAR", "TER") for m in rm)
    ob.decide("R7", "C20.2", rl, "slices-match-markers", ok, "the reader strips exactly the marker and its closing quote",
              "the reader's slices %s do not match the markers %s" % (slices, rm), None, site=site_of(prog, rl, rl.node))
    table, why = classifier_table(rl)
    if table is None:
        rep.error("R7", "C20.2", rl.qname, "classifier", "the if/elif classifier of _read_line is not understood: " + why)
    else:
        # cases the writer can emit: (class, first letter upper, marker)
        cases = [("Variable", True, None), ("Variable", False, "VAR"), ("Terminal", True, "TER"), ("Terminal", False, None)]
        for cls, upper, marker in cases:
            atoms = {"upper": upper, "VAR": marker == "VAR", "TER": marker == "TER", "eps": False}
            got = table(atoms)
            role = "classifies:%s/%s/%s" % (cls, "upper" if upper else "lower", marker or "plain")
            if got == cls:
                rep.holds("R7", "C20.2", rl.qname, role, "read back as " + cls)
            else:
                rep.violation("R7", "C20.2", rl.qname, role,
                              "a %s whose text starts with %s letter is written %s and read back as %s"
                              % (cls, "an upper-case" if upper else "a lower-case",
                                 ("with the marker " + marker) if marker else "without marker", got),
                              site=site_of(prog, rl, rl.node))

    # the writer decides with a predicate on the first character whether a marker is needed; the reader decides with
    # its own predicate whether an unmarked token is a variable: evaluate both over character classes
    CLASSES = ("ascii-upper", "ascii-lower", "digit", "non-ascii-upper", "non-ascii-lower", "other")

    def pred_classes(test, defs=None):
        """character classes of text[0] for which the test is true, or None if not understood"""
        txt = ast.unparse(test)
        if isinstance(test, ast.Name) and defs and test.id in defs and (
                isinstance(defs[test.id], (ast.BoolOp, ast.Compare)) or
                (isinstance(defs[test.id], ast.UnaryOp) and isinstance(defs[test.id].op, ast.Not))):
            return pred_classes(defs[test.id], defs)      # a named boolean
        if isinstance(test, ast.BoolOp) and isinstance(test.op, ast.And):
            sets = [pred_classes(v, defs) for v in test.values]
            sets = [x for x in sets if x != "nonempty"]
            if any(x is None for x in sets) or not sets:
                return None
            out = set(CLASSES)
            for x in sets:
                out &= x
            return out
        if isinstance(test, ast.UnaryOp) and isinstance(test.op, ast.Not):
            inner = pred_classes(test.operand, defs)
            return None if inner in (None, "nonempty") else set(CLASSES) - inner
        if isinstance(test, ast.Name) or (isinstance(test, ast.Compare) and "len(" in txt):
            return "nonempty"
        if isinstance(test, ast.Compare) and len(test.ops) == 1 and "ascii_uppercase" in txt:
            base = {"ascii-upper"}
            return base if isinstance(test.ops[0], ast.In) else set(CLASSES) - base
        if isinstance(test, ast.Compare) and len(test.ops) == 1 and "ascii_lowercase" in txt:
            base = {"ascii-lower"}
            return base if isinstance(test.ops[0], ast.In) else set(CLASSES) - base
        if isinstance(test, ast.Call) and isinstance(test.func, ast.Attribute):
            return {"isupper": {"ascii-upper", "non-ascii-upper"}, "islower": {"ascii-lower", "non-ascii-lower"},
                    "isdigit": {"digit"}, "isalpha": {"ascii-upper", "ascii-lower", "non-ascii-upper", "non-ascii-lower"}
                    }.get(test.func.attr)
        return None

    def marker_pred(fn):
        """classes of text[0] for which to_text writes the marker: `if c: return '"VAR:..."'`, the same with the marker
        on the fall-through / else side, or a conditional expression"""
        def has_marker(node):
            return any(isinstance(c, ast.Constant) and isinstance(c.value, str) and ":" in c.value for c in ast.walk(node))

        def neg(x):
            return None if x in (None, "nonempty") else set(CLASSES) - x
        from .counters import _single_defs
        defs = _single_defs(fn.node)
        _pc = pred_classes

        def pred_classes_(t):
            return _pc(t, defs)
        cands = []
        for sub in ast.walk(K(fn)):
            if isinstance(sub, ast.If):
                # the marker is put on by a return or by an assignment (`text = '"VAR:' + text + '"'`) in one branch
                in_body = any(isinstance(r, (ast.Return, ast.Assign, ast.AugAssign)) and has_marker(r) for r in sub.body)
                in_else = any(isinstance(r, (ast.Return, ast.Assign, ast.AugAssign)) and has_marker(r) for r in sub.orelse)
                if in_body and not in_else:
                    cands.append(pred_classes_(sub.test))
                if in_else and not in_body:
                    cands.append(neg(pred_classes_(sub.test)))
                if not in_body and not sub.orelse and any(isinstance(r, ast.Return) for r in sub.body):
                    # `if c: return text` followed by `return '"VAR:' + text + '"'`
                    cands.append(neg(pred_classes_(sub.test)))
            if isinstance(sub, ast.IfExp) and (has_marker(sub.body) != has_marker(sub.orelse)):
                cands.append(pred_classes_(sub.test) if has_marker(sub.body) else neg(pred_classes_(sub.test)))
        # tests that are not about the first character (a cache look-up, say) are not the marker predicate
        cands = [c for c in cands if c is not None and c != "nonempty"]
        if cands:
            return cands[0]
        return None
    mark_v, mark_t = marker_pred(vt), marker_pred(tt)
    reader_upper = None
    for sub in ast.walk(K(rl)):
        if isinstance(sub, ast.Compare) and "ascii_uppercase" in ast.unparse(sub):
            reader_upper = pred_classes(sub)
        elif isinstance(sub, ast.Call) and isinstance(sub.func, ast.Attribute) and sub.func.attr == "isupper" and \
                isinstance(sub.func.value, ast.Subscript) and reader_upper is None:
            reader_upper = pred_classes(sub)
    if mark_v is None or mark_t is None or reader_upper is None or "nonempty" in (mark_v, mark_t, reader_upper):
        rep.error("R7", "C20.2", rl.qname, "marker-predicates", "the first-character predicates of to_text / _read_line are "
                  "not understood")
    else:
        bad_v = sorted(k for k in CLASSES if k not in mark_v and k not in reader_upper)
        bad_t = sorted(k for k in CLASSES if k not in mark_t and k in reader_upper)
        ob.decide("R7", "C20.2", vt, "unmarked-variable-read-as-variable", not bad_v,
                  "a variable is written without marker only when the reader's capital-letter rule classifies it as a "
                  "variable",
                  "a variable whose first character is %s is written without the VAR marker, but the reader only takes "
                  "unmarked tokens starting with an ASCII capital as variables: it is read back as a terminal" % bad_v,
                  None, site=site_of(prog, vt, vt.node))
        ob.decide("R7", "C20.2", tt, "unmarked-terminal-read-as-terminal", not bad_t,
                  "a terminal is written without marker only when the reader does not take it for a variable",
                  "a terminal whose first character is %s is written without the TER marker and read back as a variable"
                  % bad_t, None, site=site_of(prog, tt, tt.node))

    # -------------------------------------------------------------- C20.3 recursive automata
    fe = prog.method("RecursiveAutomaton", "from_ebnf")
    se = interp.run_entry(fe, RSA)
    joins = [c for c in consts(K(fe)) if c.strip() in ("|", "+") and c != c.strip()]
    ob.decide("R1", "C20.3", fe, "alternatives-joined-by-union", bool(joins) and all(j.strip() in ("|", "+") for j in joins),
              "several productions of one head are joined with a union spelling",
              "alternatives of a head are not joined with a union operator", se, site=site_of(prog, fe, fe.node))
    boxes = [ev for ev in own(se) if ev.kind == "new" and ev.callee == BOX]
    mins = [ev for ev, _ in calls(se, "minimize", own=True)]
    rx = [ev for ev in own(se) if ev.kind == "new" and ev.callee.endswith("regex.Regex")]
    def _from_min(av):
        """the automaton put into a box: the result of minimize(), or the automaton of a box already built here"""
        if any(av.alias & m.result.alias for m in mins):
            return True
        return bool(av.alias) and all(l[0].startswith("fresh:") and l[1] and l[1][-1] in ("_dfa", "dfa") for l in av.alias)
    okb = len(boxes) >= 1 and bool(mins) and bool(rx) and all(ev.args and _from_min(ev.args[0]) for ev in boxes)
    ob.decide("R1", "C20.3", fe, "box=minimised-regex-automaton", okb,
              "each box holds Regex(body).to_epsilon_nfa().minimize()",
              "a box of from_ebnf is not the minimised automaton of its body's regex", se, site=site_of(prog, fe, fe.node))
    # a Box is built inside a loop / comprehension over the (head, body) items of a mapping
    def _over_items(it):
        # the (head, alternatives) groups: the items of a mapping, or itertools.groupby over the (head, body) pairs
        if isinstance(it, ast.Call) and getattr(it.func, "id", getattr(it.func, "attr", None)) == "groupby":
            return True
        return isinstance(it, ast.Call) and isinstance(it.func, ast.Attribute) and it.func.attr == "items"
    from .flow import helpers_of
    _hs = helpers_of(prog, fe)

    def _has_box(node, depth=0):
        """a Box is constructed there - directly, or by a private helper called there"""
        for c in ast.walk(node):
            if isinstance(c, ast.Call):
                nm = c.func.attr if isinstance(c.func, ast.Attribute) else getattr(c.func, "id", "")
                if nm == "Box":
                    return True
                h = _hs.get(nm) if nm.startswith("_") and not nm.endswith("__") else None
                if h is not None and depth < 2 and any(_has_box(st, depth + 1) for st in h.body):
                    return True
        return False
    per_head = any((isinstance(l, ast.For) and _over_items(l.iter) and _has_box(l)) or
                   (isinstance(l, (ast.ListComp, ast.SetComp, ast.GeneratorExp)) and _has_box(l.elt)
                    and any(_over_items(g.iter) for g in l.generators))
                   for l in ast.walk(K(fe)))
    ob.decide("R1", "C20.3", fe, "one-box-per-head", per_head, "one box per head", "from_ebnf does not build one box per head",
              None, site=site_of(prog, fe, fe.node))
    fr = prog.method("RecursiveAutomaton", "from_regex")
    sr = interp.run_entry(fr, RSA)
    boxes = [ev for ev in own(sr) if ev.kind == "new" and ev.callee == BOX]
    mins = [ev for ev, _ in calls(sr, "minimize", own=True)]
    ob.decide("R1", "C20.3", fr, "box=minimised-regex-automaton", bool(boxes) and bool(mins) and
              all(ev.args and any(ev.args[0].alias & m.result.alias for m in mins) and
                  P("start_nonterminal") in deps_of(ev.args[1]) for ev in boxes),
              "the single box holds the minimised automaton of the regex, labelled with the start non-terminal",
              "from_regex does not build (minimised automaton, start non-terminal)", sr, site=site_of(prog, fr, fr.node))
    fb = prog.method("Box", "is_equivalent_to")
    sb = interp.run_entry(fb, BOX)
    eqv = [ev for ev, _ in calls(sb, "is_equivalent_to", own=True) if ev.callee != fb.qname]
    ob.decide("R1", "C20.3", fb, "box-equality", bool(eqv) and ("self", ("_nonterminal",)) in deps_of(sb.ret),
              "two boxes are equal when their automata are equivalent and their non-terminals equal",
              "Box.is_equivalent_to does not compare (automaton equivalence, non-terminal)", sb, site=site_of(prog, fb, fb.node))
    names.check(eng, rep, "C20")
    rep.stats.update(eng.stats())
    rep.floor = 25


def classifier_table(fn):
    """The reader's classification of a body component as a function of the atoms it tests.  The block that constructs
    Variable / Terminal objects (the innermost loop body that contains both constructors) is run on its boolean
    skeleton: for a valuation of the semantic atoms (first letter upper-case, marker VAR, marker TER, epsilon spelling)
    the if-tests are evaluated - through `not/and/or`, single-assignment named booleans, nested ifs, elif chains and
    early `continue`s alike - and the first constructor certainly executed is the class.  Returns (table, why)."""
    from .counters import _single_defs
    from .flow import executed_calls
    defs = _single_defs(fn.node)

    def ctor(c):
        return isinstance(c, ast.Call) and getattr(c.func, "id", "") in ("Variable", "Terminal")
    block = None
    for lp in ast.walk(fn.node):
        if isinstance(lp, ast.For):
            names = {c.func.id for st in lp.body for c in ast.walk(st) if ctor(c)}
            if names == {"Variable", "Terminal"}:
                block = lp.body          # ast.walk is breadth first: the last hit is the innermost loop
    if block is None:
        return None, "no loop constructing both Variable and Terminal found"

    def atom(e):
        txt = ast.unparse(e)
        if isinstance(e, ast.Compare) and len(e.ops) == 1:
            if "ascii_uppercase" in txt or ".isupper()" in txt:
                return ("upper", isinstance(e.ops[0], ast.In))
            if isinstance(e.comparators[0], ast.Constant) and e.comparators[0].value in ("VAR", "TER"):
                return (e.comparators[0].value, isinstance(e.ops[0], ast.Eq))
            if "EPSILON_SYMBOLS" in txt:
                return ("eps", isinstance(e.ops[0], ast.In))
        if isinstance(e, ast.Call) and txt.endswith(".isupper()"):
            return ("upper", True)
        return None

    def value(e, atoms):
        if isinstance(e, ast.BoolOp):
            vals = [value(v, atoms) for v in e.values]
            if any(v is None for v in vals):
                return None
            return all(vals) if isinstance(e.op, ast.And) else any(vals)
        if isinstance(e, ast.UnaryOp) and isinstance(e.op, ast.Not):
            v = value(e.operand, atoms)
            return None if v is None else (not v)
        if isinstance(e, ast.Name) and e.id in defs and isinstance(defs[e.id], (ast.BoolOp, ast.Compare, ast.UnaryOp, ast.Call)):
            return value(defs[e.id], atoms)
        a = atom(e)
        if a is None:
            return None
        name, pos = a
        return atoms[name] if pos else (not atoms[name])
    skel = block_atoms(block)
    probe = {"upper": False, "VAR": False, "TER": False, "eps": False}
    for key, node in skel.items():
        if value(node, probe) is None and any(ctor(c) for st in block for c in ast.walk(st)) and \
                not _is_marker_test(node):
            return None, "a test of the classifier uses something else than the known atoms: " + ast.unparse(node)

    def table(atoms):
        asg = {}
        for key, node in skel.items():
            v = value(node, atoms)
            # `if is_special_text(component):` only decides how the marker is split off; the markers themselves are atoms
            asg[key] = (atoms["VAR"] or atoms["TER"]) if v is None else v
        for c in executed_calls(block, asg):
            if ctor(c):
                return c.func.id
        return None
    return table, ""


def _is_marker_test(node):
    return isinstance(node, ast.Call) and getattr(node.func, "id", "").startswith("is_special") or \
        (isinstance(node, ast.Name))


