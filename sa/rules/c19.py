"""C19 - objects behave as values.  Rule family R4 (effects, ownership, caches).

R4a  no public non-mutator writes the abstract state of self or of an argument
R4b  cache disciplines D1 (derived once), D2 (scratch restore), D3 (no escape),
     D4 (owner validated), D5 (monotone accumulator)
R4c  conversions of classes with public mutators return only fresh objects
"""
from __future__ import annotations

import ast
import os

from ..av import loc_str
from ..effects import writes, returned_operand_aliases, cache_elems, written_field, chain_strs, operand_root
from ..index import AnalysisError, norm_stmt
from ..model import (CACHE_FIELDS, MUTATORS, VALUE_CLASSES, ACCUMULATOR_PARAMS, NAVIGATION_ACCESSORS, CFG, REGEX, IG,
                     PDA_TF)
from ..report import short_fn
from .common import public_entries, site_of, is_public_name

EXPLANATION = (
    "Effects-and-ownership analysis (rule family R4) over every public non-mutator method of every public class, "
    "each analysed per concrete receiver class with all callees inlined (type-resolved call graph). Decides: no "
    "operand write outside declared cache/scratch fields (R4a); cache disciplines D1-D5 for every declared cache field "
    "(R4b); conversions of classes with a public in-place API return only fresh objects (R4c). Not decided: nothing "
    "of the statement is excluded in principle; value-level dependence on history through state numbering "
    "(Regex._counter) is outside the shape rules.")


def run(eng, rep, tier, part=None):
    prog, interp = eng.prog, eng.interp
    rep.explanation = EXPLANATION
    rep.assumptions = [
        "the mutator table of sa/model.py (documented in-place API) is the complete list of methods allowed to write "
        "their receiver; it is validated against the index on every run",
        "external libraries (networkx, numpy, json, re) do not write pyformlang objects passed to them",
        "property getters on receivers of unknown class are pure reads (each getter is itself an R4a entry point)",
    ]
    n_entries = 0
    mutator_listing = {short_fn(k + ".x")[:-2]: v for k, v in MUTATORS.items()}
    unresolved_sites = {}
    seen_write_keys = set()
    cache_writes = []          # (entry, ev, chain, loc)
    all_entries = list(public_entries(eng))
    jobs = int(os.environ.get("VERIF_JOBS", "0") or 0) or min(16, os.cpu_count() or 1)
    if jobs > 1 and len(all_entries) > 40 and not os.environ.get("VERIF_NO_FORK"):
        return run_parallel(eng, rep, tier, all_entries, jobs)
    for cq, fi in all_entries:
        n_entries += 1
        summ = interp.run_entry(fi, cq)
        ename = "%s.%s" % (prog.classes[cq].name, fi.name)
        # ---- unresolved constructs on the paths of this entry point: the obligation cannot be decided
        for ev, chain in summ.walk():
            if ev.kind == "unresolved":
                unresolved_sites.setdefault((ev.site.func, ev.site.text, ev.note), ename)
        bad = False
        # ---- R4a
        for ev, chain, l in writes(summ):
            root = l[0]
            if root.startswith("p:") and (short_fn(fi.qname), root[2:]) in ACCUMULATOR_PARAMS:
                continue
            if cache_elems(l):
                cache_writes.append((ename, fi, cq, ev, chain, l))
                continue
            where = ev.site.func
            role = "operand-write:%s" % loc_str((root if root == "self" else "arg", tuple(p for p in l[1] if p != "[]")))
            key = (where, role)
            # a private field that is a correctly invalidated cache (filled under its own test, reset by every mutator
            # that can change what it was computed from) is not abstract state: sa/rules/autocache.py
            verdict, why = _auto_cache(eng, ev, l, chain)
            if verdict is True:
                if key not in seen_write_keys:
                    seen_write_keys.add(key)
                    rep.holds("R4b", "C19.R4b-auto", where, "auto-cache:" + loc_str(l), "undeclared field recognised as a cache "
                              "that cannot go stale: " + why)
                continue
            bad = True
            if key in seen_write_keys:
                continue
            seen_write_keys.add(key)
            rep.violation("R4a", "C19.R4a", where, role,
                          "public non-mutator %s writes operand state %s (%s)%s" % (
                              ename, loc_str(l), ev.wkind, "; as a cache it goes stale - " + why if verdict is False else ""),
                          site=ev.site.to_json(), path=[ename] + chain_strs(chain))
        if not bad:
            rep.holds("R4a", "C19.R4a", fi.qname, "no-operand-write:" + prog.classes[cq].name,
                      "no write to self.* / argument.* outside declared caches on any path",
                      nontrivial=any(e.kind == "call" for e in summ.events))
        # ---- R4c
        check_r4c(eng, rep, cq, fi, summ, ename)
        check_cache_handover(eng, rep, summ, ename)
    # module-level public functions
    for fq, fi in sorted(prog.functions.items()):
        if part is not None and part[0] != 0:
            break
        if fi.cls is not None or not is_public_name(fi.name) or isinstance(fi.node, ast.Lambda):
            continue
        n_entries += 1
        summ = interp.run_entry(fi, None)
        bad = False
        for ev, chain, l in writes(summ):
            if cache_elems(l):
                cache_writes.append((short_fn(fq), fi, None, ev, chain, l))
                continue
            if l[0].startswith("p:") and _is_builder_helper(fi, l[0][2:]):
                continue
            if l[0].startswith("p:") and (short_fn(fq), l[0][2:]) in ACCUMULATOR_PARAMS:
                continue
            bad = True
            role = "operand-write:%s" % loc_str(("arg", tuple(p for p in l[1] if p != "[]")))
            key = (ev.site.func, role)
            if key in seen_write_keys:
                continue
            seen_write_keys.add(key)
            rep.violation("R4a", "C19.R4a", ev.site.func, role,
                          "public function %s writes its argument %s" % (short_fn(fq), loc_str(l)),
                          site=ev.site.to_json(), path=[short_fn(fq)] + chain_strs(chain))
        if not bad:
            rep.holds("R4a", "C19.R4a", fq, "no-operand-write", "module function writes no argument state",
                      nontrivial=False)
    for (func, text, note), ename in sorted(unresolved_sites.items()):
        rep.error("R4a", "C19.R4a", func, "unresolved:" + text[:60],
                  "construct not understood on a path of entry point %s: %s (%s)" % (ename, text, note))
    check_r4b(eng, rep, cache_writes, structural=(part is None or part[0] == 0))
    if part is None or part[0] == 0:
        check_property_purity_listing(eng, rep)
    rep.stats.update(eng.stats())
    rep.stats.update({"entry_points": n_entries, "mutator_table": mutator_listing,
                      "cache_fields": {k: v[0] for k, v in CACHE_FIELDS.items()},
                      "accumulator_params_excluded": sorted("%s(%s)" % a for a in ACCUMULATOR_PARAMS),
                      "navigation_accessors_excluded": sorted(NAVIGATION_ACCESSORS)})
    rep.floor = 300


_PAR = {}


def _worker(idx):
    """Child process (forked after the engine was built): run the whole rule on a slice of the entry points and hand
    back plain results."""
    from ..report import Report
    eng, entries, jobs, tier = _PAR["eng"], _PAR["entries"], _PAR["jobs"], _PAR["tier"]
    os.environ["VERIF_NO_FORK"] = "1"
    sub = Report("C19", tier)
    mine = entries[idx::jobs]
    orig = globals()["public_entries"]
    globals()["public_entries"] = lambda e, classes=None, include_mutators=False: iter(mine)
    try:
        run(eng, sub, tier, part=(idx, jobs))
    finally:
        globals()["public_entries"] = orig
    out = []
    for r in sub.results:
        out.append(dict(rule=r.rule, oblig=r.oblig, function=r.function, role=r.role, verdict=r.verdict, what=r.what,
                        site=r.site, path=r.path, nontrivial=r.nontrivial, detail={k: str(v) for k, v in r.detail.items()}))
    return out, sub.stats.get("entry_points", 0), dict(eng.interp.stats)


def run_parallel(eng, rep, tier, entries, jobs):
    import multiprocessing as mp
    _PAR.update(eng=eng, entries=entries, jobs=jobs, tier=tier)
    ctx = mp.get_context("fork")
    with ctx.Pool(jobs) as pool:
        parts = pool.map(_worker, range(jobs))
    seen = set()
    n_entries = 0
    agg = {}
    for results, n, st in parts:
        n_entries += n
        for k, v in st.items():
            agg[k] = agg.get(k, 0) + v
        for r in results:
            key = (r["rule"], r["oblig"], r["function"], r["role"], r["verdict"])
            if key in seen:
                continue
            seen.add(key)
            rep.add(r["rule"], r["oblig"], r["function"], r["role"], r["verdict"], r["what"], site=r["site"],
                    path=r["path"], nontrivial=r["nontrivial"])
    st = eng.stats()
    st["functions_analysed"] = agg.get("functions_analysed", 0)
    st["summary_cache_hits"] = agg.get("memo_hits", 0)
    rep.stats.update(st)
    rep.stats.update({"entry_points": n_entries, "worker_processes": jobs,
                      "mutator_table": {short_fn(k + ".x")[:-2]: v for k, v in MUTATORS.items()},
                      "cache_fields": {k: v[0] for k, v in CACHE_FIELDS.items()},
                      "accumulator_params_excluded": sorted("%s(%s)" % a for a in ACCUMULATOR_PARAMS),
                      "navigation_accessors_excluded": sorted(NAVIGATION_ACCESSORS)})
    rep.floor = 300


def _is_builder_helper(fi, pname) -> bool:
    """Module functions documented as 'adds ... to a given graph' (add_start_state_to_graph) take the object they
    build as a parameter: that parameter is the result, not an operand."""
    doc = ast.get_docstring(fi.node) or ""
    return pname == "graph" and "to a given graph" in doc


# --------------------------------------------------------------------------- R4c
_AUTO = {}
_ASSIGNS = {}


def _class_assigns(prog, cls_q, seg) -> bool:
    """some method visible from the class assigns self.<seg>"""
    key = (cls_q, seg)
    if key not in _ASSIGNS:
        found = False
        for q in prog.classes[cls_q].mro:
            c = prog.classes.get(q)
            if c is None:
                continue
            for m in c.methods.values():
                for sub in ast.walk(m.node):
                    if isinstance(sub, ast.Attribute) and sub.attr == seg and isinstance(sub.ctx, ast.Store) and \
                            isinstance(sub.value, ast.Name) and sub.value.id == "self":
                        found = True
        _ASSIGNS[key] = found
    return _ASSIGNS[key]


def _reset_per_call(eng, ev, field, chain):
    """the public entry that reaches this fill re-initialises the field unconditionally at its top level before anything
    else uses it (a per-call scratch table, not a cache across calls)"""
    from . import autocache
    frames = [c.func for c in chain if getattr(c, "func", None) is not None] + [ev.func]
    for fn_ in frames:
        for st_ in fn_.node.body:
            if autocache._is_reset_stmt(st_, field):
                return True
    return False


def _auto_cache(eng, ev, l, chain=()):
    """(True / False / None, reason) for the field written by `ev` - see sa/rules/autocache.py"""
    from . import autocache
    from ..av import all_deps
    from .flow import facts_on_path
    cls_q = ev.recv_cls
    if cls_q is None or cls_q not in eng.prog.classes or ev.func.cls is None:
        return None, ""
    # the field of the frame's own receiver that is written (directly, or inside the object it holds)
    field = None
    node = ev.node
    for sub in ast.walk(node):
        if isinstance(sub, ast.Attribute) and isinstance(sub.value, ast.Name) and sub.value.id == "self":
            field = sub.attr
            break
    if field is None or field not in l[1]:
        # written through a local alias (`memo = self._memo; memo[k] = v`): the field is the segment of the location
        # that is an attribute of the frame's receiver class
        field = next((seg for seg in l[1] if seg.startswith("_") and _class_assigns(eng.prog, cls_q, seg)), None)
        if field is None:
            return None, ""
    deps = set()
    if ev.value is not None:
        deps |= set(all_deps(ev.value))
    for a in ev.args:
        deps |= set(all_deps(a))
    deps |= set(ev.ctrl)
    # dependences are rooted at the entry point; re-root them at the object that holds the field
    idx = list(l[1]).index(field)
    holder = (l[0], tuple(l[1][:idx]))
    # what a KEYED memo entry was computed from is a matter of the function that fills it, not of who called it (the
    # callers' loops decide whether a fill happens, not what is filled in): take the dependences from that function
    # analysed on its own, where they are rooted at its `self`
    if ev.wkind == "subscript" and ev.func.cls is not None and ev.func.kind == "method":
        try:
            s0 = eng.interp.run_entry(ev.func, cls_q)
            w0 = [e for e in s0.events if e.kind == "write" and e.node is ev.node and e.value is not None]
        except Exception:
            w0 = []
        if w0:
            deps = set()
            for e in w0:
                deps |= set(all_deps(e.value)) | set(e.ctrl)
                for a in e.args:
                    deps |= set(all_deps(a))
            holder = ("self", ())
    eps_only = ("DELTA_EPS", holder) in deps and ("DELTA_SYM", holder) not in deps
    dep_fields = set()
    for d in deps:
        if isinstance(d, tuple) and len(d) == 2 and isinstance(d[1], tuple) and d[0] == holder[0] and \
                d[1][:len(holder[1])] == holder[1] and len(d[1]) > len(holder[1]):
            dep_fields.add(d[1][len(holder[1])])
    dep_fields.discard(field)
    key = (cls_q, field, tuple(sorted(dep_fields)), eps_only)
    if key not in _AUTO:
        _AUTO[key] = autocache.judge(eng.prog, eng.abstract, cls_q, field, eng.interp, dep_fields or None, eps_only=eps_only)
    verdict, why = _AUTO[key]
    if verdict is True and ev.kind == "write" and ev.value is not None:
        # a memo must be keyed by everything its value was computed from besides the object itself: a value that
        # depends on an argument of the query, stored under a key (or in a plain field) that does not, is served to the
        # next call with another argument
        def _params(av):
            return {d[0] for d in all_deps(av) if isinstance(d, tuple) and len(d) == 2 and isinstance(d[0], str)
                    and d[0].startswith("p:")} if av is not None else set()
        key_params = set()
        for a in ev.args:
            key_params |= _params(a)
        missing = _params(ev.value) - key_params - {l[0]}      # the object that holds the cache is not an argument of it
        if missing and not _reset_per_call(eng, ev, field, chain):
            return False, "the cached value depends on the argument `%s` of the query but is stored under a key that " \
                          "does not: the next call with another argument is answered from it" % sorted(missing)[0][2:]
    if verdict is True and len(l[1]) > idx + 1 and ev.kind == "write" and ev.wkind not in ("attr",):
        # an update INSIDE the cached object: a fill when it happens under a test of the field itself (`if k not in
        # self._memo:`, `if self._table is None:` - here or at a call site on the way); anywhere else the query edits
        # what it cached, and the next call starts from the leftovers
        guarded = False
        for text, _pol, _names in facts_on_path(ev, chain):
            try:
                test = ast.parse(text, mode="eval").body
            except SyntaxError:
                continue
            for c in [ev] + list(chain):
                if getattr(c, "func", None) is not None and autocache._mentions(test, c.func.node, field):
                    guarded = True
        if not guarded:
            return False, "the cached object is updated in place outside the test that fills it (`%s`): what the next " \
                          "call finds in the cache depends on the previous calls" % ev.site.text[:60]
    return verdict, why


def check_cache_handover(eng, rep, summ, ename):
    """D1 for objects built by the operation: a derived-once cache of a *new* object may be pre-filled with a value
    computed for that object, never with the cache object of an operand (it answers for the operand, goes stale when
    the two differ, and is shared between the two afterwards)."""
    for ev, chain in summ.walk():
        if ev.kind != "write" or ev.wkind != "attr" or ev.attr not in CACHE_FIELDS or ev.value is None:
            continue
        if CACHE_FIELDS[ev.attr][0] not in ("D1", "D3"):
            continue
        if not ev.target or any(operand_root(l) for l in ev.target):
            continue          # writes to operands are judged by R4a / R4b above
        taken = [l for l in ev.value.alias if operand_root(l) and any(seg in CACHE_FIELDS and CACHE_FIELDS[seg][0] in ("D1", "D3")
                                                                      for seg in l[1])]
        if taken:
            rep.violation("R4b", "C19.R4b-D1", ev.site.func, "cache-from-other-object:" + ev.attr,
                          "the cache %s of the object being built is assigned the cache object %s of an operand: it answers "
                          "for the operand (stale as soon as the two differ) and is shared with it afterwards"
                          % (ev.attr, ", ".join(loc_str(l) for l in sorted(taken))),
                          site=ev.site.to_json(), path=[ename] + chain_strs(chain))


def check_r4c(eng, rep, cq, fi, summ, ename):
    if fi.kind == "property" or fi.name in ("__iter__", "__next__", "__call__"):
        return
    if short_fn(fi.qname) in NAVIGATION_ACCESSORS:
        return
    ret = summ.ret
    # a collection / generator handed out by a query whose ELEMENTS are the operand's own mutable builtin containers
    # (a list kept inside an object reachable from self): editing a received element edits the operand.  Decided per
    # yield / per element of the returned collection; the element is a container when its abstract type says so, or
    # when it IS a field (`x.body`) that holds a builtin container in every class that has a field of that name.
    CONT = {"list", "set", "dict", "deque"}

    def _field_is_container(l):
        if not l[1] or l[1][-1] == "[]":
            return False
        seg = l[1][-1]
        cands = [v for (cq_, f), v in eng.interp.field_table.items() if f in (seg, "_" + seg) and v is not None]
        return bool(cands) and all(v.types is not None and v.types and v.types <= CONT for v in cands)
    handed = [(ev.value, ev) for ev in summ.events if ev.kind == "yield" and ev.func is fi and ev.value is not None]
    if not handed and ret.elem is not None and ret.types is not None and ret.types & (CONT | {"tuple", "generator"}):
        handed = [(ret.elem, None)]
    for v, ev in handed:
        inner = sorted(l for l in v.alias if operand_root(l) and l[1] and
                       ((v.types is not None and v.types and v.types <= CONT) or _field_is_container(l)))
        if inner:
            rep.violation("R4c", "C19.R4c", fi.qname, "yields-alias:%s" % loc_str((inner[0][0] if inner[0][0] == "self" else "arg",
                                                                                 tuple(p for p in inner[0][1] if p != "[]"))),
                          "an element handed out by %s is the operand's own container %s, not a copy: editing it edits the "
                          "source" % (ename, loc_str(inner[0])),
                          site=(ev.site.to_json() if ev is not None else site_of(eng.prog, fi, fi.node)), path=[ename])
            break
    else:
        if any(ev is not None for _, ev in handed):
            rep.holds("R4c", "C19.R4c", fi.qname, "yields-fresh:" + eng.prog.classes[cq].name,
                      "no element handed out by the generator is a builtin container kept inside an operand")
    # a generator that yields a mutable builtin container it ALSO keeps in its own working storage (appended to / stored in
    # another container of the frame) and goes on: the consumer holds the very object later answers are built from, so
    # editing a received element changes what the generator yields next (aliasing between an answer and live state)
    ys = [(v, ev) for v, ev in handed if ev is not None and v.types is not None and v.types and v.types <= CONT]
    if ys:
        kept = {}
        for w in summ.events:
            if w.kind == "write" and w.value is not None and w.func is fi and \
                    w.wkind in ("mutate:append", "mutate:add", "mutate:insert", "mutate:appendleft", "subscript", "mutate:setdefault"):
                for l in w.value.alias:
                    if l[0].startswith("fresh:") and not l[1]:
                        kept.setdefault(l, w)
        bad = [(v, ev, l) for v, ev in ys for l in v.alias if l in kept]
        if bad:
            v, ev, l = bad[0]
            rep.violation("R4c", "C19.R4c", fi.qname, "yields-retained-storage",
                          "%s yields a %s that it also keeps in its own working storage (%s): a consumer that edits the received "
                          "element changes the elements yielded afterwards" % (ename, "/".join(sorted(v.types)),
                                                                               kept[l].site.text[:60]),
                          site=ev.site.to_json(), path=[ename])
        else:
            rep.holds("R4c", "C19.R4c", fi.qname, "yields-not-retained:" + eng.prog.classes[cq].name,
                      "no mutable element handed out by the generator is also kept in its working storage")
    if ret.types is None and not ret.alias:
        return
    mut_types = set()
    for m in MUTATORS:
        mut_types |= set(eng.prog.subclasses(m))
    types = ret.types or frozenset()
    is_machine = bool(types & mut_types)
    is_container_conv = fi.name.startswith("to_") and bool(types & {"dict", "list", "set"})
    if not (is_machine or is_container_conv):
        # a result of a class without in-place API can still expose an operand's mutable part in a public field
        if types & set(eng.prog.classes):
            shared = shared_parts(eng, summ, mut_types)
            if shared:
                ev, l, field = shared[0]
                rep.violation("R4c", "C19.R4c", fi.qname, "result-shares:%s" % field,
                              "the object returned by %s is new, but its field `%s` is the operand's own mutable %s: "
                              "mutating it through the result changes the source" % (ename, field, loc_str(l)),
                              site=ev.site.to_json(), path=[ename])
        return
    if cq not in mut_types and not is_container_conv and not (set(eng.prog.classes[cq].mro) & set(MUTATORS)):
        # receiver class has no in-place API: aliasing its own parts cannot be observed through it (CFG.to_normal_form)
        pass
    aliases = returned_operand_aliases(ret)
    # a field that held the returned object while it was being built and is overwritten before the function returns
    # (`res = self._f; self._f = None; return res`) does not keep it: on exit self._f is something else on every path
    def _still_held(l):
        if l[0] == "self" and len(l[1]) == 1 and l[1][0] in summ.self_out:
            val, strong = summ.self_out[l[1][0]]
            if strong and val is not None and val.types is not None and val.types and not (set(val.alias) & set(ret.alias) - {l}) \
                    and val.only("None"):
                return False
        return True
    aliases = [l for l in aliases if _still_held(l)]
    # only operands that have a public mutator matter: the alias is observable by mutating either side
    aliases = [l for l in aliases if _loc_is_mutable_machine(eng, cq, fi, l, is_container_conv)]
    if aliases:
        for l in aliases:
            what = "self" if (l[0] == "self" and not l[1]) else loc_str(l)
            role = "returns-alias:%s" % ("self" if not l[1] else ("self." + ".".join(p for p in l[1] if p != "[]")
                                                                  if l[0] == "self" else "arg"))
            rets = [ev for ev in summ.events if ev.kind == "ret"]
            site = rets[0].site.to_json() if rets else None
            for ev in rets:
                if ev.value is not None and l in ev.value.alias:
                    site = ev.site.to_json()
                    break
            rep.violation("R4c", "C19.R4c", fi.qname, role,
                          "conversion %s can return %s itself (not a fresh object): mutating the result changes the source"
                          % (ename, what), site=site, path=[ename])
    else:
        shared = shared_parts(eng, summ, mut_types)
        if shared:
            ev, l, field = shared[0]
            rep.violation("R4c", "C19.R4c", fi.qname, "result-shares:%s" % field,
                          "the object returned by %s is new, but its field `%s` is the operand's own mutable %s: mutating "
                          "the result through its public API changes the source" % (ename, field, loc_str(l)),
                          site=ev.site.to_json(), path=[ename])
        else:
            rep.holds("R4c", "C19.R4c", fi.qname, "fresh-result:" + eng.prog.classes[cq].name,
                      "every return path yields an object created during the call, sharing no mutable part with an "
                      "operand")


def shared_parts(eng, summ, mut_types):
    """Fields of the returned (fresh) object that are assigned an operand's own mutable sub-object - an object of a
    class with a public in-place API, held in a field of an operand."""
    roots = {l[0] for l in summ.ret.alias if l[0].startswith("fresh:")}
    out = []
    for ev, chain in summ.walk():
        if ev.kind != "write" or ev.wkind != "attr" or ev.value is None:
            continue
        if not any(l[0] in roots and len(l[1]) == 1 for l in ev.target):
            continue
        tys = ev.value.types or frozenset()
        if tys & mut_types:
            for l in sorted(ev.value.alias):
                if operand_root(l) and l[1] and l[1][-1] != "[]" and not cache_elems(l):
                    out.append((ev, l, ev.attr))
        # a new container whose elements are the operand's own mutable containers (shallow copy of a dict of sets)
        el = ev.value.elem
        for q in ev.value.quals:
            if isinstance(q, tuple) and q[0] == "SHALLOW_COPY_OF" and operand_root(q[1]) and not cache_elems(q[1]):
                inner = _stored_elem_types(eng, q[1])
                if inner is None and el is not None:
                    inner = el.types
                if inner is not None and (inner & {"set", "list", "dict"}):
                    out.append((ev, q[1], ev.attr + "[]"))
    return out


def _stored_elem_types(eng, l):
    """Element types of the container stored in field l (from the field table of every class having that field)."""
    if not l[1]:
        return None
    f = l[1][-1]
    out = None
    for (cq, fname), av in eng.interp.field_table.items():
        if fname == f and av is not None and av.elem is not None and av.elem.types is not None:
            out = (out or frozenset()) | av.elem.types
    return out


def _loc_is_mutable_machine(eng, cq, fi, l, is_container_conv):
    if l[0] == "self":
        if not l[1]:
            return bool(set(eng.prog.classes[cq].mro) & set(MUTATORS))
        return True
    return True


# --------------------------------------------------------------------------- R4b
def check_r4b(eng, rep, cache_writes, structural=True):
    prog = eng.prog
    seen = set()
    n = {"D1": 0, "D2": 0, "D3": 0, "D4": 0, "D5": 0, "scratch": 0}
    d2_events = []
    # cache objects (re)assigned in some entry: fills of such an object are part of building it
    assigned = set()
    for ename, fi, cq, ev, chain, l in cache_writes:
        if ev.wkind == "attr" and ev.attr in CACHE_FIELDS:
            assigned.add((ename, l))
    for ename, fi, cq, ev, chain, l in cache_writes:
        elems = cache_elems(l)
        fieldname = elems[-1]
        if not (ev.wkind == "attr" and ev.attr == fieldname):
            # a write *inside* the object kept in a cache
            idx = max(i for i, p in enumerate(l[1]) if p == fieldname)
            holder = (l[0], l[1][: idx + 1])
            if (ename, holder) in assigned and CACHE_FIELDS[fieldname][0] in ("D1", "D3"):
                continue
        disc = CACHE_FIELDS[fieldname][0]
        key = (ev.site.func, ev.site.text, ev.site.line, ev.wkind, fieldname)
        if key in seen:
            continue
        seen.add(key)
        n[disc] = n.get(disc, 0) + 1
        if disc in ("D1", "D3"):
            check_d1(eng, rep, ename, ev, chain, l, fieldname)
        elif disc == "D5":
            check_d5(eng, rep, ename, ev, chain, l, fieldname)
        elif disc == "D2":
            d2_events.append((ename, ev, chain, l))
        elif ev.wkind == "attr" and ev.attr == fieldname and _own_none_guard(ev, fieldname) and CACHE_FIELDS[fieldname][1] \
                and any(MUTATORS.get(o) for o in CACHE_FIELDS[fieldname][1]) \
                and ev.func.name not in ("__iter__", "__next__"):       # iterator-protocol state is reset by __iter__
            rep.violation("R4b", "C19.R4b-scratch", ev.site.func, "scratch-kept-across-calls:" + fieldname,
                          "the scratch field %s is now filled only when it is None, i.e. kept from one call to the next, but "
                          "the public mutators of its class (%s) do not reset it: after a mutation the next call answers "
                          "from the stale object" % (fieldname, ", ".join(sorted(
                              m for o in CACHE_FIELDS[fieldname][1] for m in MUTATORS.get(o, [])))[:120]),
                          site=ev.site.to_json(), path=[ename] + chain_strs(chain))
        else:
            rep.holds("R4b", "C19.R4b-scratch", ev.site.func, "scratch-write:" + fieldname,
                      "write to declared scratch field (no answer is read from it across calls)", nontrivial=False)
    check_d2(eng, rep, d2_events, report_none=structural)
    if structural:
        check_d3(eng, rep)
        check_d4(eng, rep)
        check_d5_reads(eng, rep)
    rep.stats["cache_write_sites"] = n


def check_d1(eng, rep, ename, ev, chain, l, fieldname):
    """derived-once: a cache is assigned under an `is None` guard of a cache of the same object, or with a value that
    is fresh / derived from that same object; never with something handed over from another object."""
    func = ev.site.func
    if ev.wkind != "attr" or ev.attr != fieldname:
        # update inside a cache structure (e.g. self._impacts.setdefault(..).append(..)) while it is being built:
        # must itself sit under the None guard of the builder
        guarded = _has_none_guard(ev)
        if guarded or func.endswith("__init__"):
            rep.holds("R4b", "C19.R4b-D1", func, "cache-fill:" + fieldname, "cache structure filled under its None guard",
                      nontrivial=True)
        else:
            rep.violation("R4b", "C19.R4b-D1", func, "cache-fill-unguarded:" + fieldname,
                          "cache structure %s updated outside the `is None` guard that builds it (entry %s)"
                          % (fieldname, ename), site=ev.site.to_json(), path=[ename] + chain_strs(chain))
        return
    target_obj = (l[0], l[1][:-1])
    val = ev.value
    if func.endswith(".__init__") and not target_obj[1]:
        return
    if _borrowed_and_restored(ev, fieldname):
        rep.holds("R4b", "C19.R4b-D1", func, "cache-lent-and-restored:" + fieldname,
                  "the field is lent a value for the duration of one call and put back in a `finally` (saved before, "
                  "restored whatever happens)")
        return
    guarded = _has_none_guard(ev)
    foreign = []
    if val is not None:
        for d in sorted(val.alias):
            if operand_root(d) and not _under(d, target_obj):
                foreign.append(d)
    own_object = val is not None and any((a[0], a[1]) == target_obj for a in val.alias)
    if foreign and not own_object:
        rep.violation("R4b", "C19.R4b-D1", func, "cache-from-other-object:" + fieldname,
                      "cache field %s of %s is assigned an object owned by another object (%s): the cache then answers "
                      "for that other object" % (fieldname, loc_str(target_obj), ", ".join(loc_str(f) for f in foreign)),
                      site=ev.site.to_json(), path=[ename] + chain_strs(chain))
        return
    fresh_only = val is not None and val.alias and all(a[0].startswith("fresh:") for a in val.alias)
    none_val = val is not None and val.only("None")
    if guarded or fresh_only or none_val or own_object or (val is not None and not val.alias):
        rep.holds("R4b", "C19.R4b-D1", func, "cache-assign:" + fieldname,
                  "assigned under an `is None` guard or with a fresh value derived from the object itself")
    else:
        rep.violation("R4b", "C19.R4b-D1", func, "cache-assign-unguarded:" + fieldname,
                      "cache field %s assigned without `is None` guard and with a non-fresh value" % fieldname,
                      site=ev.site.to_json(), path=[ename] + chain_strs(chain))


def _borrowed_and_restored(ev, fieldname) -> bool:
    """`saved = x._f` ... `x._f = <lent>` ... `try: .. finally: x._f = saved` in one function (the assignment judged is
    the lending one or the restoring one): whatever the callee does with the lent value, the field holds its own value
    again when the function returns - on every path, because the restore sits in a `finally`."""
    fn = ev.func.node
    node = ev.node
    tgt = None
    for st in ast.walk(fn):
        if isinstance(st, ast.Assign) and (st is node or any(x is node for x in ast.walk(st))):
            for t_ in st.targets:
                if isinstance(t_, ast.Attribute) and t_.attr == fieldname:
                    tgt = ast.unparse(t_)
    if tgt is None and isinstance(node, ast.Attribute) and node.attr == fieldname:
        tgt = ast.unparse(node)
    if tgt is None:
        return False
    saved = {st.targets[0].id for st in ast.walk(fn) if isinstance(st, ast.Assign) and len(st.targets) == 1 and
             isinstance(st.targets[0], ast.Name) and ast.unparse(st.value) == tgt}
    if not saved:
        return False
    for tr in ast.walk(fn):
        if isinstance(tr, ast.Try) and tr.finalbody:
            for st in tr.finalbody:
                if isinstance(st, ast.Assign) and any(ast.unparse(t_) == tgt for t_ in st.targets) and \
                        isinstance(st.value, ast.Name) and st.value.id in saved:
                    return True
    return False


def _under(d, obj):
    return d[0] == obj[0] and d[1][:len(obj[1])] == obj[1]


def _own_none_guard(ev, fieldname) -> bool:
    """the write sits under `<x>.<fieldname> is None` (the field is filled once and kept)"""
    for text, pol, _names in ev.facts:
        if ("." + fieldname + " is not None") in text and pol is False:
            return True
        if ("." + fieldname + " is None") in text and pol is True:
            return True
    return False


def _has_none_guard(ev) -> bool:
    for text, pol, _names in ev.facts:
        for cf in CACHE_FIELDS:
            if ("." + cf + " is not None") in text and pol is False:
                return True
            if ("." + cf + " is None") in text and pol is True:
                return True
    return False


def check_d2(eng, rep, d2_events, report_none=True):
    """scratch-restore: every in-place update of the shared counters CFG._remaining_lists (reached through any alias:
    the write events carry the location) is undone on every path to every exit of the function that performs it."""
    prog = eng.prog
    by_func = {}
    for ename, ev, chain, l in d2_events:
        by_func.setdefault(ev.func.qname, []).append((ename, ev, chain, l))
    n = 0
    for fq, evs in sorted(by_func.items()):
        fi = evs[0][1].func
        nodes = {id(ev.node) for _, ev, _, _ in evs}
        if fi.name == "_set_impacts_and_remaining_lists" or fi.name == "__init__":
            continue      # builds the structure (D1 fill under the None guard)
        decs = [sub for sub in ast.walk(fi.node) if isinstance(sub, ast.AugAssign) and id(sub.target) in nodes]
        other = [ev for _, ev, _, _ in evs if ev.wkind != "augassign"]
        subs = [d for d in decs if isinstance(d.op, ast.Sub)]
        adds = [d for d in decs if isinstance(d.op, ast.Add)]
        n += 1
        if other and not subs:
            ev = other[0]
            rep.violation("R4b", "C19.R4b-D2", fq, "scratch-overwrite:_remaining_lists",
                          "the shared counters are overwritten (%s) outside the function that builds them" % ev.wkind,
                          site=ev.site.to_json())
            continue
        if not subs:
            continue
        if not adds:
            inl = _inline_restorer(prog, fi, subs)
            if inl is not None:
                ok, why, node = inl
                if ok:
                    rep.holds("R4b", "C19.R4b-D2", fq, "scratch-restore:_remaining_lists",
                              "every decrement is logged and the log is handed to the restoring helper on every path to "
                              "every exit")
                else:
                    rep.violation("R4b", "C19.R4b-D2", fq, "scratch-restore:_remaining_lists", why,
                                  site=site_of(prog, fi, fi.node), path=[evs[0][0]])
                continue
            verdict = _split_restore(prog, fi, subs)
            if verdict is not None:
                okk, why2, node2, fatal = verdict
                if okk:
                    rep.holds("R4b", "C19.R4b-D2", fq, "scratch-restore:_remaining_lists",
                              "the decrements are logged, the log is returned, and every caller hands it to the restoring "
                              "helper before any exit")
                elif fatal:
                    rep.violation("R4b", "C19.R4b-D2", fq, "scratch-restore:_remaining_lists", why2,
                                  site=site_of(prog, fi, node2 or fi.node), path=[evs[0][0]])
                else:
                    rep.error("R4b", "C19.R4b-D2", fq, "scratch-restore:_remaining_lists",
                              "decrement and restore are split over helpers in a way the rule cannot follow: " + why2,
                              site=site_of(prog, fi, node2 or fi.node))
                continue
        ok, why, node = _restore_pairing(fi, subs, adds)
        if not ok and not adds and any(not isinstance(d.value, ast.Constant) for d in subs if isinstance(d, ast.AugAssign)):
            # `counters[..] -= step` with a variable step: the same function can be its own inverse (called again with
            # step = -1 to undo); whether every call is undone is a matter of the callers the rule does not follow
            rep.error("R4b", "C19.R4b-D2", fq, "scratch-restore:_remaining_lists",
                      "the shared counters are updated by a variable amount (`%s`): the update may be undone by calling the "
                      "same code with the opposite amount, which this rule cannot follow" % ast.unparse(subs[0])[:60],
                      site=site_of(prog, fi, subs[0]))
            continue
        if ok:
            rep.holds("R4b", "C19.R4b-D2", fq, "scratch-restore:_remaining_lists",
                      "every decrement is logged and the restore loop runs on every path to every exit")
        else:
            rep.violation("R4b", "C19.R4b-D2", fq, "scratch-restore:_remaining_lists", why,
                          site=site_of(prog, fi, node or fi.node), path=[evs[0][0]])
    if n == 0 and report_none:
        rep.holds("R4b", "C19.R4b-D2", CFG + "._get_generating_or_nullable", "scratch-restore:none",
                  "no in-place update of the shared counters exists (they are copied first)", nontrivial=False)


def _calls_named(node, name):
    return [c for c in ast.walk(node) if isinstance(c, ast.Call) and (
        (isinstance(c.func, ast.Attribute) and c.func.attr == name) or (isinstance(c.func, ast.Name) and c.func.id == name))]


def _inline_restorer(prog, fi, subs):
    """Decrements (and their log) stay in `fi`; the restore loop was extracted into a private helper that receives the
    log: `self._restore(log)` as a top-level statement of `fi`.  The helper's loop is put back in place of the call
    (its loop variable over the log parameter renamed to the argument) and the ordinary pairing rule decides.
    None when `fi` has no such call."""
    import copy
    if fi.cls is None:
        return None
    shape = _shape(subs[0].target)
    methods = {}
    for q in fi.cls.mro:
        c = prog.classes.get(q)
        if c is not None:
            for n, m in c.methods.items():
                methods.setdefault(n, m)
    for i, st in enumerate(fi.node.body):
        if not (isinstance(st, ast.Expr) and isinstance(st.value, ast.Call) and isinstance(st.value.func, ast.Attribute)
                and isinstance(st.value.func.value, ast.Name) and st.value.func.value.id == "self"
                and st.value.func.attr in methods and st.value.func.attr != fi.name):
            continue
        m = methods[st.value.func.attr]
        params = [a.arg for a in m.node.args.args][1:]
        loops = [lp for lp in m.node.body if isinstance(lp, ast.For) and any(
            isinstance(a, ast.AugAssign) and isinstance(a.op, ast.Add) and _shape(a.target) == shape for a in ast.walk(lp))]
        others = [x for x in m.node.body if x not in loops and not (isinstance(x, ast.Expr) and isinstance(x.value, ast.Constant))]
        if len(loops) != 1 or others or len(st.value.args) != len(params) or st.value.keywords:
            continue
        if not all(isinstance(a, ast.Name) for a in st.value.args):
            continue
        ren = {pn: a.id for pn, a in zip(params, st.value.args)}
        fn2 = copy.deepcopy(fi.node)
        lp2 = copy.deepcopy(loops[0])
        for x in ast.walk(lp2.iter):
            if isinstance(x, ast.Name) and x.id in ren:
                x.id = ren[x.id]
        fn2.body[i] = lp2

        class _Shim:
            pass
        sh = _Shim()
        sh.node = fn2
        ids = {(d.lineno, d.col_offset) for d in subs}
        subs2 = [d for d in ast.walk(fn2) if isinstance(d, ast.AugAssign) and isinstance(d.op, ast.Sub)
                 and (d.lineno, d.col_offset) in ids and d not in list(ast.walk(lp2))]
        adds2 = [a for a in ast.walk(lp2) if isinstance(a, ast.AugAssign) and isinstance(a.op, ast.Add)
                 and _shape(a.target) == shape]
        if len(subs2) != len(subs):
            return None
        return _restore_pairing(sh, subs2, adds2)
    return None


def _split_restore(prog, fi, subs):
    """Decrement in one private helper, restore in another (extract-method form of the same discipline).  Returns None
    when no restoring helper exists at all (then the decrement really is never restored), else (ok, why, node, fatal)."""
    if fi.cls is None:
        return None
    shape = _shape(subs[0].target)
    methods = {}
    for q in fi.cls.mro:
        c = prog.classes.get(q)
        if c is not None:
            for n, m in c.methods.items():
                methods.setdefault(n, m)
    restorers = {}
    for n, m in methods.items():
        for lp in ast.walk(m.node):
            if isinstance(lp, ast.For) and any(isinstance(a, ast.AugAssign) and isinstance(a.op, ast.Add)
                                               and _shape(a.target) == shape for a in ast.walk(lp)):
                restorers[n] = (m, lp)
    restorers.pop(fi.name, None)
    if not restorers:
        return None
    # F side: every decrement is logged just before it, and the log is what F returns
    rets = [r for r in ast.walk(fi.node) if isinstance(r, ast.Return) and r.value is not None]
    if len(rets) != 1 or not isinstance(rets[0].value, ast.Name):
        return False, "%s does not return its modification log" % fi.name, fi.node, False
    log = rets[0].value.id
    for d in subs:
        blk = _enclosing_block(fi.node, d)
        pos = [i for i, s_ in enumerate(blk) if s_ is d][0]
        idx_names = sorted({x.id for x in ast.walk(d.target) if isinstance(x, ast.Name)} - {"self"})
        if not any(isinstance(s_, ast.Expr) and isinstance(s_.value, ast.Call) and isinstance(s_.value.func, ast.Attribute)
                   and s_.value.func.attr == "append" and ast.unparse(s_.value.func.value) == log
                   and sorted({x.id for x in ast.walk(s_.value) if isinstance(x, ast.Name)} - {log}) == idx_names
                   for s_ in blk[:pos]):
            return False, "decrement is not recorded in the log %s that %s returns" % (log, fi.name), d, True
    # callers: F's result goes to a restorer before any exit
    callers = [m for n, m in methods.items() if n != fi.name and _calls_named(m.node, fi.name)]
    if not callers:
        return False, "nobody calls %s" % fi.name, fi.node, False
    for g in callers:
        body = g.node.body
        idx_f = [i for i, st in enumerate(body) if _calls_named(st, fi.name)]
        if len(idx_f) != 1 or not isinstance(body[idx_f[0]], ast.Assign) or not isinstance(body[idx_f[0]].targets[0], ast.Name):
            return False, "the call of %s in %s is not a plain top-level `log = ...`" % (fi.name, g.name), g.node, False
        var = body[idx_f[0]].targets[0].id
        idx_r = [i for i, st in enumerate(body) if i > idx_f[0] and any(
            any(isinstance(a, ast.Name) and a.id == var for a in c.args) for rn in restorers for c in _calls_named(st, rn))]
        if not idx_r:
            return False, "%s never hands the log of %s to a restoring helper" % (g.name, fi.name), body[idx_f[0]], True
        for st in body[idx_f[0] + 1:idx_r[0]]:
            for sub in ast.walk(st):
                if isinstance(sub, (ast.Return, ast.Raise, ast.Yield, ast.YieldFrom)):
                    return False, "an exit (%s) can leave %s between the decrements and the restore" % (
                        type(sub).__name__.lower(), g.name), sub, True
        if not isinstance(body[idx_r[0]], ast.Expr):
            return False, "the restoring call in %s is conditional" % g.name, body[idx_r[0]], False
    for rn, (m, lp) in restorers.items():
        params = [a.arg for a in m.node.args.args]
        if not (isinstance(lp.iter, ast.Name) and lp.iter.id in params and any(lp is st for st in m.node.body)):
            return False, "%s does not restore by an unconditional loop over the log it is given" % rn, lp, False
    return True, "", None, False


def _restore_pairing(fi, subs, adds):
    body = fi.node.body
    # index of the top-level statement containing each decrement / restore
    def top_index(node):
        for i, st in enumerate(body):
            if any(x is node for x in ast.walk(st)):
                return i
        return -1
    first_dec = min(top_index(d) for d in subs)
    last_dec = max(top_index(d) for d in subs)
    if not adds:
        return False, "in-place decrement of self._remaining_lists is never restored", subs[0]
    restore_idx = [top_index(a) for a in adds]
    if min(restore_idx) <= last_dec:
        return False, "restore does not follow the loop that decrements", adds[0]
    r_idx = min(restore_idx)
    restore_loop = body[r_idx]
    log = _log_name(restore_loop.iter) if isinstance(restore_loop, ast.For) else None
    if log is None:
        return False, "restore is not an unconditional loop over the modification log", restore_loop
    # no exit between the first decrement and the end of the restore loop
    for st in body[first_dec:r_idx + 1]:
        for sub in ast.walk(st):
            if isinstance(sub, (ast.Return, ast.Raise, ast.Yield, ast.YieldFrom)):
                return False, "an exit (%s) can leave the function between a decrement and the restore loop" \
                    % type(sub).__name__.lower(), sub
    # every decrement is logged in the same block, before it, with the same indices
    for d in subs:
        blk = _enclosing_block(fi.node, d)
        pos = [i for i, s in enumerate(blk) if s is d][0]
        logged = False
        idx_names = sorted({x.id for x in ast.walk(d.target) if isinstance(x, ast.Name)} - {"self"})
        for s in blk[:pos]:
            # `log.append((a, b))`, `log.add((a, b))`, or a tally `log[(a, b)] += 1`
            is_call = isinstance(s, ast.Expr) and isinstance(s.value, ast.Call) and isinstance(s.value.func, ast.Attribute) \
                and s.value.func.attr in ("append", "add") and isinstance(s.value.func.value, ast.Name) \
                and s.value.func.value.id == log
            is_tally = isinstance(s, (ast.AugAssign, ast.Assign)) and isinstance(
                s.target if isinstance(s, ast.AugAssign) else s.targets[0], ast.Subscript) and ast.unparse(
                (s.target if isinstance(s, ast.AugAssign) else s.targets[0]).value) == log
            if is_call and s.value.func.attr == "add" and not _is_multiset(fi.node, log):
                # the log is a set: a cell decremented twice (two symbols of one body found) is recorded once and
                # restored once - unless the decrement itself only happens for cells not yet in the log
                guarded = any(isinstance(t_, ast.Compare) and isinstance(t_.ops[0], (ast.In, ast.NotIn)) and
                              isinstance(t_.comparators[0], ast.Name) and t_.comparators[0].id == log
                              for t_ in ast.walk(fi.node))
                if not guarded:
                    return False, "the modification log %s is a set: a counter decremented twice is recorded once and " \
                                  "restored once" % log, s
            if is_call or is_tally:
                got = {x.id for x in ast.walk(s) if isinstance(x, ast.Name)} - {log}

                def _expand(names_):
                    # a local that only names something (`entry = (a, b)`, `row = self._f[a]`) stands for its parts
                    names_ = set(names_)
                    for _ in range(2):
                        for prev in blk[:pos]:
                            if isinstance(prev, ast.Assign) and len(prev.targets) == 1 and isinstance(prev.targets[0], ast.Name) \
                                    and prev.targets[0].id in names_:
                                names_ = (names_ - {prev.targets[0].id}) | {x.id for x in ast.walk(prev.value) if isinstance(x, ast.Name)}
                            elif isinstance(prev, ast.Assign) and len(prev.targets) == 1 and isinstance(prev.targets[0], ast.Tuple) \
                                    and isinstance(prev.value, ast.Name) and all(isinstance(e_, ast.Name) for e_ in prev.targets[0].elts):
                                # `head, index = entry`: the parts stand for the entry they were unpacked from
                                parts = {e_.id for e_ in prev.targets[0].elts}
                                if parts & names_:
                                    names_ = (names_ - parts) | {prev.value.id}
                    # a local that names the counter table itself (`counters = self._remaining_lists`) is not an index
                    table = {st_.targets[0].id for st_ in ast.walk(fi.node) if isinstance(st_, ast.Assign)
                             and len(st_.targets) == 1 and isinstance(st_.targets[0], ast.Name)
                             and isinstance(st_.value, ast.Attribute) and st_.value.attr == "_remaining_lists"}
                    return names_ - {"self"} - table
                if sorted(got) == idx_names or _expand(got) == _expand(idx_names):
                    logged = True
        if not logged:
            return False, "decrement is not recorded in the log %s the restore loop iterates" % log, d
    # the restore increments the same access path
    tgt_sub = _xshape(fi.node, subs[0].target)
    if not any(_xshape(fi.node, a.target) == tgt_sub for a in adds):
        return False, "restore increments a different location than the decrement", adds[0]
    return True, "", None


def _is_multiset(fn, log):
    """the log is created as something that keeps multiplicity (a list / deque / Counter), not a set"""
    for st in ast.walk(fn):
        if isinstance(st, ast.Assign) and any(isinstance(t_, ast.Name) and t_.id == log for t_ in st.targets):
            v = st.value
            if isinstance(v, ast.Set) or (isinstance(v, ast.Call) and getattr(v.func, "id", getattr(v.func, "attr", "")) in
                                           ("set", "frozenset")):
                return False
            if isinstance(v, ast.SetComp):
                return False
    return True


def _log_name(it):
    """the log a restore loop runs over: `log`, `log.items()`, `log.keys()`, `log.elements()`, `sorted(log)`, `list(log)`"""
    if isinstance(it, ast.Name):
        return it.id
    if isinstance(it, ast.Call) and isinstance(it.func, ast.Attribute) and it.func.attr in ("items", "keys", "elements") and \
            isinstance(it.func.value, ast.Name) and not it.args:
        return it.func.value.id
    if isinstance(it, ast.Call) and isinstance(it.func, ast.Name) and it.func.id in ("sorted", "list", "set", "reversed", "tuple") \
            and len(it.args) == 1:
        return _log_name(it.args[0])
    return None


def _xshape(fn, node):
    """_shape with the base name expanded through locals that are assigned exactly once from a subscript / attribute /
    name (`row = table[a]; row[b] -= 1` has the shape of `table[a][b] -= 1`)."""
    import copy
    stores, defs = {}, {}
    for x in ast.walk(fn):
        if isinstance(x, ast.Name) and isinstance(x.ctx, ast.Store):
            stores[x.id] = stores.get(x.id, 0) + 1
        if isinstance(x, ast.Assign) and len(x.targets) == 1 and isinstance(x.targets[0], ast.Name):
            defs[x.targets[0].id] = x.value
    defs = {k: v for k, v in defs.items() if stores.get(k) == 1}
    node = copy.deepcopy(node)
    for _ in range(4):
        base = node
        parent = None
        while isinstance(base, (ast.Subscript, ast.Attribute)):
            parent, base = base, base.value
        if isinstance(base, ast.Name) and base.id in defs and isinstance(defs[base.id], (ast.Subscript, ast.Attribute, ast.Name)):
            repl = copy.deepcopy(defs[base.id])
            if parent is None:
                node = repl
            else:
                parent.value = repl
        else:
            break
    return _shape(node)


def _shape(node):
    s = ast.unparse(node)
    import re
    return re.sub(r"\[[^\]]*\]", "[]", s)


def _enclosing_block(fn, node):
    for sub in ast.walk(fn):
        for fieldname in ("body", "orelse", "finalbody"):
            blk = getattr(sub, fieldname, None)
            if isinstance(blk, list) and any(s is node for s in blk):
                return blk
    return []


def check_d3(eng, rep):
    """no-escape: the automaton kept in Regex._enfa is never handed out by a public method (class EpsilonNFA has a
    public in-place API) - decided in check_r4c through the alias `self._enfa` of the returned value; here: the field
    is never stored into another object."""
    # R4c reports `returns-alias:self._enfa`; nothing more to do when no store into foreign objects exists (D1 covers it)
    return


def check_d4(eng, rep):
    """owner-validated: the scratch attribute `index_cfg_converter` lives on shared value objects (State, Variable,
    StackSymbol); a converter may read it only after writing it itself on every path, or must validate it against
    its own table."""
    prog = eng.prog
    owner = "pyformlang.pda.cfg_variable_converter.CFGVariableConverter"
    if owner not in prog.classes:
        raise AnalysisError("anchor class vanished: " + owner)
    n = 0
    for fi in prog.classes[owner].methods.values():
        reads = [s for s in ast.walk(fi.node) if isinstance(s, ast.Attribute) and s.attr == "index_cfg_converter"
                 and isinstance(s.ctx, ast.Load)]
        if not reads:
            continue
        # value-reads: the attribute is returned / used as an index (not only compared with None)
        value_reads = []
        for r in reads:
            par = _parent(fi.node, r)
            if isinstance(par, ast.Compare) and any(isinstance(c, ast.Constant) and c.value is None
                                                    for c in par.comparators):
                continue
            if isinstance(par, ast.Assign) and len(par.targets) == 1 and isinstance(par.targets[0], ast.Name) and \
                    _only_tested(fi.node, par.targets[0].id):
                continue      # cached in a local that is only looked at by branch conditions (the validation itself)
            value_reads.append(r)
        if not value_reads:
            continue
        n += 1
        for r in value_reads:
            base = ast.unparse(r.value)
            ok = _write_dominates(fi, r, base, owner, prog)
            if ok:
                rep.holds("R4b", "C19.R4b-D4", fi.qname, "scratch-index-read",
                          "index read back only after this converter wrote it on every path")
            else:
                rep.violation("R4b", "C19.R4b-D4", fi.qname, "stale-index-read",
                              "`%s.index_cfg_converter` is used without this converter having written it on every "
                              "path and without checking it against the converter's own table: a value left by another "
                              "converter (objects shared between grammars / automata) is trusted" % base,
                              site=site_of(prog, fi, r))
    if n == 0:
        rep.holds("R4b", "C19.R4b-D4", owner, "scratch-index-read:none",
                  "the converter does not read the shared scratch attribute", nontrivial=False)


def _only_tested(fn, name) -> bool:
    """Every use of the local `name` sits in the test of an `if` / conditional expression / while."""
    tests = [n.test for n in ast.walk(fn) if isinstance(n, (ast.If, ast.IfExp, ast.While))]
    in_tests = {id(x) for t in tests for x in ast.walk(t)}
    uses = [n for n in ast.walk(fn) if isinstance(n, ast.Name) and n.id == name and isinstance(n.ctx, ast.Load)]
    stores = [n for n in ast.walk(fn) if isinstance(n, ast.Name) and n.id == name and isinstance(n.ctx, ast.Store)]
    return len(stores) == 1 and bool(uses) and all(id(u) in in_tests for u in uses)


def _parent(root, node):
    for sub in ast.walk(root):
        for ch in ast.iter_child_nodes(sub):
            if ch is node:
                return sub
    return None


def _write_dominates(fi, read, base, owner, prog) -> bool:
    """Is there, on every path from function entry to `read`, an unconditional statement that assigns
    base.index_cfg_converter (directly, or by calling a method of the owner that does so unconditionally), or a
    membership validation against an owner table?"""
    def assigns(stmt) -> bool:
        if isinstance(stmt, ast.Assign):
            for tgt in stmt.targets:
                if isinstance(tgt, ast.Attribute) and tgt.attr == "index_cfg_converter" and ast.unparse(tgt.value) == base:
                    return True
        if isinstance(stmt, ast.Expr) and isinstance(stmt.value, ast.Call) and isinstance(stmt.value.func, ast.Attribute) \
                and isinstance(stmt.value.func.value, ast.Name) and stmt.value.func.value.id == "self":
            callee = prog.find_method(owner, stmt.value.func.attr)
            if callee is not None and stmt.value.args and ast.unparse(stmt.value.args[0]) == base:
                p0 = callee.params[1] if len(callee.params) > 1 else None
                for s in callee.node.body:
                    if isinstance(s, ast.Assign) and any(isinstance(tg, ast.Attribute) and tg.attr == "index_cfg_converter"
                                                          and ast.unparse(tg.value) == p0 for tg in s.targets):
                        return True
        return False

    def validated(test) -> bool:
        txt = ast.unparse(test)
        return ("self._inverse" in txt) and (base in txt)

    def walk(stmts) -> bool:
        """True when the read is reached with a dominating write in this block."""
        have = False
        for s in stmts:
            if any(x is read for x in ast.walk(s)):
                if have:
                    return True
                if isinstance(s, ast.If):
                    if validated(s.test):
                        return True
                    return walk(s.body) or walk(s.orelse)
                if isinstance(s, (ast.For, ast.While, ast.With, ast.Try)):
                    return walk(getattr(s, "body", []))
                return False
            if assigns(s):
                have = True
            elif isinstance(s, ast.If) and validated(s.test) and any(assigns(b) for b in s.body) and not s.orelse:
                # `if <unset or differs from my own table>: <write it>`: on the other branch it equals the owner's entry
                have = True
        return have
    return walk(fi.node.body)


def check_d5(eng, rep, ename, ev, chain, l, fieldname):
    """monotone accumulator: after construction only additive updates."""
    func = ev.site.func
    additive = ev.wkind in ("mutate:add", "mutate:setdefault", "mutate:update") or \
        (ev.wkind in ("subscript", "attr") and func.endswith(".__init__"))
    if additive:
        rep.holds("R4b", "C19.R4b-D5", func, "monotone:" + fieldname, "additive update of the marking (%s)" % ev.wkind)
    else:
        rep.violation("R4b", "C19.R4b-D5", func, "non-monotone:" + fieldname,
                      "the marking is updated non-additively (%s): answers of later calls depend on earlier calls"
                      % ev.wkind, site=ev.site.to_json(), path=[ename] + chain_strs(chain))


def check_d5_reads(eng, rep):
    """A query that answers from the marking does so after the convergence loop, or on an early exit justified by a
    mark that is never retracted (`return False` when the empty set is marked for the start variable)."""
    prog = eng.prog
    fi = prog.method("IndexedGrammar", "is_empty")
    loops = [s for s in fi.node.body if isinstance(s, ast.While)]
    if len(loops) != 1:
        rep.error("R4b", "C19.R4b-D5", fi.qname, "answer-after-convergence",
                  "expected exactly one convergence loop at the top level of is_empty")
        return
    loop = loops[0]
    bad = None
    for sub in ast.walk(loop):
        if isinstance(sub, ast.Return):
            v = sub.value
            if not (isinstance(v, ast.Constant) and v.value is False):
                bad = sub
    if bad is not None:
        rep.violation("R4b", "C19.R4b-D5", fi.qname, "answer-after-convergence",
                      "is_empty answers something other than `non-empty` from inside the convergence loop: a partial "
                      "marking left by an earlier call can change the answer", site=site_of(prog, fi, bad))
    else:
        rep.holds("R4b", "C19.R4b-D5", fi.qname, "answer-after-convergence",
                  "`empty` is only answered after the marking loop converged; early exits only answer `non-empty`, "
                  "which a monotone marking never retracts")


def check_property_purity_listing(eng, rep):
    """Every @property of every class is an R4a entry point through public_entries for value classes; helper classes'
    properties are checked here so that `property on unknown receiver = pure read` is justified program-wide."""
    prog, interp = eng.prog, eng.interp
    covered = set(VALUE_CLASSES)
    for cq, ci in sorted(prog.classes.items()):
        if cq in covered or cq in eng.abstract:
            continue
        for name, fi in sorted(ci.methods.items()):
            if fi.kind != "property":
                continue
            summ = interp.run_entry(fi, cq)
            w = [(ev, l) for ev, chain, l in writes(summ) if not cache_elems(l)]
            if w:
                ev, l = w[0]
                rep.violation("R4a", "C19.R4a", fi.qname, "property-writes:" + loc_str(l),
                              "property getter writes object state", site=ev.site.to_json())
            else:
                rep.holds("R4a", "C19.R4a", fi.qname, "pure-property", "getter writes nothing", nontrivial=False)
