"""C05 - Regex text, representations, refusal."""
from __future__ import annotations

import ast
import json
import os

from ..model import REGEX, ENFA, FA_EPSILON
from . import names
from .common import site_of
from .flow import (own, min_len as _min_len, Oblig, calls, events, deps_of, arg_deps, SELF, P, result_locs, facts_on_path, has_fact,
                   check_escapes)

RO = "pyformlang.regular_expression.regex_objects"
READER = "pyformlang.regular_expression.regex_reader.RegexReader"
EXPLANATION = (
    "Decides: only MisformedRegexError can be raised explicitly on the path of Regex.__init__, and every integer "
    "subscript of the token list is dominated (interprocedurally) by a guard on its length / emptiness - one site is "
    "justified by name, one is a finding (R6); the reader has a branch for every symbol table and SPECIAL_SYMBOLS is "
    "their concatenation, the Thompson dispatcher handles every concrete Operator subclass and every leaf class, "
    "every concrete Node class has its own printer and grammar rules (R7 exhaustiveness); every spelling a node class "
    "prints is one the reader maps back to the same class, symbols must re-escape what the reader un-escapes, Empty "
    "must not print its internal tag (R7 writer/reader); union / concatenate / kleene_star build the matching head "
    "over [self, other] in order, | and + delegate (R7); each Thompson case realises exactly its son sequences "
    "between s_from and s_to - concatenation [0,1], union [0] or [1], star any number of [0] including none (R1, "
    "abstract path enumeration); generated grammar variables must be fresh (R5). Not decided: that the precedence "
    "rewriter parses every nesting as documented; the language of to_cfg.")


def run(eng, rep, tier):
    prog, interp = eng.prog, eng.interp
    rep.explanation = EXPLANATION
    ob = Oblig(eng, rep, "C05")
    justified = _load_justified()

    # -------------------------------------------------------------- C05.1 exceptions of the reader
    fi = prog.method("Regex", "__init__")
    summ = interp.run_entry(fi, REGEX)
    check_escapes(ob, "R6", "C05.1", fi, summ, {"MisformedRegexError"}, "Regex(...)")
    seen = set()
    for ev, chain in summ.walk():
        if ev.kind != "subscript" or ev.recv is None or not ev.args:
            continue
        if not any(l[1] and l[1][-1] == "_components" for l in ev.recv.alias):
            continue
        idx = ev.args[0]
        if idx.types is not None and not (idx.types & {"int", "bool"}):
            continue
        key = (ev.site.func, ev.site.text)
        if key in seen:
            continue
        seen.add(key)
        node = ev.node
        base_txt = ast.unparse(node.value)
        idx_txt = ast.unparse(node.slice)
        facts = facts_on_path(ev, chain)
        guarded = _len_guard(facts, base_txt, idx_txt, idx)
        fshort = ev.site.func.rsplit(".", 2)[-2] + "." + ev.site.func.rsplit(".", 1)[-1]
        jk = "%s:%s" % (fshort, ev.site.text)
        if guarded:
            rep.holds("R6", "C05.1", ev.site.func, "token-index-guarded:" + ev.site.text[:50],
                      "dominated by a guard on the token list's length / emptiness", site=ev.site.to_json())
        elif jk in justified:
            rep.holds("R6", "C05.1", ev.site.func, "token-index-justified:" + ev.site.text[:50],
                      "justified by name: " + justified[jk], site=ev.site.to_json(), nontrivial=False)
        else:
            rep.violation("R6", "C05.1", ev.site.func, "token-index-unguarded:" + ev.site.text[:50],
                          "`%s` is reached without any guard on the length of the token list on some path: an input "
                          "that empties the list raises IndexError instead of MisformedRegexError" % ev.site.text,
                          site=ev.site.to_json(), path=[str(c.site) for c in chain][-6:])

    # redundant parentheses: the outer-parenthesis strip must be repeated until the text is no longer surrounded
    rc = prog.classes[READER]
    strippers = []
    comp_loc = ("self", ("_components",))

    def _const(e):
        if isinstance(e, ast.Constant):
            return e.value
        if isinstance(e, ast.UnaryOp) and isinstance(e.op, ast.USub) and isinstance(e.operand, ast.Constant):
            return -e.operand.value
        return None
    for name, f in rc.methods.items():
        # a `[1:-1]` slice of the token list (however it is reached: self._components or a local bound to it)
        sf = interp.run_entry(f, READER)
        for ev in sf.events:
            if ev.kind == "slice" and ev.func is f and isinstance(ev.node.slice, ast.Slice) and \
                    _const(ev.node.slice.lower) == 1 and _const(ev.node.slice.upper) == -1 and ev.recv is not None and \
                    comp_loc in ev.recv.alias and f not in strippers:
                strippers.append(f)
    def reaches_itself(f0):
        seen, todo = set(), [f0.name]
        first = True
        while todo:
            cur = todo.pop()
            g = rc.methods.get(cur)
            if g is None:
                continue
            for c in ast.walk(g.node):
                if isinstance(c, ast.Call) and isinstance(c.func, ast.Attribute) and isinstance(c.func.value, ast.Name) \
                        and c.func.value.id == "self":
                    if c.func.attr == f0.name:
                        return True
                    if c.func.attr not in seen:
                        seen.add(c.func.attr)
                        todo.append(c.func.attr)
        return False
    def in_loop(f0):
        return any(isinstance(l, ast.While) and any(isinstance(x, ast.Slice) and _const(x.lower) == 1 and _const(x.upper) == -1
                                                      for x in ast.walk(l)) for l in ast.walk(f0.node))
    for f in strippers:
        ob.decide("R1", "C05.1", f, "paren-strip-repeats", reaches_itself(f) or in_loop(f),
                  "outer parentheses are stripped repeatedly (recursion / loop) until the text is no longer surrounded",
                  "one layer of redundant outer parentheses is stripped at most: `((a b|c))` keeps a layer and is parsed "
                  "with the wrong precedence", None, site=site_of(prog, f, f.node))
    if not strippers:
        rep.error("R1", "C05.1", READER, "paren-strip-repeats", "the outer-parenthesis strip `[1:-1]` was not found")
    # the empty regex denotes the empty language: no Thompson case may add an edge for an Empty leaf
    rx = prog.classes[REGEX]
    for name, f in sorted(rx.methods.items()):
        if not name.startswith("_process_to_enfa"):
            continue
        sfn = interp.run_entry(f, REGEX)
        for ev in own(sfn):
            if ev.kind == "call" and ev.callee.rsplit(".", 1)[-1] in ("add_transition", "_add_epsilon_transition_in_enfa_between"):
                hit = [fct for fct in ev.facts if "Empty" in fct[0] and "isinstance" in fct[0] and fct[1]]
                if hit:
                    rep.violation("R1", "C05.5", f.qname, "empty-leaf-adds-edge",
                                  "an edge is added on the branch where the leaf is `Empty` (%s): the empty regex then "
                                  "accepts the empty word inside a larger expression" % hit[0][0][:80], site=ev.site.to_json())
    rep.holds("R1", "C05.5", REGEX + "._process_to_enfa_when_no_son", "empty-leaf-adds-no-edge:checked",
              "no Thompson case adds an edge under an `isinstance(.., Empty)` test", nontrivial=False)
    # -------------------------------------------------------------- C05.2 exhaustiveness
    tables = {n: prog.const(RO, n) for n in ("CONCATENATION_SYMBOLS", "UNION_SYMBOLS", "KLEENE_STAR_SYMBOLS",
                                             "EPSILON_SYMBOLS", "PARENTHESIS", "SPECIAL_SYMBOLS")}
    want = tables["CONCATENATION_SYMBOLS"] + tables["UNION_SYMBOLS"] + tables["KLEENE_STAR_SYMBOLS"] + \
        tables["EPSILON_SYMBOLS"] + tables["PARENTHESIS"]
    tn = prog.functions[RO + ".to_node"]
    ob.decide("R7", "C05.2", tn, "special-symbols=union-of-tables", sorted(tables["SPECIAL_SYMBOLS"]) == sorted(want),
              "SPECIAL_SYMBOLS is exactly the operator / epsilon / parenthesis tables",
              "SPECIAL_SYMBOLS %r differs from the concatenation of the symbol tables %r" % (tables["SPECIAL_SYMBOLS"], want),
              None, site=site_of(prog, tn, tn.node))
    documented = {"CONCATENATION_SYMBOLS": {"."}, "UNION_SYMBOLS": {"|", "+"}, "KLEENE_STAR_SYMBOLS": {"*"},
                  "EPSILON_SYMBOLS": {"epsilon", "$"}, "PARENTHESIS": {"(", ")"}}
    for tab, need in documented.items():
        ob.decide("R7", "C05.2", tn, "documented-spellings:" + tab, need <= set(tables[tab]),
                  "%s contains the documented spellings %s" % (tab, sorted(need)),
                  "%s = %r lacks a documented spelling (%s)" % (tab, tables[tab], sorted(need - set(tables[tab]))), None,
                  site=site_of(prog, tn, tn.node))
    # the reader's classification, decided by running to_node abstractly on every token of every table
    from ..av import AV as _AV
    for tab, cls in (("CONCATENATION_SYMBOLS", "Concatenation"), ("UNION_SYMBOLS", "Union"),
                     ("KLEENE_STAR_SYMBOLS", "KleeneStar"), ("EPSILON_SYMBOLS", "Epsilon")):
        want_q = RO + "." + cls
        got = {}
        for tok in tables[tab]:
            stn = interp.run_entry(tn, None, args=[_AV(types=frozenset({"str"}), const=tok)])
            got[tok] = stn.ret
        bad = {tok: r.short()[:60] for tok, r in got.items() if not r.only(want_q)}
        ob.decide("R7", "C05.2", tn, "reader-branch:" + tab, bool(got) and not bad,
                  "every token of %s is read as %s" % (tab, cls),
                  "to_node reads %s (expected %s for the tokens of %s)" % (bad, cls, tab), None,
                  site=site_of(prog, tn, tn.node))
    ops = [q for q in prog.subclasses(RO + ".Operator", strict=True)]
    disp = prog.method("Regex", "_process_to_enfa_when_sons")
    handled = {ast.unparse(c.args[1]).rsplit(".", 1)[-1] for c in ast.walk(disp.node)
               if isinstance(c, ast.Call) and getattr(c.func, "id", "") == "isinstance" and len(c.args) == 2}
    for q in ops:
        nm = q.rsplit(".", 1)[-1]
        ob.decide("R7", "C05.2", disp, "thompson-handles:" + nm, nm in handled, "operator %s has a Thompson case" % nm,
                  "operator class %s has no case in the Thompson dispatcher: its sons are silently dropped" % nm, None,
                  site=site_of(prog, disp, disp.node))
    leaf = prog.method("Regex", "_process_to_enfa_when_no_son")
    lh = {ast.unparse(c.args[1]).rsplit(".", 1)[-1] for c in ast.walk(leaf.node)
          if isinstance(c, ast.Call) and getattr(c.func, "id", "") == "isinstance" and len(c.args) == 2}
    ob.decide("R7", "C05.2", leaf, "leaf-cases", {"Epsilon", "Empty"} <= lh,
              "epsilon, empty and plain symbols are distinguished", "the leaf dispatcher does not distinguish Epsilon / Empty",
              None, site=site_of(prog, leaf, leaf.node))
    s_leaf = interp.run_entry(leaf, REGEX)
    adds = [ev for ev, _ in calls(s_leaf, "add_transition")]
    eps_edge = any(len(ev.args) > 1 and ev.args[1].only(FA_EPSILON) for ev in adds)
    sym_edge = any(len(ev.args) > 1 and ("self", ("head", "_value")) in deps_of(ev.args[1]) for ev in adds)
    ob.decide("R1", "C05.5", leaf, "leaf-edges", eps_edge and sym_edge,
              "an epsilon leaf gives an epsilon edge, a symbol leaf an edge labelled with the symbol's value",
              "a leaf is not translated into (epsilon edge | symbol edge)", s_leaf, site=site_of(prog, leaf, leaf.node))
    for q in prog.subclasses(RO + ".Node", strict=True):
        ci = prog.classes[q]
        if q in eng.abstract:
            continue
        for m in ("get_str_repr", "get_cfg_rules"):
            f = prog.find_method(q, m)
            overrides = f is not None and f.cls.qname not in (RO + ".Node", RO + ".Operator")
            ob.decide("R7", "C05.2", f or tn, "node-overrides:%s.%s" % (ci.name, m), overrides,
                      "%s implements %s" % (ci.name, m), "%s does not implement %s" % (ci.name, m), None,
                      site=site_of(prog, f or tn, (f or tn).node), nontrivial=False)

    # -------------------------------------------------------------- C05.3 printer / reader agreement
    # an operator node prints itself inside its own parentheses: the reader gives union the lowest and star the highest
    # priority, so a composite operand printed bare re-parses with another grouping ("(a|b).c" printed as "a|b.c")
    for cls in ("Union", "Concatenation", "KleeneStar"):
        f = prog.find_method(RO + "." + cls, "get_str_repr")
        rets = [r for r in ast.walk(f.node) if isinstance(r, ast.Return) and r.value is not None]
        shapes = [_string_parts(r.value) for r in rets]
        understood = bool(shapes) and all(sh is not None for sh in shapes)
        if not understood:
            rep.error("R7", "C05.3", f.qname, "printer-parenthesises:" + cls,
                      "the printed form of %s is not built by concatenation / format of string pieces; the rule cannot "
                      "follow it" % cls, site=site_of(prog, f, f.node))
            continue
        ok = all(sh and isinstance(sh[0], str) and sh[0].startswith("(") and
                 any(isinstance(x, str) and ")" in x for x in sh[1:]) for sh in shapes)
        ob.decide("R7", "C05.3", f, "printer-parenthesises:" + cls, ok,
                  "%s prints its operands inside its own pair of parentheses" % cls,
                  "%s prints its operands without enclosing parentheses: as an operand of an operator of higher priority "
                  "the text parses back with another grouping" % cls, None, site=site_of(prog, f, rets[0]))
    for cls, tab in (("Union", "UNION_SYMBOLS"), ("Concatenation", "CONCATENATION_SYMBOLS"),
                     ("KleeneStar", "KLEENE_STAR_SYMBOLS"), ("Epsilon", "EPSILON_SYMBOLS")):
        f = prog.find_method(RO + "." + cls, "get_str_repr")
        consts = [c.value for c in ast.walk(f.node) if isinstance(c, ast.Constant) and isinstance(c.value, str)
                  and c is not _doc(f.node)]
        chars = set("".join(consts)) - set("()")
        ok = bool(chars) and all(ch in "".join(tables[tab]) or ch in "".join(tables["CONCATENATION_SYMBOLS"])
                                 for ch in chars) and any(ch in tables[tab] for ch in chars)
        ob.decide("R7", "C05.3", f, "printer-spelling:" + cls, ok,
                  "%s prints a spelling of %s" % (cls, tab),
                  "%s prints %r, which the reader does not map back to %s" % (cls, consts, cls), None,
                  site=site_of(prog, f, f.node))
    fs = prog.find_method(RO + ".Symbol", "get_str_repr")
    src = ast.unparse(fs.node)
    escapes = "SPECIAL_SYMBOLS" in src or "\\\\" in src
    unescapes = any(isinstance(s, ast.Subscript) and isinstance(s.slice, ast.Slice) and "value" in ast.unparse(s.value)
                    for s in ast.walk(tn.node))
    ob.decide("R7", "C05.3", fs, "printer-escapes-specials", escapes or not unescapes,
              "symbols are printed with the escapes the reader removes",
              "the reader un-escapes `\\x` into the symbol x, but Symbol.get_str_repr prints the bare value: a symbol "
              "that is an operator character prints as that operator", None, site=site_of(prog, fs, fs.node))
    fe = prog.find_method(RO + ".Empty", "get_str_repr")
    ob.decide("R7", "C05.3", fe, "empty-printer", fe.cls.qname == RO + ".Empty",
              "Empty has its own printer", "Empty inherits Symbol's printer and prints its internal tag `Empty`, which "
              "reads back as a symbol", None, site=site_of(prog, fe, fe.node))

    # -------------------------------------------------------------- C05.4 combinators
    for meth, head, binary in (("union", "Union", True), ("concatenate", "Concatenation", True), ("kleene_star", "KleeneStar", False)):
        f = prog.method("Regex", meth)
        s = interp.run_entry(f, REGEX)
        res = result_locs(s)
        heads = [ev for ev in own(s) if ev.kind == "write" and ev.attr == "head" and ev.recv is not None and (ev.recv.alias & res)]
        sons = [ev for ev in own(s) if ev.kind == "write" and ev.attr == "sons" and ev.recv is not None and (ev.recv.alias & res)]
        okh = bool(heads) and all(ev.value is not None and ev.value.only(RO + "." + head) for ev in heads)
        ob.decide("R7", "C05.4", f, "head=" + head, okh, "%s builds a %s node" % (meth, head),
                  "%s does not build a %s node" % (meth, head), s, site=site_of(prog, f, f.node))
        oks = False
        for ev in sons:
            it = ev.value.items if ev.value is not None else None
            if it is not None and len(it) == (2 if binary else 1) and SELF in it[0].alias and \
                    (not binary or P("other") in it[1].alias):
                oks = True
        ob.decide("R7", "C05.4", f, "sons=[self,other]" if binary else "sons=[self]", oks,
                  "the sons are the operands, in order", "%s does not take [self%s] as sons, in that order"
                  % (meth, ", other" if binary else ""), s, site=site_of(prog, f, f.node))
    for dunder, target in (("__or__", "union"), ("__add__", "concatenate")):
        f = prog.method("Regex", dunder)
        s = interp.run_entry(f, REGEX)
        cs = [ev for ev, _ in calls(s, target, own=True)]
        ok = any(ev.recv is not None and SELF in ev.recv.alias and ev.args and P("other") in ev.args[0].alias and
                 bool(s.ret.alias & ev.result.alias) for ev in cs)
        ob.decide("R7", "C05.4", f, "delegates-to:" + target, ok, "%s is %s" % (dunder, target),
                  "%s does not delegate to %s" % (dunder, target), s, site=site_of(prog, f, f.node))

    # -------------------------------------------------------------- C05.5 Thompson cases
    for meth, want_seqs, label in (("_process_to_enfa_concatenation", {(0, 1)}, "concatenation"),
                                   ("_process_to_enfa_union", {(0,), (1,)}, "union"),
                                   ("_process_to_enfa_kleene_star", {(), (0,), (0, 0)}, "star")):
        f = prog.method("Regex", meth)
        s = interp.run_entry(f, REGEX)
        seqs, why = thompson_sequences(s)
        if seqs is None:
            rep.error("R1", "C05.5", f.qname, "thompson-paths:" + label,
                      "the %s case cannot be reduced to a graph over named states %s" % (label, why),
                      site=site_of(prog, f, f.node))
            continue
        ob.decide("R1", "C05.5", f, "thompson-paths:" + label, seqs == want_seqs,
                  "between s_from and s_to the construction realises exactly the son sequences %s" % sorted(want_seqs),
                  "the %s case realises the son sequences %s between s_from and s_to (expected %s) %s"
                  % (label, sorted(seqs), sorted(want_seqs), why), s, site=site_of(prog, f, f.node))
    names.check(eng, rep, "C05")
    rep.stats.update(eng.stats())
    rep.stats["justified_sites"] = justified
    rep.floor = 40


def _string_parts(e):
    """A string expression as a sequence of literal pieces (str) and dynamic pieces (None): `+` chains, f-strings,
    "..." % x and "...".format(..) are understood; anything else gives None."""
    if isinstance(e, ast.Constant) and isinstance(e.value, str):
        return [e.value]
    if isinstance(e, ast.BinOp) and isinstance(e.op, ast.Add):
        a, b = _string_parts(e.left), _string_parts(e.right)
        return None if a is None or b is None else a + b
    if isinstance(e, ast.JoinedStr):
        return [v.value if isinstance(v, ast.Constant) else None for v in e.values]
    if isinstance(e, ast.BinOp) and isinstance(e.op, ast.Mod) and isinstance(e.left, ast.Constant) and \
            isinstance(e.left.value, str):
        import re as _re
        out = []
        for i, piece in enumerate(_re.split(r"%[sdr]", e.left.value)):
            if i:
                out.append(None)
            if piece:
                out.append(piece)
        return out
    if isinstance(e, ast.Call) and isinstance(e.func, ast.Attribute) and e.func.attr == "format" and \
            isinstance(e.func.value, ast.Constant) and isinstance(e.func.value.value, str):
        import re as _re
        out = []
        for i, piece in enumerate(_re.split(r"\{[^}]*\}", e.func.value.value)):
            if i:
                out.append(None)
            if piece:
                out.append(piece)
        return out
    if isinstance(e, (ast.Call, ast.Name, ast.Attribute, ast.Subscript)):
        return [None]
    return None


def _doc(fn):
    b = fn.body
    if b and isinstance(b[0], ast.Expr) and isinstance(b[0].value, ast.Constant):
        return b[0].value
    return None


def _load_justified():
    path = os.path.join(os.path.dirname(__file__), "justified.json")
    with open(path) as fh:
        return json.load(fh)


def _len_guard(facts, base_txt, idx_txt, idx_av) -> bool:
    """A guard exists: a branch fact mentioning len(<seq>) together with the (non-constant) index expression, or - for
    a constant index k - a fact that implies len(<seq>) > k (k >= 0) resp. len(<seq>) >= -k (k < 0).  The facts are
    evaluated on their syntax (comparison of len(seq) with a constant in either direction, truthiness of seq,
    bool(seq), comparison of seq with an empty display), whatever idiom the guard is written in."""
    need = None
    if idx_av.has_const() and isinstance(idx_av.const, int) and not isinstance(idx_av.const, bool):
        need = idx_av.const + 1 if idx_av.const >= 0 else -idx_av.const
    for text, pol, _names in facts:
        if ("len(%s)" % base_txt) in text and need is None and idx_txt in text:
            return True
        if need is None:
            continue
        try:
            e = ast.parse(text, mode="eval").body
        except SyntaxError:
            continue
        lo = _min_len(e, pol, base_txt)
        if lo is not None and lo >= need:
            return True
    return False


def thompson_sequences(summ):
    """Abstract graph of one Thompson case: nodes = {from, to} + states created here; edges = epsilon transitions
    added here and `son k processed between (a, b)`.  Returns the set of son sequences (truncated to length 2) along
    walks from `from` to `to` that use each edge at most twice."""
    FROM, TO = ("p:s_from", ()), ("p:s_to", ())
    edges = []

    def node_of(av):
        if FROM in av.alias:
            return "from"
        if TO in av.alias:
            return "to"
        fr = sorted(l[0] for l in av.alias if l[0].startswith("fresh:"))
        return fr[0] if fr else None
    for ev, chain in summ.walk():
        if ev.kind != "call":
            continue
        nm = ev.callee.rsplit(".", 1)[-1]
        if any(c.callee.endswith("_process_to_enfa_son") for c in chain):
            continue            # inside a son: another operator's case
        if nm == "_process_to_enfa_son" and len(ev.args) >= 3:
            a, b = node_of(ev.args[0]), node_of(ev.args[1])
            k = ev.args[2].const if ev.args[2].has_const() else None
            if k is None and a is not None and b is not None and ev.args[2].only("int") and \
                    any(isinstance(d, tuple) and len(d) == 2 and d[0] == "self" and d[1][:1] == ("sons",) for d in ev.args[2].deps):
                # `for k in range(len(self.sons))`: one such branch for every son (an operator node has two)
                edges.append((a, b, 0))
                edges.append((a, b, 1))
                continue
            if a is None or b is None or k is None:
                return None, "(a son is processed between states, or with an index, the analysis cannot name)"
            edges.append((a, b, k))
        elif nm == "add_transition" and ev.callee.endswith("FiniteAutomaton.add_transition") and len(ev.args) >= 3:
            a, b = node_of(ev.args[0]), node_of(ev.args[2])
            if a is None or b is None:
                return None, "(an edge joins states the analysis cannot name)"
            if not ev.args[1].only(FA_EPSILON):
                return set(), "(a non-epsilon edge is added by the operator case)"
            edges.append((a, b, None))
    seqs = set()

    def walk(node, used, seq, depth):
        if depth > 14:
            return
        if node == "to":
            seqs.add(tuple(seq[:2]) if len(seq) <= 2 else tuple(seq[:2]))
            if len(seq) > 2:
                return
        for i, (a, b, k) in enumerate(edges):
            if a != node or used.get(i, 0) >= 2:
                continue
            if k is not None and len(seq) >= 3:
                continue
            u = dict(used)
            u[i] = u.get(i, 0) + 1
            walk(b, u, seq + ([k] if k is not None else []), depth + 1)
    walk("from", {}, [], 0)
    # sequences longer than 2 are recorded truncated; keep only what a 2-bounded observer distinguishes
    return {s for s in seqs}, ""
