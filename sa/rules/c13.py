"""C13 - CFG <-> PDA and acceptance-mode conversions."""
from __future__ import annotations

import ast

from ..model import CFG, PDA
from . import names
from .common import site_of
from .flow import (own, element_of_field_or_copy, Oblig, calls, events, deps_of, arg_deps, SELF, P, result_locs)

PEPS = "pyformlang.pda.epsilon.Epsilon"
EXPLANATION = (
    "Decides: the six wrapper names of to_final_state / to_empty_stack come from the freshness loop checked against "
    "the right collection, the terminal stack names must be fresh, result start names are closed-world (R5); the "
    "wrappers are added to copies of the transition function and of the state / alphabet sets (R4a); to_final_state "
    "adds the pop-to-end edge for every state, to_empty_stack for every final state x every symbol of the alphabet "
    "that already contains the new bottom marker, the end state pops every such symbol, the start edge pushes "
    "[start stack symbol, bottom] in that order (R1); in to_cfg every set_valid precedes every is_valid_and_get "
    "(phase order); to_pda has one epsilon transition per production (head popped, body pushed) and one consuming "
    "transition per terminal (R1). Not decided: language equality of the triple construction.")


def run(eng, rep, tier):
    prog, interp = eng.prog, eng.interp
    rep.explanation = EXPLANATION
    ob = Oblig(eng, rep, "C13")
    ST, FS, ALPHA, SSS, SS = (("self", ("_states",)), ("self", ("_final_states",)), ("self", ("_stack_alphabet",)),
                              ("self", ("_start_stack_symbol",)), ("self", ("_start_state",)))

    for meth in ("to_final_state", "to_empty_stack"):
        fi = prog.method("PDA", meth)
        summ = interp.run_entry(fi, PDA)
        adds = [ev for ev, _ in calls(summ, "add_transition", own=True)]
        # ---------------------------------------------------------- R4a: on copies
        fresh = bool(adds) and all(ev.recv is not None and ev.recv.alias and all(l[0].startswith("fresh:") for l in ev.recv.alias)
                                   for ev in adds)
        ob.decide("R4a", "C13.2", fi, "wrappers-on-copy", fresh, "wrapper transitions are added to a copy",
                  "%s adds its wrapper transitions to the PDA's own transition function" % meth, summ,
                  site=site_of(prog, fi, fi.node))
        gens = [ev for ev, _ in calls(summ, "get_next_free", own=True)]
        marker = frozenset().union(*[ev.result.alias for ev in gens if ev.args and "BOTTOM" in str(ev.args[0].const)]) \
            if gens else frozenset()
        ends = frozenset().union(*[ev.result.alias for ev in gens if ev.args and "END" in str(ev.args[0].const)]) \
            if gens else frozenset()
        starts = frozenset().union(*[ev.result.alias for ev in gens if ev.args and "START" in str(ev.args[0].const)]) \
            if gens else frozenset()
        ob.decide("R5", "C13.1", fi, "three-fresh-names", bool(marker) and bool(ends) and bool(starts),
                  "start, end and bottom marker come from the freshness generator",
                  "%s does not obtain its three reserved names from get_next_free" % meth, summ, site=site_of(prog, fi, fi.node))
        # ---------------------------------------------------------- start edge
        st_edges = [ev for ev in adds if ev.args and (ev.args[0].alias & starts)]
        oks = False
        for ev in st_edges:
            push = ev.args[4] if len(ev.args) >= 5 else None
            if push is not None and push.items is not None and len(push.items) == 2:
                top, bot = push.items
                if SSS in deps_of(top) and not (top.alias & marker) and (bot.alias & marker) and \
                        (ev.args[2].alias & marker) and SS in deps_of(ev.args[3]):
                    oks = True
        ob.decide("R1", "C13.3", fi, "start-edge-pushes-[start,bottom]", oks,
                  "the new start state pops the marker, pushes [old start stack symbol, marker] and enters the old start "
                  "state",
                  "the start edge of %s does not push the old start stack symbol on top of the bottom marker" % meth, summ,
                  site=(st_edges[0].site.to_json() if st_edges else site_of(prog, fi, fi.node)))
        to_end = [ev for ev in adds if len(ev.args) > 3 and (ev.args[3].alias & ends) and not (ev.args[0].alias & ends)]
        if meth == "to_final_state":
            ok = bool(to_end) and all(ST in ev.ctrl and (ev.args[2].alias & marker) and
                                      ev.args[1].types is not None and PEPS in ev.args[1].types for ev in to_end)
            ob.decide("R1", "C13.3", fi, "pop-to-end-for-every-state", ok,
                      "every state can pop the bottom marker (epsilon move) into the new final state",
                      "the marker-pop edge into the new final state does not exist for every state", summ,
                      site=(to_end[0].site.to_json() if to_end else site_of(prog, fi, fi.node)))
            news = [ev for ev in own(summ) if ev.kind == "new" and ev.callee == PDA]
            okf = bool(news) and all(len(ev.args) >= 7 and ev.args[6].elem is not None and (ev.args[6].elem.alias & ends)
                                     and (ev.args[4].alias & starts) and (ev.args[5].alias & marker) for ev in news)
            ob.decide("R1", "C13.3", fi, "result-extremities", okf,
                      "the result starts in the new start state on the marker and its only final state is the new end",
                      "to_final_state does not set (new start, marker, {new end}) on the result", summ,
                      site=site_of(prog, fi, fi.node))
        else:
            # the popped symbol ranges over the elements of the stack alphabet itself (identity, not mere dependence: the
            # fresh marker depends on the alphabet too) and over the marker
            ok = bool(to_end) and all(FS in ev.ctrl and (ev.args[2].alias & marker) and element_of_field_or_copy(summ, ev.args[2], ALPHA)
                                      for ev in to_end)
            ob.decide("R1", "C13.3", fi, "final-states-pop-every-symbol-incl-marker", ok,
                      "every final state can pop every symbol of the alphabet extended with the bottom marker",
                      "final states do not get a pop edge for every symbol of the stack alphabet and the new bottom marker", summ,
                      site=(to_end[0].site.to_json() if to_end else site_of(prog, fi, fi.node)))
            loops = [ev for ev in adds if len(ev.args) > 3 and (ev.args[0].alias & ends) and (ev.args[3].alias & ends)]
            ok2 = bool(loops) and all((ev.args[2].alias & marker) and element_of_field_or_copy(summ, ev.args[2], ALPHA) for ev in loops)
            ob.decide("R1", "C13.3", fi, "end-state-pops-every-symbol-incl-marker", ok2,
                      "the end state pops every stack symbol including the bottom marker",
                      "the end state cannot pop every stack symbol (marker included)", summ,
                      site=(loops[0].site.to_json() if loops else site_of(prog, fi, fi.node)))

    # -------------------------------------------------------------- to_cfg phase order
    fi = prog.method("PDA", "to_cfg")
    summ = interp.run_entry(fi, PDA)
    marks, asks = [], []
    for ev, chain in summ.walk():
        if ev.kind == "call" and ev.callee.rsplit(".", 1)[-1] in ("set_valid", "is_valid_and_get"):
            anchor = chain[0].node if chain else ev.node
            (marks if ev.callee.endswith("set_valid") else asks).append(anchor)
    ok = bool(marks) and bool(asks)
    if ok:
        from .flow import _path_to
        def loops_of(n):
            return {id(a) for a in _path_to(fi.node, n) if isinstance(a, (ast.For, ast.While))}
        for m in marks:
            for a in asks:
                if loops_of(m) & loops_of(a):
                    ok = False          # same loop: a query of iteration k precedes the marks of iteration k+1
                if getattr(m, "lineno", 0) > getattr(a, "lineno", 0):
                    ok = False
    ob.decide("PHASE", "C13.4", fi, "set_valid-before-is_valid_and_get", ok,
              "all triples are marked valid before any validity is queried (two passes)",
              "validity is queried before all triples are marked: bodies are pruned depending on transition order", summ,
              site=site_of(prog, fi, fi.node))
    sv = [ev for ev, _ in summ.walk() if ev.kind == "call" and ev.callee.endswith("set_valid")]
    okv = bool(sv) and all(ST in ev.ctrl or ST in arg_deps(ev, 2) for ev in sv)
    ob.decide("R1", "C13.4", fi, "valid-for-every-target-state", okv,
              "a triple (p, X, q) is marked valid for every state q", "set_valid does not range over all states", summ,
              site=site_of(prog, fi, fi.node))
    rd = deps_of(summ.ret)
    for t_, role in ((SS, "start-state"), (SSS, "start-stack-symbol"), (ST, "states"),
                     (("self", ("_transition_function", "_transitions")), "transitions")):
        ob.decide("R1", "C13.4", fi, "grammar-depends-on-" + role, t_ in rd, "the grammar depends on " + role,
                  "to_cfg does not depend on " + role, summ, site=site_of(prog, fi, fi.node))

    # -------------------------------------------------------------- to_pda
    fi = prog.method("CFG", "to_pda")
    summ = interp.run_entry(fi, CFG)
    adds = [ev for ev, _ in calls(summ, "add_transition", own=True)]
    PR, TE = ("self", ("_productions",)), ("self", ("_terminals",))
    eps = [ev for ev in adds if PR in ev.ctrl]
    oke = bool(eps) and all(ev.args[1].types is not None and PEPS in ev.args[1].types and PR in deps_of(ev.args[2])
                            and PR in deps_of(ev.args[4]) for ev in eps if len(ev.args) > 4)
    ob.decide("R1", "C13.5", fi, "epsilon-move-per-production", oke,
              "one epsilon move per production pops the head and pushes the body",
              "to_pda does not translate every production into `pop head, push body`", summ, site=site_of(prog, fi, fi.node))
    cons = [ev for ev in adds if TE in ev.ctrl]
    okc = bool(cons) and all(TE in deps_of(ev.args[1]) and TE in deps_of(ev.args[2]) and ev.args[4].elem is None
                             for ev in cons if len(ev.args) > 4)
    ob.decide("R1", "C13.5", fi, "consuming-move-per-terminal", okc,
              "one move per terminal reads it and pops its stack symbol",
              "to_pda does not add `read a, pop a` for every terminal", summ, site=site_of(prog, fi, fi.node))
    news = [ev for ev in own(summ) if ev.kind == "new" and ev.callee == PDA]
    kw = dict(news[0].kwargs) if news else {}
    oks = bool(news) and "start_stack_symbol" in kw and ("self", ("_start_symbol",)) in deps_of(kw["start_stack_symbol"])
    ob.decide("R1", "C13.5", fi, "start-stack-symbol=start-symbol", oks,
              "the PDA starts with the grammar's start symbol on the stack",
              "the start stack symbol of to_pda is not the grammar's start symbol", summ, site=site_of(prog, fi, fi.node))
    from . import optid
    n_opt = optid.check(eng, rep, "C13", "C13.6", [(prog.method("PDA", "__init__"), PDA)], names.ID_CLASSES)
    if n_opt < 2:
        rep.error("R6", "C13.6", PDA, "optional-identifier-tested-against-None",
                  "the optional start state / start stack symbol of PDA.__init__ were not found (%d)" % n_opt)
    names.check(eng, rep, "C13")
    rep.stats.update(eng.stats())
    rep.floor = 24


def interp_eval_alias(ev, node):
    return None
