"""C18 - feature structures and feature grammars."""
from __future__ import annotations

import ast

from ..model import FS, FCFG
from . import names
from .common import site_of
from .flow import (own, helpers_of, both_answers, Oblig, calls, events, deps_of, arg_deps, SELF, P, has_fact, escaping_raises, short_exc, _path_to)

EXPLANATION = (
    "Decides: the completer unifies only fresh copies of both feature structures and gives the copy to the new state "
    "(unify is destructive) (R4/R8b); no chart index that is being iterated receives a new key inside the loop unless "
    "the two indices are provably different (R8a iterator invalidation); unify's only explicit raise is "
    "FeatureStructuresNotCompatibleException (R6); copy consults its memo before creating and records what it creates, "
    "subsumes compares the value and every feature of the receiver, unify recurses into every feature of its argument "
    "and creates the missing ones (R1); in unify / subsumes / get_feature_by_path every content / value read and every "
    "pointer write goes through a dereferenced node (typestate DEREF); the Earley dummy head must be fresh against the "
    "grammar's variables (R5). Not decided: that unification is the greatest lower bound; Earley completeness.")


def run(eng, rep, tier):
    prog, interp = eng.prog, eng.interp
    rep.explanation = EXPLANATION
    ob = Oblig(eng, rep, "C18")
    comp = prog.functions.get("pyformlang.fcfg.fcfg._completer")
    if comp is None:
        rep.error("R4", "C18.1", "fcfg._completer", "anchor", "the Earley completer vanished")
        return
    sc = interp.run_entry(comp, None)

    # -------------------------------------------------------------- C18.1 unify on copies
    unis = [ev for ev, _ in calls(sc, "unify", own=True)]
    copies = [ev for ev, _ in calls(sc, "copy", own=True)]
    copy_roots = {l[0] for ev in copies if ev.result is not None for l in ev.result.alias if l[0].startswith("fresh:")}

    def fresh_copy(av):
        return av is not None and av.alias and all(l[0] in copy_roots for l in av.alias)
    ok = bool(unis) and all(fresh_copy(ev.recv) and ev.args and fresh_copy(ev.args[0]) for ev in unis)
    ob.decide("R4", "C18.1", comp, "unify-on-fresh-copies", ok,
              "both operands of the destructive unification are copies made in this call",
              "the completer unifies a feature structure that belongs to an existing chart state (unify is destructive)",
              sc, site=(unis[0].site.to_json() if unis else site_of(prog, comp, comp.node)))
    news = [ev for ev in own(sc) if ev.kind == "new" and ev.callee.endswith("fcfg.state.State")]
    okn = bool(news) and all(len(ev.args) > 2 and fresh_copy(ev.args[2]) for ev in news)
    ob.decide("R4", "C18.1", comp, "new-state-gets-the-copy", okn, "the new state carries the unified copy",
              "the new chart state does not carry the unified copy", sc, site=site_of(prog, comp, comp.node))

    # -------------------------------------------------------------- C18.2 iterator invalidation
    found = False
    for lp in [x for x in ast.walk(comp.node) if isinstance(x, ast.For)]:
        it = lp.iter
        if not (isinstance(it, ast.Call) and isinstance(it.func, ast.Attribute) and it.func.attr == "generator"):
            continue
        cont = ast.unparse(it.func.value)
        idx_it = ast.unparse(it.args[0]) if it.args else "?"
        for c in ast.walk(lp):
            if isinstance(c, ast.Call) and isinstance(c.func, ast.Attribute) and c.func.attr == "add" and \
                    ast.unparse(c.func.value) == cont and c.args:
                found = True
                idx_in = ast.unparse(c.args[0])
                from .flow import inline_locals as _inl

                def _differ_test(test):
                    # `<index iterated> != <index inserted>` in any spelling, also kept in a local flag
                    for e in _inl(comp.node, test):
                        for x in ast.walk(e):
                            if isinstance(x, ast.Compare) and len(x.ops) == 1 and isinstance(x.ops[0], (ast.NotEq, ast.IsNot)):
                                sides = {ast.unparse(x.left), ast.unparse(x.comparators[0])}
                                if sides == {idx_it, idx_in}:
                                    return True
                    return False
                guarded = any(isinstance(a, ast.If) and _differ_test(a.test) for a in _path_to(lp, c))
                same_text = idx_it == idx_in
                inserts_new_key = _adds_new_key(prog, interp)
                if inserts_new_key and not guarded:
                    rep.violation("R8a", "C18.2", comp.qname, "insert-under-iteration",
                                  "the loop iterates %s.generator(%s) and inserts with %s.add(%s, ...), which creates a new "
                                  "key in the dictionary of that index; the two indices are not provably different (they "
                                  "coincide for a completed state of an epsilon production): RuntimeError `dictionary "
                                  "changed size during iteration`" % (cont, idx_it, cont, idx_in),
                                  site=site_of(prog, comp, c))
                else:
                    rep.holds("R8a", "C18.2", comp.qname, "insert-under-iteration",
                              "insertions during the iteration go to a provably different index")
    if not found:
        rep.holds("R8a", "C18.2", comp.qname, "insert-under-iteration", "the completer does not insert into the chart index "
                  "it iterates", nontrivial=False)

    # -------------------------------------------------------------- C18.3 exceptions
    fu = prog.method("FeatureStructure", "unify")
    su = interp.run_entry(fu, FS)
    raises = {short_exc(x) for ev, _ in events(su, "raise", own=True) for x in ev.exc}
    ob.decide("R6", "C18.3", fu, "unify-raises", raises == {"FeatureStructuresNotCompatibleException"},
              "unify refuses only with FeatureStructuresNotCompatibleException",
              "unify raises %s" % (sorted(raises) or "nothing on a clash"), su, site=site_of(prog, fu, fu.node))
    clash = [ev for ev, _ in events(su, "raise", own=True)]

    def _both_present(ev):
        """the facts at the raise say that neither value is None, however the tests are spelt"""
        present = [f for f in ev.facts if (".value is None" in f[0] and not f[1]) or (".value is not None" in f[0] and f[1])]
        return len({f[0].split(".value")[0] for f in present}) >= 2
    ob.decide("R1", "C18.3", fu, "clash-iff-different-values",
              bool(clash) and all(_both_present(ev) for ev in clash),
              "a clash is reported only when both atomic values are present and differ",
              "unify reports a clash although one side is unspecified (or never reports one)", su,
              site=(clash[0].site.to_json() if clash else site_of(prog, fu, fu.node)))

    # atomic case: every success path links the two nodes (forwarding pointer), so that a later binding of one is seen
    # by the other
    # the atomic case = the branch taken when BOTH structures have no content: an `if` whose test (conjuncts, flags kept
    # in locals inlined) contains an emptiness test - in any spelling - of two different `.content` collections
    from .flow import facts_imply_empty, inline_locals

    def _implied_empties(test, pol, depth=0):
        """the `.content` collections that are certainly empty when `test` evaluates to `pol`"""
        if isinstance(test, ast.UnaryOp) and isinstance(test.op, ast.Not):
            return _implied_empties(test.operand, not pol, depth)
        if isinstance(test, ast.BoolOp):
            if isinstance(test.op, ast.And) == pol:      # true conjunction / false disjunction: every operand has value pol
                return set().union(*[_implied_empties(v, pol, depth) for v in test.values])
            return set()
        if isinstance(test, ast.Name) and depth < 2:
            defs = inline_locals(fu.node, test, depth=1)[1:]
            if len(defs) == 1:
                return _implied_empties(defs[0], pol, depth + 1)
            return set()
        out = set()
        for x in ast.walk(test):
            if isinstance(x, ast.Attribute) and x.attr in ("content", "_content"):
                txt = ast.unparse(x)
                if facts_imply_empty({(ast.unparse(test), pol, frozenset())}, txt):
                    out.add(txt)
        return out
    atomic, atomic_block = None, None
    for blk_owner in ast.walk(fu.node):
        for fieldname in ("body", "orelse"):
            blk = getattr(blk_owner, fieldname, None)
            if not isinstance(blk, list):
                continue
            for i, sub in enumerate(blk):
                if not isinstance(sub, ast.If):
                    continue
                if len(_implied_empties(sub.test, True)) >= 2:
                    atomic, atomic_block = sub, sub.body                  # `if both empty: <atomic case>`
                elif len(_implied_empties(sub.test, False)) >= 2:
                    if sub.orelse:
                        atomic, atomic_block = sub, sub.orelse            # `if not both empty: .. else: <atomic case>`
                    elif sub.body and isinstance(sub.body[-1], (ast.Return, ast.Raise)):
                        atomic, atomic_block = sub, blk[i + 1:]           # `if some content: ..; return` then the atomic case
    if atomic is None:
        rep.error("R1", "C18.3", fu.qname, "atomic-case-links-nodes", "the atomic case of unify was not found")
    else:
        _helpers = helpers_of(prog, fu)

        def _helper_body(call):
            nm = call.func.attr if isinstance(call.func, ast.Attribute) else getattr(call.func, "id", None)
            h = _helpers.get(nm) if nm and nm.startswith("_") else None
            return [x for x in h.body if not (isinstance(x, ast.Expr) and isinstance(x.value, ast.Constant))] if h is not None else None

        def _helper_raises_only(call):
            return False        # a return inside the helper returns to the caller, it does not end the caller's path

        def paths(stmts):
            """(links, exits) for every path through a block of the atomic case"""
            outs = [(False, False)]
            for st in stmts:
                new = []
                for links, done in outs:
                    if done:
                        new.append((links, done))
                        continue
                    if isinstance(st, ast.If):
                        for br in (st.body, st.orelse):
                            for l2, d2 in paths(br):
                                new.append((links or l2, d2))
                    elif isinstance(st, ast.Expr) and isinstance(st.value, ast.Call) and _helper_body(st.value) is not None:
                        for l2, d2 in paths(_helper_body(st.value)):      # private helper: its body is the path
                            new.append((links or l2, False if not d2 else _helper_raises_only(st.value)))
                    elif isinstance(st, ast.Raise):
                        new.append((True, True))          # refusal: nothing to link
                    elif isinstance(st, ast.Return):
                        new.append((links, True))
                    elif isinstance(st, ast.Assign) and any(isinstance(tg, ast.Attribute) and tg.attr in ("pointer", "_pointer")
                                                           for tg in st.targets):
                        new.append((True, done))
                    else:
                        new.append((links, done))
                outs = new
            return outs
        unlinked = [pth for pth in paths(atomic_block) if not pth[0]]
        ob.decide("R1", "C18.3", fu, "atomic-case-links-nodes", not unlinked,
                  "every non-refusing path of the atomic case forwards one node to the other",
                  "a success path of the atomic case leaves the two nodes unlinked (e.g. two unbound variables): a value "
                  "bound later on one side is not seen on the other", None, site=site_of(prog, fu, atomic))
    # the copies unified by the completer are made for each waiting state (inside the loop that unifies)
    for c in ast.walk(comp.node):
        if isinstance(c, ast.Call) and isinstance(c.func, ast.Attribute) and c.func.attr == "unify":
            loops = [a for a in _path_to(comp.node, c) if isinstance(a, ast.For)]
            if not loops:
                continue
            loop = loops[-1]
            names_ = [c.func.value] + list(c.args)
            hoisted = []
            for nm in names_:
                if not isinstance(nm, ast.Name):
                    continue
                srcs = set()
                todo = [nm.id]
                while todo:
                    cur = todo.pop()
                    if cur in srcs:
                        continue
                    srcs.add(cur)
                    for a in ast.walk(comp.node):
                        if isinstance(a, ast.Assign) and any(isinstance(tg, ast.Name) and tg.id == cur for tg in a.targets):
                            inside = any(x is a for x in ast.walk(loop))
                            if not inside:
                                hoisted.append(cur)
                            for x in ast.walk(a.value):
                                if isinstance(x, ast.Name) and x.id not in ("state", "next_state"):
                                    todo.append(x.id)
            ob.decide("R4", "C18.1", comp, "copies-made-per-waiting-state", not hoisted,
                      "both operands of unify are copied inside the loop over waiting states",
                      "the copy `%s` is made once outside the loop over waiting states and unified several times: the "
                      "bindings of the first waiting state leak into the next" % (hoisted[0] if hoisted else ""), None,
                      site=site_of(prog, comp, c))
    # -------------------------------------------------------------- C18.4 copy / subsumes / unify structure
    fc = prog.method("FeatureStructure", "copy")
    # the memo = the object every recursive copy receives; it is consulted (in / get / subscript) before the new
    # structure is created, the new structure is stored in it, and it is handed to every recursive copy
    sc0 = interp.run_entry(fc, FS)
    evs = [ev for ev, _ in events(sc0, None, own=True)]
    rec_calls = [ev for ev in evs if ev.kind == "call" and ev.callee == fc.qname]
    passes = bool(rec_calls) and all(ev.args and ev.args[0].alias for ev in rec_calls)
    memo = frozenset().union(*[ev.args[0].alias for ev in rec_calls if ev.args]) if rec_calls else frozenset()
    created = [i for i, ev in enumerate(evs) if ev.kind == "new" and ev.callee == FS]
    consulted = [i for i, ev in enumerate(evs) if ev.recv is not None and ev.recv.alias & memo and (
        ev.kind in ("member", "subscript") or (ev.kind in ("bcall", "call") and (ev.callee or "").rsplit(".", 1)[-1] == "get"))]
    new_alias = frozenset().union(*[evs[i].result.alias for i in created if evs[i].result is not None]) if created else frozenset()
    recorded = any(ev.kind == "write" and ev.wkind == "subscript" and ev.recv is not None and ev.recv.alias & memo
                   and ev.value is not None and ev.value.alias & new_alias for ev in evs)
    ob.decide("R1", "C18.4", fc, "copy-preserves-sharing",
              bool(created) and bool(consulted) and min(consulted) < min(created) and recorded and passes,
              "the memo is consulted before creating, filled after creating and handed to every recursive copy",
              "copy does not preserve sharing: the memo is not (consulted first / filled / passed on)", sc0,
              site=site_of(prog, fc, fc.node))
    sc_ = interp.run_entry(fc, FS)
    rd = deps_of(sc_.ret)
    ob.decide("R1", "C18.4", fc, "copy-covers-value-pointer-content",
              {("self", ("_value",)), ("self", ("_pointer",)), ("self", ("_content",))} <= rd,
              "the copy carries value, forwarding pointer and every feature",
              "copy drops the value, the pointer or the features", sc_, site=site_of(prog, fc, fc.node))
    fs_ = prog.method("FeatureStructure", "subsumes")
    ss = interp.run_entry(fs_, FS)
    consts = {ev.value.const for ev in ss.events if ev.kind == "ret" and ev.value is not None and ev.value.has_const()}
    rec = [ev for ev, _ in calls(ss, "subsumes", own=True)]
    ob.decide("R1", "C18.4", fs_, "subsumes-value-and-every-feature",
              both_answers(ss) and bool(rec) and any(ev.kind == "compare" and "value" in ev.site.text for ev in own(ss))
              and any(ev.kind == "member" and "content" in ev.site.text for ev in own(ss)),
              "subsumes compares the values, requires every feature of the receiver and recurses",
              "subsumes does not compare (value, presence of every feature, sub-structures)", ss,
              site=site_of(prog, fs_, fs_.node))
    rec_u = [ev for ev, _ in calls(su, "unify", own=True)]
    creates = [ev for ev in own(su) if ev.kind == "new" and ev.callee == FS]
    def _only_if_missing(ev):
        """the new structure is stored only where the receiver lacks the feature: created under a `not in` test, or as
        the default of a setdefault()"""
        if any(" not in " in f[0] and f[1] for f in ev.facts):
            return True
        return any(isinstance(c, ast.Call) and isinstance(c.func, ast.Attribute) and c.func.attr == "setdefault" and
                   any(x is ev.node for a in c.args[1:] for x in ast.walk(a)) for c in ast.walk(ev.func.node))
    ob.decide("R1", "C18.4", fu, "unify-recurses-and-creates",
              bool(rec_u) and bool(creates) and all(_only_if_missing(ev) for ev in creates),
              "unify recurses into every feature of the argument and creates the ones the receiver lacks",
              "unify does not merge the features of its argument", su, site=site_of(prog, fu, fu.node))

    # -------------------------------------------------------------- C18.5 DEREF typestate
    for meth in ("unify", "subsumes", "get_feature_by_path"):
        f = prog.method("FeatureStructure", meth)
        deref_names, other_assigned = set(), set()
        for s in ast.walk(f.node):
            if isinstance(s, ast.Assign):
                from_deref = isinstance(s.value, ast.Call) and isinstance(s.value.func, ast.Attribute) and \
                    s.value.func.attr == "get_dereferenced"
                for tg in s.targets:
                    if isinstance(tg, ast.Name):
                        (deref_names if from_deref else other_assigned).add(tg.id)
            elif isinstance(s, (ast.For,)) and isinstance(s.target, ast.Name):
                other_assigned.add(s.target.id)
        deref_names -= other_assigned       # a name is dereferenced only if every assignment to it dereferences
        bad = []
        for s in ast.walk(f.node):
            if isinstance(s, ast.Attribute) and s.attr in ("content", "value", "pointer", "_content", "_value", "_pointer"):
                base = s.value
                while isinstance(base, (ast.Subscript, ast.Attribute)) and not isinstance(base, ast.Name):
                    if isinstance(base, ast.Attribute) and base.attr in ("content", "_content"):
                        base = base.value
                    elif isinstance(base, ast.Subscript):
                        base = base.value
                    else:
                        break
                if isinstance(base, ast.Name) and base.id not in deref_names:
                    bad.append(s)
        ob.decide("DEREF", "C18.5", f, "reads-through-dereferenced-nodes", bool(deref_names) and not bad,
                  "content / value / pointer are only touched on nodes obtained from get_dereferenced()",
                  "%s touches `%s` on a node that was not dereferenced: forwarding pointers left by an earlier unification "
                  "are not followed" % (meth, ast.unparse(bad[0]) if bad else "?"), None,
                  site=site_of(prog, f, (bad[0] if bad else f.node)))
    names.check(eng, rep, "C18")
    # -------------------------------------------------------------- C18.2 the chart keeps the most general states
    # StateProcessed.add refuses a new state exactly when a STORED state subsumes it (the stored one is at least as
    # general).  The other direction throws away a state that is more general than what is stored: derivations that
    # need the general one are lost.  Decided on the outermost FeatureStructure.subsumes calls reached from `add`:
    # the receiver comes out of self.processed, the argument out of the new element.
    fa_ = prog.functions.get("pyformlang.fcfg.state.StateProcessed.add")
    if fa_ is None:
        rep.error("R1", "C18.2", "pyformlang.fcfg.state.StateProcessed", "anchor", "StateProcessed.add vanished")
    else:
        sa_ = interp.run_entry(fa_, "pyformlang.fcfg.state.StateProcessed")
        outer = [ev for ev, chain in sa_.walk() if ev.kind == "call" and ev.callee and
                 ev.callee.endswith("FeatureStructure.subsumes") and
                 not any(getattr(c, "callee", None) and c.callee.endswith("FeatureStructure.subsumes") for c in chain)]

        def _from(av, root):
            return av is not None and any(l[0] == root for l in av.alias)
        good = [ev for ev in outer if _from(ev.recv, "self") and ev.args and _from(ev.args[0], "p:element")
                and not _from(ev.recv, "p:element")]
        wrong = [ev for ev in outer if _from(ev.recv, "p:element") and ev.args and _from(ev.args[0], "self")]
        ob.decide("R1", "C18.2", fa_, "stored-state-subsumes-new-one", bool(good) and not wrong,
                  "a new chart state is refused when a stored state subsumes it (stored.subsumes(new))",
                  "the subsumption test of StateProcessed.add runs the wrong way round (new.subsumes(stored)): a new state "
                  "that is more general than a stored one is discarded" if wrong else
                  "StateProcessed.add does not compare the new state with the stored ones by subsumption", sa_,
                  site=(wrong[0].site.to_json() if wrong else site_of(prog, fa_, fa_.node)))
    rep.stats.update(eng.stats())
    rep.floor = 12


def _adds_new_key(prog, interp) -> bool:
    """StateProcessed.add creates a new key in self.processed[i] under a `not in` test."""
    f = prog.functions.get("pyformlang.fcfg.state.StateProcessed.add")
    if f is None:
        return True
    s = interp.run_entry(f, "pyformlang.fcfg.state.StateProcessed")
    for ev in own(s):
        if ev.kind == "write" and ev.wkind == "subscript" and any(" not in " in fct[0] and fct[1] for fct in ev.facts):
            return True
    return False
