"""C16 - finite-state transducers."""
from __future__ import annotations

import ast

from ..model import FST, ENFA, NFA, DFA, EPS_TAG
from . import names
from .common import site_of
from .flow import (code_nodes, own, Oblig, calls, events, deps_of, arg_deps, SELF, P, result_locs, receivers, DELTA_SYM, DELTA_EPS)

OTHER = P("other_fst")
EXPLANATION = (
    "Decides: kleene_star adds the loop-back epsilon edge FINAL -> START but must not add a skip edge START -> FINAL "
    "(with it, whatever is readable from a final state is accepted without a first iteration) (R1 forbidden flow); "
    "union takes START, FINAL and all edges of both operands through the renaming, concatenate takes START only from "
    "the left, FINAL only from the right and bridges FINAL(left) -> START(right) on epsilon with empty output (R1 "
    "roles); translate has both move kinds (consume the first remaining symbol / epsilon without consuming), yields "
    "only with empty remainder in a final state, and marks (remaining, output) per state at pop time before expanding "
    "(R1, R10a); FiniteAutomaton.to_fst must distinguish epsilon edges (empty output) (R1); state renaming goes "
    "through a freshness loop and must be total on non-string states (R5, R5b). Not decided: relation equalities.")

ST, FI, DE = ("_start_states",), ("_final_states",), ("_delta",)


def tag(root, f):
    return (root[0], root[1] + f)


def run(eng, rep, tier):
    prog, interp = eng.prog, eng.interp
    rep.explanation = EXPLANATION
    ob = Oblig(eng, rep, "C16")

    # -------------------------------------------------------------- kleene_star
    fi = prog.method("FST", "kleene_star")
    summ = interp.run_entry(fi, FST)
    res = result_locs(summ)
    adds = [ev for ev, _ in calls(summ, "add_transition", own=True, recv_locs=res)]
    S, F = tag(SELF, ST), tag(SELF, FI)
    back = [ev for ev in adds if F in arg_deps(ev, 0) and S in arg_deps(ev, 2) and S not in arg_deps(ev, 0)]
    skip = [ev for ev in adds if S in arg_deps(ev, 0) and F in arg_deps(ev, 2) and F not in arg_deps(ev, 0)]
    ob.decide("R1", "C16.1", fi, "star-loop-back-edge", bool(back), "an epsilon edge leads from every final state back to "
              "every start state", "kleene_star has no loop-back edge from final to start states", summ,
              site=site_of(prog, fi, fi.node))
    if skip:
        rep.violation("R1", "C16.1", fi.qname, "star-skip-edge",
                      "kleene_star adds an epsilon edge from a start state to a final state of the operand: a word readable "
                      "from a final state is then translated without any first iteration", site=skip[0].site.to_json())
    else:
        rep.holds("R1", "C16.1", fi.qname, "star-skip-edge", "no epsilon edge from START to FINAL of the operand")
    eps_out = all(len(ev.args) > 3 and ev.args[3].elem is None and ev.args[1].has_const() and ev.args[1].const == "epsilon"
                  for ev in back)
    ob.decide("R1", "C16.1", fi, "star-bridges-are-silent", bool(back) and eps_out,
              "the bridges read epsilon and write nothing", "a star bridge reads or writes a symbol", summ,
              site=site_of(prog, fi, fi.node))

    # -------------------------------------------------------------- union / concatenate
    fu = prog.method("FST", "union")
    su = interp.run_entry(fu, FST)
    res = result_locs(su)
    from ..av import all_deps as _alld

    def marks(summ_, res_, meth, field):
        """dependences of every state put among the start / final states of the result: through add_start_state /
        add_final_state, or by adding to the live set itself (`result.start_states.update(names)`)"""
        out = [arg_deps(ev, 0) for ev, _ in calls(summ_, meth, recv_locs=res_) if ev.args]
        for ev, _ in summ_.walk():
            if ev.kind == "write" and ev.wkind in ("mutate:add", "mutate:update") and ev.recv is not None and ev.value is not None \
                    and any(l[0] == r[0] and l[1] == r[1] + (field,) for l in ev.recv.alias for r in res_):
                out.append(frozenset(_alld(ev.value)) | ev.ctrl)
        return out
    for role, meth, f, fld in (("start", "add_start_state", ST, "_start_states"), ("final", "add_final_state", FI, "_final_states")):
        evs = marks(su, res, meth, fld)
        ob.decide("R1", "C16.2", fu, "union-%s-of-both" % role,
                  any(tag(SELF, f) in d for d in evs) and any(tag(OTHER, f) in d for d in evs),
                  "%s states of both operands" % role, "union loses the %s states of an operand" % role, su,
                  site=site_of(prog, fu, fu.node))
    evs = [ev for ev, _ in calls(su, "add_transition", recv_locs=res)]
    ob.decide("R1", "C16.2", fu, "union-edges-of-both",
              any(tag(SELF, DE) in arg_deps(ev, 2) | arg_deps(ev, 3) for ev in evs) and
              any(tag(OTHER, DE) in arg_deps(ev, 2) | arg_deps(ev, 3) for ev in evs),
              "edges of both operands", "union loses the edges of an operand", su, site=site_of(prog, fu, fu.node))
    fc = prog.method("FST", "concatenate")
    sc = interp.run_entry(fc, FST)
    res = result_locs(sc)
    sts = marks(sc, res, "add_start_state", "_start_states")
    fns = marks(sc, res, "add_final_state", "_final_states")
    ob.decide("R1", "C16.2", fc, "concat-start-only-left",
              bool(sts) and all(tag(SELF, ST) in d and tag(OTHER, ST) not in d for d in sts),
              "start states come from the left operand only", "concatenate takes start states from the right operand", sc,
              site=site_of(prog, fc, fc.node))
    ob.decide("R1", "C16.2", fc, "concat-final-only-right",
              bool(fns) and all(tag(OTHER, FI) in d and tag(SELF, FI) not in d for d in fns),
              "final states come from the right operand only", "concatenate takes final states from the left operand", sc,
              site=site_of(prog, fc, fc.node))
    adds_ch = [(ev, ch) for ev, ch in calls(sc, "add_transition", own=True, recv_locs=res)]
    adds = [ev for ev, _ in adds_ch]
    chain_of = {id(ev): ch for ev, ch in adds_ch}
    bridge = [ev for ev in adds if tag(SELF, FI) in arg_deps(ev, 0) and tag(OTHER, ST) in arg_deps(ev, 2)]
    okb = bool(bridge) and all(ev.args[1].has_const() and ev.args[1].const == "epsilon" and ev.args[3].elem is None
                               for ev in bridge if len(ev.args) > 3)
    ob.decide("R1", "C16.2", fc, "concat-bridge", okb, "FINAL(left) -epsilon / no output-> START(right)",
              "concatenate does not bridge the final states of the left operand to the start states of the right one "
              "with a silent epsilon move", sc, site=site_of(prog, fc, fc.node))
    for ev in bridge:
        from .flow import _path_to
        loops = [a for a in _path_to(ev.func.node, ev.node) if isinstance(a, ast.For)]     # in the helper, if extracted
        iters = [l.iter for l in loops]
        # a loop over a parameter of a private helper: what is iterated is the argument at the call site
        ch = chain_of.get(id(ev), ())
        if len(loops) == 1 and isinstance(loops[0].iter, ast.Name) and ch:
            call = ch[-1].node
            params = [a.arg for a in ev.func.node.args.posonlyargs + ev.func.node.args.args]
            static = any(isinstance(d, ast.Name) and d.id == "staticmethod" for d in ev.func.node.decorator_list)
            if isinstance(getattr(call, "func", None), ast.Attribute) and ev.func.cls is not None and not static:
                params = params[1:]
            amap = dict(zip(params, getattr(call, "args", [])))
            amap.update({kw.arg: kw.value for kw in getattr(call, "keywords", []) if kw.arg})
            arg = amap.get(loops[0].iter.id)
            if isinstance(arg, (ast.GeneratorExp, ast.ListComp, ast.SetComp)):
                iters = [g.iter for g in arg.generators]
                loops = loops * len(arg.generators)        # one `for` clause per nesting level
            elif arg is not None:
                iters = [arg]
        zipped = [i_ for i_ in iters if isinstance(i_, ast.Call) and getattr(i_.func, "id", "") == "zip"]
        prod = [i_ for i_ in iters if isinstance(i_, ast.Call) and ast.unparse(i_.func).endswith("product")]
        if zipped:
            rep.violation("R1", "C16.2", fc.qname, "concat-bridge-every-pair",
                          "the bridges are built over zip(final states, start states): only pairwise bridges exist, not one "
                          "for every (final state of the left, start state of the right)", site=site_of(prog, fc, zipped[0]))
        elif len(loops) >= 2 or prod:
            rep.holds("R1", "C16.2", fc.qname, "concat-bridge-every-pair", "one bridge per (final, start) pair (nested loops)")
        else:
            rep.error("R1", "C16.2", fc.qname, "concat-bridge-every-pair", "the bridge loop is of a shape the rule cannot follow")
    alle = [ev for ev, _ in calls(sc, "add_transition", recv_locs=res)]
    ob.decide("R1", "C16.2", fc, "concat-edges-of-both",
              any(tag(SELF, DE) in arg_deps(ev, 3) | arg_deps(ev, 2) for ev in alle) and
              any(tag(OTHER, DE) in arg_deps(ev, 3) | arg_deps(ev, 2) for ev in alle),
              "edges of both operands", "concatenate loses the edges of an operand", sc, site=site_of(prog, fc, fc.node))

    # -------------------------------------------------------------- translate
    ft = prog.method("FST", "translate")
    st_ = interp.run_entry(ft, FST)
    el = st_.ret.elem
    yd = deps_of(el) if el is not None else frozenset()
    for t_, role in ((tag(SELF, ST), "start"), (tag(SELF, FI), "final"), (tag(SELF, DE), "edges"), (P("input_word"), "input")):
        ob.decide("R1", "C16.3", ft, "translate-depends-on-" + role, t_ in yd, "outputs depend on " + role,
                  "translate does not depend on " + role, st_, site=site_of(prog, ft, ft.node))
    # configurations put on the worklist: 3-item values (remaining input, output so far, state) that are appended, or
    # yielded by a private generator helper whose items are then pushed with extend
    evs_ = own(st_)
    slices = [ev for ev in evs_ if ev.kind == "slice" and ev.result is not None]
    slice_locs = frozenset().union(*[ev.result.alias for ev in slices]) if slices else frozenset()

    from dataclasses import replace as _replace

    def _flat(v):
        if v is not None and v.items is not None and v.only("tuple", "list") and 0 < len(v.items) <= 3:
            out = []
            for it in v.items:
                out.extend(_flat(it) if (it.items is not None and it.only("tuple") and len(it.items) == 2) else [it])
            return out
        return [v]

    def config_of(ev):
        """the (remaining, output, state) triple put on the worklist, however it is nested: (r, o, s) or ((r, o), s)"""
        v = ev.value
        if ev.kind == "write" and ev.wkind in ("mutate:extend", "mutate:__iadd__", "mutate:augassign", "augassign") and v is not None and \
                ev.node is not None and any(isinstance(x, ast.Tuple) for x in ast.walk(ev.node)):
            # a batch of configurations built on the spot (`succ += [(r, o, s) for ..]`); handing an existing batch on
            # (`to_process.extend(succ)`) creates no configuration
            v = v.elem
        elif not ((ev.kind == "write" and ev.wkind in ("mutate:append", "mutate:appendleft")) or ev.kind == "yield"):
            return None
        if v is None or v.items is None:
            return None
        leaves = _flat(v)
        if len(leaves) == 3 and len(v.items) in (2, 3):
            return _replace(v, items=tuple(leaves))
        return None
    pushes = [ev for ev in evs_ if config_of(ev) is not None]
    # the rules below read the search as configurations (remaining input, output, state) whose remaining input shrinks by
    # slicing.  A search that walks the input another way (a position index, memoised silent closures) is not one of
    # them: what fails then is the reading, not the code
    shape_known = bool(slices) and bool(pushes)
    _plain_decide = ob.decide

    def _translate_decide(rule, oblig, fi_, role, ok, what_ok, what_bad, summ_=None, site=None, **kw):
        if not ok and not shape_known and fi_ is ft and role in ("consuming-move", "epsilon-move", "yield-iff-consumed-and-final",
                                                                    "mark-at-pop"):
            return rep.error(rule, oblig, fi_.qname, role, what_bad + " - but translate does not keep (remaining input, output, "
                             "state) configurations that shrink by slicing any more; the rule cannot follow this search", site=site)
        return _plain_decide(rule, oblig, fi_, role, ok, what_ok, what_bad, summ_, site=site, **kw)
    ob.decide = _translate_decide
    # a consuming configuration carries a remainder that IS a slice made at that step; a silent one carries the popped
    # remainder itself (which, around the loop, may of course alias slices made in earlier steps)
    def _is_slice(av):
        return bool(av.alias) and av.alias <= slice_locs
    consume = [ev for ev in pushes if _is_slice(config_of(ev).items[0])]
    silent = [ev for ev in pushes if not _is_slice(config_of(ev).items[0]) and tag(SELF, DE) in deps_of(config_of(ev))]
    # the consumed sequence = what is sliced for a consuming configuration; "under a non-empty test" = some branch fact at
    # the push implies len(<that sequence>) >= 1, whatever the local is called and however the test is spelt
    from .flow import facts_imply_nonempty, facts_imply_empty
    seqs = {ast.unparse(sv.node.value) for sv in slices if any(sv.result.alias & config_of(ev).items[0].alias for ev in consume)}
    ob.decide("R1", "C16.3", ft, "consuming-move",
              bool(consume) and all(any(facts_imply_nonempty(ev.facts, q) for q in seqs) for ev in consume),
              "a symbol move consumes the first remaining symbol (under a non-empty test)",
              "translate has no move that consumes the first remaining input symbol under a non-empty test", st_,
              site=site_of(prog, ft, ft.node))
    eps_lookup = any(isinstance(c, ast.Tuple) and len(c.elts) == 2 and isinstance(c.elts[1], ast.Constant)
                     and c.elts[1].value == "epsilon" for fn_ in code_nodes(prog, ft) for c in ast.walk(fn_))
    ob.decide("R1", "C16.3", ft, "epsilon-move", bool(silent) and eps_lookup,
              "an epsilon move keeps the remaining input", "translate has no epsilon move that keeps the remaining input",
              st_, site=site_of(prog, ft, ft.node))
    # outputs: what translate itself yields (not a configuration)
    outs = [ev for ev in st_.events if ev.kind == "yield" and config_of(ev) is None]
    from .flow import _membership

    def out_guarded(ev):
        return any(facts_imply_empty(ev.facts, q) for q in seqs) and any("final" in f[0] and f[1] for f in ev.facts)
    ob.decide("R1", "C16.3", ft, "yield-iff-consumed-and-final", bool(outs) and bool(seqs) and all(out_guarded(ev) for ev in outs),
              "an output is yielded only with empty remainder in a final state",
              "translate yields without requiring (empty remainder and final state)", st_, site=site_of(prog, ft, ft.node))
    # mark at pop: in the worklist loop, `if <config> in V: continue` is followed, before anything is pushed, by a
    # statement that records the configuration in the same V
    mark_ok = False
    for lp in [w for w in ast.walk(ft.node) if isinstance(w, ast.While)]:
        body = lp.body
        for i, s_ in enumerate(body):
            if isinstance(s_, ast.If) and not s_.orelse and s_.body and isinstance(s_.body[-1], ast.Continue):
                v = _membership(s_.test, True)
                rest = body[i + 1:]
                if v is not None and rest and any(
                        isinstance(c, ast.Call) and isinstance(c.func, ast.Attribute) and c.func.attr in ("append", "add")
                        and ast.unparse(c.func.value) == v for c in ast.walk(rest[0])):
                    mark_ok = True
    # the mark must identify the configuration: an output word glued into one string (sep.join(..)) identifies it only up
    # to where the cuts fall (["a","bc"] and ["ab","c"] give the same text) - the same defect class as F01
    glued = None
    for lp in [w for w in ast.walk(ft.node) if isinstance(w, ast.While)]:
        for i, s_ in enumerate(lp.body):
            if isinstance(s_, ast.If) and not s_.orelse and s_.body and isinstance(s_.body[-1], ast.Continue):
                v = _membership(s_.test, True)
                if v is None:
                    continue
                tested = s_.test.left if isinstance(s_.test, ast.Compare) else None
                keyexprs = [tested] if tested is not None else []
                if isinstance(tested, ast.Name):
                    keyexprs += [a.value for a in ast.walk(lp) if isinstance(a, ast.Assign) and len(a.targets) == 1 and
                                 isinstance(a.targets[0], ast.Name) and a.targets[0].id == tested.id]
                for ke in keyexprs:
                    for c in ast.walk(ke):
                        if isinstance(c, ast.Call) and isinstance(c.func, ast.Attribute) and c.func.attr == "join":
                            glued = c
    ob.decide("R5", "C16.6", ft, "mark-identifies-configuration", glued is None,
              "the visited mark contains the output word itself, not a lossy text encoding of it",
              "the visited mark encodes the generated output by gluing its symbols into one string: different output words "
              "with the same text collide and one translation is never produced", None,
              site=site_of(prog, ft, glued if glued is not None else ft.node))
    ob.decide("R10a", "C16.6", ft, "mark-at-pop", mark_ok,
              "(remaining, output) is tested and marked per state at pop time, before expanding",
              "translate does not mark (remaining, output) per state before expanding: an output-free epsilon cycle loops "
              "forever", None, site=site_of(prog, ft, ft.node))

    ob.decide = _plain_decide
    # -------------------------------------------------------------- to_fst
    for recv_q, f, s in receivers(eng, "EpsilonNFA", "to_fst"):
        label = prog.classes[recv_q].name
        res = result_locs(s)
        adds = [ev for ev, _ in calls(s, "add_transition", own=True, recv_locs=res)]
        distinguishes = any(EPS_TAG in ev.ctrl or EPS_TAG in arg_deps(ev, 3) or any("psilon" in fct[0] for fct in ev.facts)
                            for ev in adds)
        has_empty = any(len(ev.args) > 3 and ev.args[3].elem is None for ev in adds) or \
            any(isinstance(c, ast.List) and not c.elts for c in ast.walk(f.node))
        if recv_q == ENFA:
            ob.decide("R1", "C16.4", f, "epsilon-edge-output", distinguishes and has_empty,
                      "epsilon edges of the automaton become epsilon moves with empty output",
                      "to_fst writes the edge's symbol for every edge, epsilon edges included: the identity transducer "
                      "outputs the token `epsilon`", s, site=(adds[0].site.to_json() if adds else site_of(prog, f, f.node)))
        for role, meth, t_ in (("start", "add_start_state", ("self", ("_start_state",))),
                               ("final", "add_final_state", ("self", ("_final_states",)))):
            evs = [ev for ev, _ in calls(s, meth, own=True, recv_locs=res)]
            ob.decide("R1", "C16.4", f, "to_fst-%s:%s" % (role, label), any(t_ in arg_deps(ev, 0) for ev in evs),
                      "%s states are transferred" % role, "to_fst loses the %s states" % role, s, site=site_of(prog, f, f.node))
        ob.decide("R1", "C16.4", f, "to_fst-identity:" + label,
                  bool(adds) and all(("EDGE_SYMBOL", SELF) in arg_deps(ev, 1) and ("EDGE_SYMBOL", SELF) in arg_deps(ev, 3)
                                     and ("EDGE_SOURCE", SELF) in arg_deps(ev, 0) and ("EDGE_TARGET", SELF) in arg_deps(ev, 2)
                                     for ev in adds),
                  "each edge reads and writes its own symbol between its own endpoints",
                  "to_fst is not the identity on the automaton's edges", s, site=site_of(prog, f, f.node))
    names.check(eng, rep, "C16")
    rep.stats.update(eng.stats())
    rep.floor = 20
