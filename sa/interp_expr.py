"""Expression evaluation of the abstract interpreter."""
from __future__ import annotations

import ast
from dataclasses import replace

from .av import (PIECEWISE, AV, BOTTOM, TOP, NOCONST, EMPTYQ, t, join, join_all, elem_of, loc_ext, all_deps)
from .index import ClassInfo, FuncInfo, ConstDef, ModuleRef, ExtRef, NotConstant, ConstFolder
from .state import Event, State

BUILTIN_NAMES = {
    "len", "str", "sorted", "list", "set", "tuple", "dict", "frozenset", "enumerate", "zip", "range", "any", "all",
    "sum", "map", "filter", "isinstance", "hash", "iter", "next", "reversed", "min", "max", "int", "chr", "ord", "id",
    "print", "type", "super", "bool", "float", "repr", "abs", "getattr", "hasattr", "issubclass", "callable",
    "NotImplementedError", "ValueError", "StopIteration", "Exception", "KeyError", "IndexError", "TypeError",
    "RuntimeError", "AttributeError", "object", "staticmethod", "classmethod", "property", "NotImplemented",
}

CONST_TYPE = {str: "str", int: "int", float: "float", bool: "bool", type(None): "None", bytes: "bytes"}


def const_av(value) -> AV:
    if type(value) in CONST_TYPE:
        return AV(types=frozenset({CONST_TYPE[type(value)]}), const=value)
    if isinstance(value, (list, tuple, set, frozenset)):
        kind = {list: "list", tuple: "tuple", set: "set", frozenset: "frozenset"}[type(value)]
        elem = join_all(const_av(v) for v in list(value)[:64]) if value else None
        if elem is not None:
            elem = replace(elem, const=NOCONST)
        items = tuple(const_av(v) for v in value) if isinstance(value, tuple) and len(value) <= 8 else None
        return AV(types=frozenset({kind}), elem=elem, items=items, const=value if _hashable(value) else NOCONST)
    if isinstance(value, dict):
        keys = join_all(const_av(k) for k in list(value)[:64]) if value else None
        vals = join_all(const_av(v) for v in list(value.values())[:64]) if value else None
        if keys is not None:
            keys = replace(keys, const=NOCONST)
        if vals is not None:
            vals = replace(vals, const=NOCONST)
        return AV(types=frozenset({"dict"}), elem=vals, key=keys, const=NOCONST)
    return TOP


class ExprMixin:

    # ------------------------------------------------------------------ utils
    def fresh_loc(self, frame, node, tag=""):
        return ("fresh:%s:%d:%d%s%s" % (frame.qname, getattr(node, "lineno", 0), getattr(node, "col_offset", 0),
                                         ("#" + tag) if tag else "", frame.callsite_key), ())

    def truth(self, expr, val, st, frame):
        """record that the VALUE of `expr` itself (a bare name / attribute, possibly under `not`) is used as a condition:
        a truthiness test - for rules that must tell `if x:` from `if x is not None:`"""
        while isinstance(expr, ast.UnaryOp) and isinstance(expr.op, ast.Not):
            expr = expr.operand
        if isinstance(expr, (ast.Name, ast.Attribute)) and val is not None:
            self.ev(frame, st, "truth", expr, value=val)

    def ev(self, frame, st, kind, node, **kw) -> Event:
        e = Event(kind=kind, site=frame.site(node), node=node, func=frame.func, recv_cls=frame.recv_cls,
                  facts=st.facts, ctrl=st.ctrl, xctrl=st.xctrl, **kw)
        frame.events.append(e)
        return e

    def unresolved(self, frame, st, node, note):
        frame.n_unresolved += 1
        self.ev(frame, st, "unresolved", node, note=note)

    # --------------------------------------------------------------- dispatch
    def eval(self, node, st: State, frame) -> AV:
        m = getattr(self, "x_" + type(node).__name__, None)
        if m is None:
            self.unresolved(frame, st, node, "expression kind %s" % type(node).__name__)
            return TOP
        return m(node, st, frame)

    # ---------------------------------------------------------------- atoms
    def x_Constant(self, n, st, frame):
        return const_av(n.value)

    def x_JoinedStr(self, n, st, frame):
        deps = set()
        for v in n.values:
            if isinstance(v, ast.FormattedValue):
                a = self.eval(v.value, st, frame)
                deps |= a.deps
                self.str_of(a, v, st, frame)
        return AV(types=frozenset({"str"}), deps=frozenset(deps))

    def x_FormattedValue(self, n, st, frame):
        return self.eval(n.value, st, frame)

    def entity_av(self, ent, frame, st, node) -> AV:
        if isinstance(ent, ClassInfo):
            return AV(types=frozenset({"classobj"}), fn=("class", ent.qname))
        if isinstance(ent, FuncInfo):
            return AV(types=frozenset({"function"}), fn=("func", ent, None))
        if isinstance(ent, ModuleRef):
            return AV(types=frozenset({"module"}), const=ent)
        if isinstance(ent, ExtRef):
            return AV(types=frozenset({"ext"}), const=ent)
        if isinstance(ent, ConstDef):
            return self.const_def_av(ent, frame, st, node)
        return TOP

    def const_def_av(self, ent: ConstDef, frame, st, node) -> AV:
        key = (ent.module, ent.name)
        if key in self._constdef_cache:
            return self._constdef_cache[key]
        self._constdef_cache[key] = TOP
        try:
            val = self.prog.const(ent.module, ent.name)
            av = const_av(val)
        except (NotConstant, Exception):  # noqa
            mod = self.prog.modules[ent.module]
            from .state import Frame
            fr = Frame(None, mod, None, None, frame.depth + 1)
            av = self.eval(ent.node, State(), fr)
            frame.n_unresolved += fr.n_unresolved
        av = replace(av, alias=frozenset({("glob:%s.%s" % key, ())}))
        self._constdef_cache[key] = av
        return av

    def x_Name(self, n, st, frame):
        name = n.id
        if name in st.env:
            v = st.env[name]
            return v if v is not None else TOP
        if name in frame.local_imports:
            ent = self.prog.resolve_binding(frame.local_imports[name])
            if ent is not None:
                return self.entity_av(ent, frame, st, n)
        ent = self.prog.lookup(frame.module.name, name)
        if ent is not None:
            return self.entity_av(ent, frame, st, n)
        if name in BUILTIN_NAMES:
            if name == "NotImplemented":
                return t("NotImplementedType")
            return AV(types=frozenset({"builtin"}), fn=("builtin", name))
        self.unresolved(frame, st, n, "unknown name %s" % name)
        return TOP

    # ------------------------------------------------------------- displays
    def _display(self, kind, elts, n, st, frame):
        vals = []
        positions = []          # the display position by position, None as soon as a starred part has unknown length
        for e in elts:
            if isinstance(e, ast.Starred):
                sv = self.eval(e.value, st, frame)
                if sv.items is not None and positions is not None:
                    positions.extend(sv.items)          # `[a, *rest]` with rest known position by position
                    vals.extend(sv.items)
                    continue
                vals.append(elem_of(sv))
                positions = None
            else:
                v = self.eval(e, st, frame)
                vals.append(v)
                if positions is not None:
                    positions.append(v)
        vals = [v for v in vals if v is not None]
        elem = join_all(vals) if vals else None
        if elem is not None:
            elem = replace(elem, const=NOCONST)
        items = tuple(positions) if kind in ("tuple", "list") and positions is not None and len(positions) <= 8 else None
        quals = frozenset({EMPTYQ}) if not vals else frozenset()
        const = NOCONST
        if kind in ("tuple", "list") and vals and all(v.has_const() for v in vals) and len(vals) <= 16:
            try:
                const = tuple(v.const for v in vals) if kind == "tuple" else NOCONST
                hash(const)
            except TypeError:
                const = NOCONST
        elif not vals and kind == "tuple":
            const = ()
        alias = frozenset({self.fresh_loc(frame, n)})
        return AV(types=frozenset({kind}), alias=alias, elem=elem, items=items, quals=quals, const=const,
                  deps=frozenset())

    def x_List(self, n, st, frame):
        return self._display("list", n.elts, n, st, frame)

    def x_Tuple(self, n, st, frame):
        return self._display("tuple", n.elts, n, st, frame)

    def x_Set(self, n, st, frame):
        return self._display("set", n.elts, n, st, frame)

    def x_Dict(self, n, st, frame):
        keys = [self.eval(k, st, frame) for k in n.keys if k is not None]
        vals = [self.eval(v, st, frame) for v in n.values]
        quals = frozenset({EMPTYQ}) if not vals else frozenset()
        res = AV(types=frozenset({"dict"}), alias=frozenset({self.fresh_loc(frame, n)}),
                 elem=(replace(join_all(vals), const=NOCONST) if vals else None),
                 key=(replace(join_all(keys), const=NOCONST) if keys else None), quals=quals)
        if len(keys) == len(vals):
            for k, v in zip(keys, vals):      # which key is bound to which value (queried by pairing rules)
                self.ev(frame, st, "dictpair", n, recv=res, args=(k,), value=v)
        return res

    # ------------------------------------------------------- comprehensions
    def _comp(self, n, elt_nodes, kind, st, frame):
        sub = st.copy()
        extra = set()
        filt = set()
        for g in n.generators:
            it = self.eval(g.iter, sub, frame)
            e = self.iterate(it, g.iter, sub, frame)
            self.bind_target(g.target, e, sub, frame)
            extra |= it.deps
            for cond in g.ifs:
                c = self.eval(cond, sub, frame)
                extra |= c.deps
                filt |= c.deps
                tf, _ = self.cond_facts(cond)
                sub.facts = sub.facts | tf
                self.narrow(cond, True, sub, frame)
        sub.ctrl = sub.ctrl | frozenset(extra)
        vals = [self.eval(e, sub, frame) for e in elt_nodes]
        # which elements there are depends on the iterables and filters (recorded on the container, `deps=extra`); what an
        # element *is* does not: `((f, s) for f in finals for s in starts)` yields pairs whose first item is a final state
        # and nothing else.  Only the filters taint the elements themselves (an element is there because it passed them).
        if filt:
            vals = [v.with_deps(frozenset(filt)) for v in vals]
        alias = frozenset({self.fresh_loc(frame, n)})
        if kind == "dict":
            return AV(types=frozenset({"dict"}), alias=alias, key=replace(vals[0], const=NOCONST),
                      elem=replace(vals[1], const=NOCONST), deps=frozenset(extra))
        quals = frozenset({PIECEWISE}) if isinstance(elt_nodes[0], ast.Tuple) and vals[0].items is not None else frozenset()
        return AV(types=frozenset({kind}), alias=alias, elem=replace(vals[0], const=NOCONST), deps=frozenset(extra),
                  quals=quals)

    def x_ListComp(self, n, st, frame):
        return self._comp(n, [n.elt], "list", st, frame)

    def x_SetComp(self, n, st, frame):
        return self._comp(n, [n.elt], "set", st, frame)

    def x_GeneratorExp(self, n, st, frame):
        return self._comp(n, [n.elt], "generator", st, frame)

    def x_DictComp(self, n, st, frame):
        return self._comp(n, [n.key, n.value], "dict", st, frame)

    # ------------------------------------------------------------ operators
    def x_BoolOp(self, n, st, frame):
        vals = []
        sub = st.copy()
        for i, v in enumerate(n.values):
            a = self.eval(v, sub, frame)
            vals.append(a)
            if i < len(n.values) - 1:
                self.truth(v, self._bare_value(v, a, sub, frame), sub, frame)
                self.narrow(v, isinstance(n.op, ast.And), sub, frame)
                tf, ff = self.cond_facts(v)
                sub.facts = sub.facts | (tf if isinstance(n.op, ast.And) else ff)
        if isinstance(n.op, ast.Or):
            # `a or b`: a falsy None never survives
            out = None
            for i, a in enumerate(vals):
                if i < len(vals) - 1 and a.types is not None and "None" in a.types:
                    a = replace(a, types=a.types - {"None"}, const=NOCONST)
                    if not a.types:
                        continue
                out = join(out, a)
                if i < len(vals) - 1 and a.has_const() and a.const:
                    break
            return out if out is not None else BOTTOM
        out = join_all(vals)
        if all(v.has_const() for v in vals):
            res = True
            for v in vals:
                res = res and v.const
            return replace(out, const=res)
        if any(v.has_const() and not v.const for v in vals):
            return replace(out, const=False, types=frozenset({"bool"}))
        return replace(out, const=NOCONST)

    def _bare_value(self, expr, val, st, frame):
        """the value whose truthiness `expr` tests: the operand under any number of `not`s"""
        if isinstance(expr, ast.UnaryOp) and isinstance(expr.op, ast.Not):
            inner = expr
            while isinstance(inner, ast.UnaryOp) and isinstance(inner.op, ast.Not):
                inner = inner.operand
            if isinstance(inner, ast.Name):
                return st.env.get(inner.id)
            return None
        return val

    def x_UnaryOp(self, n, st, frame):
        a = self.eval(n.operand, st, frame)
        if isinstance(n.op, ast.Not):
            c = (not a.const) if a.has_const() else NOCONST
            return AV(types=frozenset({"bool"}), deps=a.deps, const=c)
        dunder = {ast.USub: "__neg__", ast.Invert: "__invert__", ast.UAdd: "__pos__"}[type(n.op)]
        r = self.try_dunder(a, dunder, [], n, st, frame)
        if r is not None:
            return r
        c = NOCONST
        if a.has_const() and isinstance(a.const, (int, float)) and isinstance(n.op, ast.USub):
            c = -a.const
        return AV(types=a.types, deps=a.deps, const=c)

    BIN_DUNDER = {ast.Add: "__add__", ast.Sub: "__sub__", ast.BitOr: "__or__", ast.BitAnd: "__and__",
                  ast.Mult: "__mul__", ast.BitXor: "__xor__"}

    def x_BinOp(self, n, st, frame):
        a = self.eval(n.left, st, frame)
        b = self.eval(n.right, st, frame)
        return self.binop(n.op, a, b, n, st, frame)

    def binop(self, op, a, b, n, st, frame):
        dn = self.BIN_DUNDER.get(type(op))
        if dn:
            r = self.try_dunder(a, dn, [b], n, st, frame)
            if r is not None:
                return r
        deps = a.deps | b.deps
        if isinstance(op, ast.Add):
            self.ev(frame, st, "concat", n, args=(a, b))
        const = NOCONST
        if a.has_const() and b.has_const():
            try:
                const = ConstFolder.e_BinOp(_FakeFolder(a.const, b.const), ast.BinOp(left=None, op=op, right=None))
            except Exception:
                const = NOCONST
        kinds = set()
        for side in (a, b):
            if side.types is not None:
                kinds |= set(side.types)
            else:
                kinds = None
                break
        alias = frozenset({self.fresh_loc(frame, n)})
        if a.only("str") or b.only("str"):
            if isinstance(op, (ast.Add, ast.Mod, ast.Mult)):
                return AV(types=frozenset({"str"}), deps=deps, const=const if isinstance(const, str) else NOCONST)
        if a.only("list") or b.only("list"):
            if isinstance(op, (ast.Add, ast.Mult)):
                other = b if a.only("list") else a
                el = join(elem_of(a) if a.only("list") else None, elem_of(b) if b.only("list") else None)
                return AV(types=frozenset({"list"}), alias=alias, elem=_strip(el), deps=deps)
        if a.only("set", "frozenset") and isinstance(op, (ast.BitOr, ast.BitAnd, ast.Sub, ast.BitXor)):
            el = elem_of(a) if isinstance(op, (ast.BitAnd, ast.Sub)) else join(elem_of(a), elem_of(b))
            quals = frozenset()
            if isinstance(op, ast.BitOr):
                quals = _union_quals(a, b)
            return AV(types=a.types, alias=alias, elem=_strip(el), deps=deps, quals=quals)
        if a.only("tuple") and b.only("tuple") and isinstance(op, ast.Add):
            items = (a.items + b.items) if (a.items is not None and b.items is not None) else None
            return AV(types=frozenset({"tuple"}), alias=alias, items=items,
                      elem=_strip(join(elem_of(a), elem_of(b))), deps=deps)
        num = frozenset({"int", "float", "bool"})
        if kinds is not None and kinds and kinds <= num:
            ty = frozenset({"float"}) if ("float" in kinds or isinstance(op, ast.Div)) else frozenset({"int"})
            return AV(types=ty, deps=deps, const=const)
        return AV(types=None, deps=deps, alias=alias)

    def x_Compare(self, n, st, frame):
        left = self.eval(n.left, st, frame)
        deps = set(left.deps)
        cur = left
        const = NOCONST
        for op, cnode in zip(n.ops, n.comparators):
            right = self.eval(cnode, st, frame)
            deps |= right.deps
            if isinstance(op, (ast.In, ast.NotIn)):
                self.ev(frame, st, "member", n, recv=right, args=(cur,), attr="in" if isinstance(op, ast.In) else "notin")
                r = self.try_dunder(right, "__contains__", [cur], n, st, frame)
                if r is not None:
                    deps |= r.deps
                if len(n.ops) == 1 and cur.has_const() and _plain(cur.const):
                    table = self._module_table(cnode, st, frame)
                    if table is not None:
                        try:
                            hit = cur.const in table
                        except TypeError:
                            hit = None
                        if hit is not None:
                            const = hit if isinstance(op, ast.In) else not hit
            elif isinstance(op, (ast.Eq, ast.NotEq)):
                from .av import CONTAINER_TYPES, all_deps as _all_deps
                for side in (cur, right):
                    if side.types is not None and side.types and side.types <= CONTAINER_TYPES:
                        deps |= _all_deps(side)          # two lists / sets / dicts are equal iff their elements are
                self.ev(frame, st, "compare", n, args=(cur, right), attr="eq" if isinstance(op, ast.Eq) else "ne")
                r = self.try_dunder(cur, "__eq__", [right], n, st, frame, only_interesting=True)
                if r is not None:
                    deps |= r.deps
                if len(n.ops) == 1 and cur.has_const() and right.has_const() and _plain(cur.const) and _plain(right.const):
                    const = (cur.const == right.const) if isinstance(op, ast.Eq) else (cur.const != right.const)
            elif isinstance(op, (ast.Is, ast.IsNot)):
                if len(n.ops) == 1:
                    if right.has_const() and right.const is None and cur.types is not None:
                        if "None" not in cur.types:
                            const = isinstance(op, ast.IsNot)
                        elif cur.types == frozenset({"None"}):
                            const = isinstance(op, ast.Is)
            else:
                self.ev(frame, st, "compare", n, args=(cur, right), attr="order")
                if len(n.ops) == 1 and cur.has_const() and right.has_const() and \
                        isinstance(cur.const, (int, float)) and isinstance(right.const, (int, float)):
                    const = {ast.Lt: cur.const < right.const, ast.LtE: cur.const <= right.const,
                             ast.Gt: cur.const > right.const, ast.GtE: cur.const >= right.const}[type(op)]
            cur = right
        return AV(types=frozenset({"bool"}), deps=frozenset(deps), const=const)

    def _module_table(self, node, st, frame):
        """The constant-folded content of a module-level table named by `node` (an upper-case module constant that no
        local shadows): the repository treats these lists / dicts / strings as constants."""
        if not isinstance(node, ast.Name) or node.id in st.env or not node.id.isupper():
            return None
        try:
            val = self.prog.const(frame.module.name, node.id)
        except Exception:
            return None
        if isinstance(val, (list, tuple, set, frozenset, str, dict)):
            return val
        return None

    def x_IfExp(self, n, st, frame):
        c = self.eval(n.test, st, frame)
        self.truth(n.test, self._bare_value(n.test, c, st, frame), st, frame)
        if c.has_const():
            return self.eval(n.body if c.const else n.orelse, st, frame).with_deps(c.deps)
        s1 = st.copy()
        self.narrow(n.test, True, s1, frame)
        tf, ff = self.cond_facts(n.test)
        s1.facts |= tf
        a = self.eval(n.body, s1, frame)
        s2 = st.copy()
        self.narrow(n.test, False, s2, frame)
        s2.facts |= ff
        b = self.eval(n.orelse, s2, frame)
        return join(a, b).with_deps(c.deps)

    def x_Lambda(self, n, st, frame):
        return AV(types=frozenset({"function"}), fn=("lambda", n, frame, _EnvRef(dict(st.env))))

    def x_Starred(self, n, st, frame):
        return self.eval(n.value, st, frame)

    def x_NamedExpr(self, n, st, frame):
        v = self.eval(n.value, st, frame)
        self.bind_target(n.target, v, st, frame)
        return v

    def x_Yield(self, n, st, frame):
        v = self.eval(n.value, st, frame) if n.value is not None else t("None")
        frame.yields.append(v.with_deps(st.ctrl | st.xctrl))
        self.ev(frame, st, "yield", n, value=v)          # with the branch facts at the yield
        return TOP

    def x_YieldFrom(self, n, st, frame):
        v = self.eval(n.value, st, frame)
        frame.yields.append(self.iterate(v, n.value, st, frame).with_deps(st.ctrl | st.xctrl))
        return TOP

    def x_Await(self, n, st, frame):
        return self.eval(n.value, st, frame)

    # ----------------------------------------------------------- subscripts
    def x_Subscript(self, n, st, frame):
        base = self.eval(n.value, st, frame)
        if isinstance(n.slice, ast.Slice):
            parts = [self.eval(x, st, frame) for x in (n.slice.lower, n.slice.upper, n.slice.step) if x is not None]
            deps = base.deps.union(*[p.deps for p in parts]) if parts else base.deps
            slice_ev = self.ev(frame, st, "slice", n, recv=base, args=tuple(parts))
            ty = base.types
            items = None
            if base.items is not None and all(p.has_const() for p in parts):
                lo = self.eval(n.slice.lower, st, frame).const if n.slice.lower else None
                hi = self.eval(n.slice.upper, st, frame).const if n.slice.upper else None
                sp = self.eval(n.slice.step, st, frame).const if n.slice.step else None
                try:
                    items = base.items[lo:hi:sp]
                except Exception:
                    items = None
            el = base.elem
            if base.items is not None and items is None:
                el = _strip(elem_of(base))
            quals = frozenset()
            if n.slice.lower is None and n.slice.upper is None:
                # full slice (possibly stepped by +-1): a re-ordering of the whole sequence
                step = self.eval(n.slice.step, st, frame) if n.slice.step is not None else None
                if step is None or (step.has_const() and step.const in (1, -1)):
                    quals = frozenset({("PERM_OF", l) for l in base.alias} |
                                      {q for q in base.quals if isinstance(q, tuple) and q[0] == "PERM_OF"})
            out = AV(types=ty, alias=frozenset({self.fresh_loc(frame, n)}), elem=el, items=items, deps=deps,
                     quals=quals)
            slice_ev.result = out
            return out
        idx = self.eval(n.slice, st, frame)
        res = self.subscript_value(base, idx, n, st, frame)
        self.ev(frame, st, "subscript", n, recv=base, args=(idx,), result=res)
        # remembered for `X[k].append(v)`: which cell receives v depends on k (see CallMixin.mutate)
        sel = getattr(frame, "sel_deps", None)
        if sel is None:
            sel = frame.sel_deps = {}
        sel[id(n)] = all_deps(idx)
        return res

    def subscript_value(self, base, idx, n, st, frame) -> AV:
        r = self.try_dunder(base, "__getitem__", [idx], n, st, frame)
        if r is not None:
            return r
        if base.items is not None and idx.has_const() and isinstance(idx.const, int) and \
                -len(base.items) <= idx.const < len(base.items):
            it = base.items[idx.const]
            alias = frozenset(loc_ext(l, "[]") for l in base.alias) | it.alias
            return replace(it, alias=alias, deps=it.deps | base.deps | all_deps(idx))
        e = elem_of(base)
        return replace(e, deps=e.deps | all_deps(idx), const=NOCONST)

    # ------------------------------------------------------------ attributes
    def x_Attribute(self, n, st, frame):
        base = self.eval(n.value, st, frame)
        return self.get_attr(base, n.attr, n, st, frame)

    def get_attr(self, base: AV, attr: str, n, st, frame, call=False) -> AV:
        # modules / classes / external names
        if base.has_const() and isinstance(base.const, (ModuleRef, ExtRef)):
            ent = self.prog.attr_of(base.const, attr)
            if ent is None:
                self.unresolved(frame, st, n, "module attribute %s" % attr)
                return TOP
            return self.entity_av(ent, frame, st, n)
        if base.fn is not None and base.fn[0] == "class":
            ent = self.prog.attr_of(self.prog.classes[base.fn[1]], attr)
            if isinstance(ent, FuncInfo):
                if ent.kind == "class":
                    return AV(types=frozenset({"function"}), fn=("func", ent, base))
                return AV(types=frozenset({"function"}), fn=("func", ent, None))
            if isinstance(ent, ConstDef):
                return self.const_def_av(ent, frame, st, n)
        if base.fn is not None and base.fn[0] == "builtin" and base.fn[1] == "dict" and attr == "fromkeys":
            return AV(types=frozenset({"builtin"}), fn=("builtin", "dict.fromkeys"))
        if base.fn is not None and base.fn[0] == "super":
            _, cls_q, after, self_av = base.fn
            fi = self.prog.find_method(cls_q, attr, after=after)
            if fi is not None:
                return AV(types=frozenset({"function"}), fn=("func", fi, self_av))
            if attr == "__init__":
                return AV(types=frozenset({"builtin"}), fn=("builtin", "object.__init__"))
            self.unresolved(frame, st, n, "super().%s" % attr)
            return TOP
        results = []
        if base.types is None:
            return self.attr_on_top(base, attr, n, st, frame, call)
        repo_types = [ty for ty in base.types if ty in self.prog.classes]
        if len(repo_types) > 1 and len(repo_types) == len([ty for ty in base.types if ty != "None"]):
            fis = [self.prog.find_method(ty, attr) for ty in repo_types]
            if all(f is not None and f.kind == "method" for f in fis):
                if "None" in base.types:
                    self.ev(frame, st, "attr", n, recv=base, attr=attr, note="on-None")
                return AV(types=frozenset({"function"}),
                          fn=("meth", attr, replace(base, types=frozenset(repo_types))))
        builtin_tys = []
        for ty in sorted(base.types):
            if ty in self.prog.classes:
                results.append(self.attr_on_class(base, ty, attr, n, st, frame))
            elif ty == "None":
                self.ev(frame, st, "attr", n, recv=base, attr=attr, note="on-None")
                continue
            elif ty in ("classobj", "module", "ext", "function"):
                results.append(TOP)
            elif ty in ("str", "int", "bool", "float", "bytes") and not self._is_scalar_method(ty, attr):
                # attribute that a scalar does not have: the access raises AttributeError on that path
                self.ev(frame, st, "attr", n, recv=base, attr=attr, note="missing-on:" + ty)
            else:
                builtin_tys.append(ty)
        if builtin_tys:
            results.append(AV(types=frozenset({"builtin"}),
                              fn=("bmeth", attr, replace(base, types=frozenset(builtin_tys)))))
        if not results:
            return BOTTOM
        fns = [r.fn for r in results]
        if len(results) > 1 and all(f is not None for f in fns) and len(set(map(id, fns))) > 1:
            return AV(types=frozenset({"function"}), fn=("multi", tuple(fns)))
        return join_all(results)

    def _is_scalar_method(self, ty, attr):
        proto = {"str": str, "int": int, "bool": bool, "float": float, "bytes": bytes}[ty]
        return hasattr(proto, attr)

    def attr_on_class(self, base, cls_q, attr, n, st, frame) -> AV:
        one = replace(base, types=frozenset({cls_q}))
        fi = self.prog.find_method(cls_q, attr)
        if fi is not None:
            if fi.kind == "property":
                return self.call_function(fi, one, [], {}, n, st, frame, via="property")
            if fi.kind == "static":
                return AV(types=frozenset({"function"}), fn=("func", fi, None))
            if fi.kind == "class":
                return AV(types=frozenset({"function"}), fn=("func", fi, AV(types=frozenset({"classobj"}), fn=("class", cls_q))))
            return AV(types=frozenset({"function"}), fn=("func", fi, one))
        return self.read_field(one, cls_q, attr, n, st, frame)

    def read_field(self, base: AV, cls_q, attr, n, st, frame) -> AV:
        alias = frozenset(loc_ext(l, attr) for l in base.alias)
        stored = None
        if len(base.alias) == 1:
            key = "@" + repr(next(iter(base.alias))) + "." + attr
            stored = st.env.get(key)
        if stored is None and cls_q is not None:
            stored = self.field_table_get(cls_q, attr)
            if stored is None and cls_q in self.prog.classes:
                # class attribute?
                ent = self.prog.attr_of(self.prog.classes[cls_q], attr)
                if isinstance(ent, ConstDef):
                    return self.const_def_av(ent, frame, st, n)
                if self.field_table_ready:
                    self.ev(frame, st, "attr", n, recv=base, attr=attr, note="no-such-field:" + cls_q)
        if stored is None:
            # while the field table is being built, unknown fields are optimistic (bottom) so that the table grows
            # from below; afterwards an unknown field is unknown
            stored = TOP if self.field_table_ready else BOTTOM
        # the object stored in the field is reachable through base: identity = field location
        return replace(stored, alias=alias | frozenset(a for a in stored.alias if not a[0].startswith("fresh:") or True),
                       deps=stored.deps | base.deps | alias)

    def attr_on_top(self, base, attr, n, st, frame, call=False) -> AV:
        kinds = self.attr_kinds(attr)
        if call and self._is_builtin_method_name(attr) and "property" not in kinds:
            if "method" in kinds:
                return AV(types=frozenset({"function"}), fn=("cha", attr, base))
            return AV(types=frozenset({"builtin"}), fn=("bmeth", attr, base))
        if "method" in kinds and "property" not in kinds and "field" not in kinds:
            return AV(types=frozenset({"function"}), fn=("cha", attr, base))
        if "property" in kinds:
            # receiver of unknown class: every property getter of the repository is side-effect free (obligation
            # C19/property-purity checks exactly that), so the access is a pure read through the receiver
            alias = frozenset(loc_ext(l, attr) for l in base.alias)
            self.ev(frame, st, "attr", n, recv=base, attr=attr, note="top-property")
            only_prop = kinds == {"property"}
            return AV(types=None, alias=alias, deps=base.deps | alias,
                      quals=frozenset({("PROPERTY_VALUE", attr)}) if only_prop else frozenset())
        if not kinds and not self._is_builtin_method_name(attr):
            self.ev(frame, st, "attr", n, recv=base, attr=attr, note="unknown-attr")
        if not kinds and self._is_builtin_method_name(attr):
            return AV(types=frozenset({"builtin"}), fn=("bmeth", attr, base))
        alias = frozenset(loc_ext(l, attr) for l in base.alias)
        return AV(types=None, alias=alias, deps=base.deps | alias)

    def _simple_getter(self, fi: FuncInfo) -> bool:
        body = [s for s in fi.node.body if not (isinstance(s, ast.Expr) and isinstance(s.value, ast.Constant))]
        return (len(body) == 1 and isinstance(body[0], ast.Return) and isinstance(body[0].value, ast.Attribute)
                and isinstance(body[0].value.value, ast.Name) and body[0].value.value.id == "self")

    # --------------------------------------------------------------- helpers
    def str_of(self, a: AV, node, st, frame) -> AV:
        r = self.try_dunder(a, "__str__", [], node, st, frame)
        if r is None:
            r = self.try_dunder(a, "__repr__", [], node, st, frame)
        deps = all_deps(a) | (r.deps if r is not None else frozenset())
        quals = set()
        if a.only("tuple"):
            quals.add("STR_OF_TUPLE")
        return AV(types=frozenset({"str"}), deps=deps, quals=frozenset(quals))


class _EnvRef:
    """Hashable-by-identity holder of a captured environment."""
    __slots__ = ("env",)

    def __init__(self, env):
        self.env = env


class _FakeFolder:
    def __init__(self, a, b):
        self._vals = [a, b]

    def eval(self, _):
        return self._vals.pop(0)


def _strip(av):
    if av is None:
        return None
    return replace(av, const=NOCONST)


def _hashable(v):
    try:
        hash(v)
        return True
    except TypeError:
        return False


def _plain(v):
    return isinstance(v, (str, int, float, bool, type(None), tuple))


def _union_quals(a: AV, b: AV) -> frozenset:
    if EMPTYQ in a.quals and EMPTYQ in b.quals:
        return frozenset({EMPTYQ})
    if EMPTYQ in a.quals:
        return b.quals
    if EMPTYQ in b.quals:
        return a.quals
    return a.quals & b.quals
