"""Calls: resolution through receiver types, inlining with memoised summaries,
builtin container semantics, dunder dispatch, iteration protocol."""
from __future__ import annotations

import ast
from dataclasses import replace

from .av import (AV, BOTTOM, TOP, NOCONST, EMPTYQ, t, join, join_all, elem_of, loc_ext, all_deps)
from .index import ClassInfo, FuncInfo, ModuleRef, ExtRef
from .state import Event, State, Frame, Summary, apply_mutation, join_states
from .interp_expr import _strip, _union_quals, const_av

MUTATORS = {
    # name -> how the argument joins the container
    "add": "add", "append": "add", "appendleft": "add", "insert": "add", "put": "add", "extend": "update",
    "update": "update", "remove": "del", "discard": "del", "clear": "clear", "sort": "none", "reverse": "none",
    "pop": "del", "popleft": "del", "setdefault": "setdefault", "get_nowait": "del", "popitem": "del",
    "difference_update": "del", "intersection_update": "del",
}
PURE_RETURNING_ELEM = {"pop", "popleft", "get", "setdefault", "get_nowait"}
BUILTIN_METHOD_NAMES = set(MUTATORS) | {
    "copy", "union", "intersection", "difference", "issubset", "issuperset", "isdisjoint", "symmetric_difference",
    "items", "keys", "values", "get", "index", "count", "join", "split", "strip", "lstrip", "rstrip", "startswith",
    "endswith", "replace", "isalnum", "isdigit", "isupper", "islower", "format", "find", "upper", "lower",
    "splitlines", "empty", "isalpha", "encode", "title", "capitalize", "rsplit", "partition", "zfill",
}

STR_METHODS_TO_STR = {"strip", "lstrip", "rstrip", "replace", "format", "upper", "lower", "join", "title",
                      "capitalize", "zfill"}
STR_METHODS_TO_BOOL = {"startswith", "endswith", "isalnum", "isdigit", "isupper", "islower", "isalpha"}

# read-only methods of the external objects the library handles (networkx graphs: reporting views and queries;
# compiled patterns / match objects)
EXT_READ_ONLY = frozenset({
    "nodes", "edges", "in_edges", "out_edges", "adjacency", "neighbors", "successors", "predecessors", "degree", "in_degree",
    "out_degree", "has_node", "has_edge", "get_edge_data", "number_of_nodes", "number_of_edges", "nbunch_iter", "is_directed",
    "is_multigraph", "order", "size", "match", "fullmatch", "search", "findall", "finditer", "group", "groups", "span",
    "start", "end"})

MAX_DEPTH_CALLS = 40
MAX_SAME_FUNC = 3


class CallMixin:

    # -------------------------------------------------------------- ast Call
    def x_Call(self, n: ast.Call, st, frame) -> AV:
        # super()
        if isinstance(n.func, ast.Name) and n.func.id == "super" and "super" not in st.env:
            if frame.func is not None and frame.func.cls is not None and frame.self_av is not None:
                rq = frame.recv_cls or frame.func.cls.qname
                return AV(types=frozenset({"super"}), fn=("super", rq, frame.func.cls.qname, frame.self_av))
        if isinstance(n.func, ast.Attribute):
            fbase = self.eval(n.func.value, st, frame)
            fav = self.get_attr(fbase, n.func.attr, n.func, st, frame, call=True)
        else:
            fav = self.eval(n.func, st, frame)
        args = []
        for a in n.args:
            if isinstance(a, ast.Starred):
                cv = a.value
                if isinstance(cv, (ast.ListComp, ast.GeneratorExp)) and len(cv.generators) == 1 and not cv.generators[0].ifs:
                    # f(*[g(x) for x in xs]) with xs of known arity (a display, a *args tuple): one argument per item
                    itv = self.eval(cv.generators[0].iter, st, frame)
                    if itv.items is not None and 1 <= len(itv.items) <= 4:
                        for item in itv.items:
                            sub = st.copy()
                            self.bind_target(cv.generators[0].target, item, sub, frame)
                            args.append(self.eval(cv.elt, sub, frame))
                        continue
                v = self.eval(a.value, st, frame)
                if fav.fn == ("builtin", "zip") and len(n.args) == 1:
                    # zip(*rows): transposition; every column holds elements of the rows
                    cell = elem_of(elem_of(v))
                    col = AV(types=frozenset({"tuple"}), elem=_strip(cell), deps=v.deps)
                    return AV(types=frozenset({"iterator"}), elem=col, deps=v.deps,
                              alias=frozenset({self.fresh_loc(frame, n)}))
                if v.items is not None:
                    args.extend(v.items)
                else:
                    # a sequence of unknown length spread over the remaining positional parameters of a known callee:
                    # each of them may receive any element
                    k = self._positional_arity(fav)
                    rest = sum(1 for x in n.args[n.args.index(a) + 1:] if not isinstance(x, ast.Starred))
                    if k is not None and k - len(args) - rest >= 1 and \
                            not any(isinstance(x, ast.Starred) for x in n.args[n.args.index(a) + 1:]):
                        args.extend([elem_of(v)] * (k - len(args) - rest))
                    else:
                        self.unresolved(frame, st, n, "star-args of unknown arity")
                        args.append(elem_of(v))
            else:
                args.append(self.eval(a, st, frame))
        kwargs = {}
        for kw in n.keywords:
            if kw.arg is None:
                self.eval(kw.value, st, frame)
                self.unresolved(frame, st, n, "**kwargs")
            else:
                kwargs[kw.arg] = self.eval(kw.value, st, frame)
        return self.call_value(fav, args, kwargs, n, st, frame)

    def _index_may_raise(self, n, args, st, frame):
        """seq.index(x[, start[, end]]) raises ValueError when x is not found: an explicit-raise site unless a branch
        fact says `x in seq` for the very search (a start / end argument searches only a part, so a membership test of
        the whole sequence does not cover it)"""
        if not (isinstance(n, ast.Call) and isinstance(n.func, ast.Attribute) and n.args):
            return
        if len(n.args) <= 2 and not n.keywords:
            seq, x = ast.unparse(n.func.value), ast.unparse(n.args[0])
            if len(n.args) == 2:
                seq = "%s[%s:]" % (seq, ast.unparse(n.args[1]))      # the part that is searched
            for text, pol, _names in st.facts:
                if (text == "%s in %s" % (x, seq) and pol) or (text == "%s not in %s" % (x, seq) and not pol):
                    return
        self.ev(frame, st, "raise", n, exc=("ValueError",), note="lookup:index")

    def _positional_arity(self, fav: AV):
        """number of positional parameters the callee takes (receiver excluded), when the callee is known"""
        fn = fav.fn
        if fn is None:
            return None
        if fn[0] == "func":
            fi, recv = fn[1], fn[2]
            if isinstance(fi.node, ast.Lambda) or fi.node.args.vararg is not None:
                return None
            k = len(fi.params)
            if fi.kind in ("method", "property", "setter", "class") and (recv is not None or fi.kind == "class"):
                k -= 1
            return k
        if fn[0] == "class":
            init = self.prog.find_method(fn[1], "__init__")
            if init is None or init.node.args.vararg is not None:
                return None
            return len(init.params) - 1
        if fn[0] == "lambda":
            a = fn[1].args
            return None if a.vararg is not None else len(a.args)
        return None

    def call_value(self, fav: AV, args, kwargs, n, st, frame) -> AV:
        fn = fav.fn
        if fn is None:
            # instance with __call__ ?
            r = self.try_dunder(fav, "__call__", args, n, st, frame, kwargs=kwargs)
            if r is not None:
                return r
            if fav.has_const() and isinstance(fav.const, ExtRef):
                return self.call_external(fav.const.name, args, kwargs, n, st, frame)
            pq = [q for q in fav.quals if isinstance(q, tuple) and q[0] == "PROPERTY_VALUE"]
            if pq:
                # `x.p()` where p is a @property in every class that defines it: the *value* of the property is called
                self.ev(frame, st, "propcall", n, recv=fav, attr=pq[0][1], args=tuple(args))
            else:
                self.unresolved(frame, st, n, "call of unknown value")
            deps = frozenset().union(*[a.deps for a in args]) if args else frozenset()
            return AV(types=None, deps=deps | fav.deps)
        kind = fn[0]
        if kind == "func":
            _, fi, recv = fn
            if fi.kind == "class" and recv is None:
                recv = AV(types=frozenset({"classobj"}), fn=("class", fi.cls.qname))
            if fi.kind in ("method", "property") and recv is None and args and fi.cls is not None:
                # a method taken from the class and called with the instance first: `Base.method(obj, ..)`
                recv, args = args[0], list(args[1:])
            return self.call_function(fi, recv, args, kwargs, n, st, frame)
        if kind == "class":
            return self.construct(fn[1], args, kwargs, n, st, frame)
        if kind == "methodcaller" and args:
            # operator.methodcaller("m", *extra)(obj) is obj.m(*extra)
            mav = self.get_attr(args[0], fn[1], n, st, frame, call=True)
            return self.call_value(mav, list(fn[2]) + list(args[1:]), dict(kwargs), n, st, frame)
        if kind == "attrgetter" and args:
            return self.get_attr(args[0], fn[1], n, st, frame)
        if kind == "builtin":
            return self.call_builtin(fn[1], args, kwargs, n, st, frame)
        if kind == "bmeth":
            return self.call_builtin_method(fn[2], fn[1], args, kwargs, n, st, frame)
        if kind == "multi":
            outs = [self.call_value(AV(types=frozenset({"function"}), fn=f), list(args), dict(kwargs), n, st, frame)
                    for f in fn[1]]
            return join_all(outs)
        if kind == "meth":
            _, name, recv = fn
            outs = []
            for ty in sorted(recv.types):
                fi = self.prog.find_method(ty, name)
                outs.append(self.call_function(fi, replace(recv, types=frozenset({ty})), list(args), dict(kwargs), n,
                                               st, frame))
            return join_all(outs)
        if kind == "cha":
            return self.call_cha(fn[2], fn[1], args, kwargs, n, st, frame)
        if kind == "lambda":
            return self.call_lambda(fn, args, kwargs, n, st, frame)
        if kind == "ext":
            return self.call_external(fn[1], args, kwargs, n, st, frame)
        self.unresolved(frame, st, n, "call kind %s" % kind)
        return TOP

    # ------------------------------------------------------------- inlining
    def call_function(self, fi: FuncInfo, recv, args, kwargs, n, st, frame, via="call") -> AV:
        """Analyse `fi` with these abstract arguments (memoised) and replay its
        effects in the caller."""
        recv_cls = None
        if recv is not None and fi.kind in ("method", "property", "setter"):
            if recv.types is not None and len(recv.types) == 1:
                recv_cls = next(iter(recv.types))
            elif recv.types is not None and len(recv.types) > 1:
                # dispatch per receiver class
                outs = []
                for ty in sorted(recv.types):
                    if ty not in self.prog.classes:
                        continue
                    fi2 = self.prog.find_method(ty, fi.name) or fi
                    outs.append(self.call_function(fi2, replace(recv, types=frozenset({ty})), args, kwargs, n, st,
                                                   frame, via))
                return join_all(outs) if outs else TOP
        summ = self.summarise(fi, recv, recv_cls, tuple(args), tuple(sorted(kwargs.items())), frame, n)
        e = self.ev(frame, st, "call", n, callee=fi.qname, recv=recv, args=tuple(args),
                    kwargs=tuple(sorted(kwargs.items())), result=summ.ret, sub=summ, note=via)
        self.replay(summ, recv, st, frame)
        if not summ.may_return:
            st.reachable = False
        res = summ.ret
        hook = self.model_hooks.get(fi.qname)
        if hook is not None:
            res = hook(self, fi, recv, args, kwargs, res, e)
            e.result = res
        for ghook in getattr(self, "generic_hooks", ()):
            r2 = ghook(self, fi, recv, args, kwargs, res, e)
            if r2 is not res:
                res = r2
                e.result = res
        return res

    def replay(self, summ: Summary, recv, st, frame):
        for locs, added, how in summ.mutations:
            apply_mutation(st, locs, added, how)
            frame.mutations.append((locs, added, how))
        frame.n_unresolved += summ.n_unresolved
        if summ.incomplete:
            frame.incomplete = True
        if recv is not None and len(recv.alias) == 1 and summ.self_out:
            base = "@" + repr(next(iter(recv.alias))) + "."
            for f, (val, strong) in summ.self_out.items():
                k = base + f
                if strong:
                    st.env[k] = val
                elif k in st.env:
                    st.env[k] = join(st.env[k], val)

    def summarise(self, fi: FuncInfo, recv, recv_cls, args, kwitems, frame, n) -> Summary:
        key0 = (fi.qname, fi.kind, recv, args, kwitems)
        cached = self.memo.get(key0)
        if cached is not None:
            self.stats["memo_hits"] += 1
            return cached
        # summaries that hand out objects allocated inside are specific to the chain of call sites (allocation sites
        # are named by it): they are cached per call-site key
        key = key0 + (self._callsite_key(frame, n),)
        cached = self.memo.get(key)
        if cached is not None:
            self.stats["memo_hits"] += 1
            return cached
        akey = (fi.qname, fi.kind, recv_cls)
        if akey in self.active:
            # recursion (detected per function and receiver class, whatever the abstract arguments): use the
            # approximation of the previous round, generalised; the outermost activation iterates to a fixpoint
            self.stats["recursive_calls"] += 1
            for used in self.approx_used:
                used.add(akey)
            prev = self.active[akey]
            deps = frozenset().union(*[a.deps for a in args]) if args else frozenset()
            if recv is not None:
                deps |= recv.deps
            if prev is None:
                return Summary(fi, recv_cls, BOTTOM.with_deps(deps) if False else BOTTOM, incomplete=False)
            ret = _generalise_ret(prev.ret, deps)
            return Summary(fi, recv_cls, ret, [], list(prev.mutations), {}, may_return=prev.may_return)
        if (frame.depth if frame is not None else 0) > MAX_DEPTH_CALLS:
            self.stats["depth_cut"] += 1
            return Summary(fi, recv_cls, TOP, incomplete=True, n_unresolved=1)
        self.active[akey] = None
        used = set()
        self.approx_used.append(used)
        summ = None
        prev_ret = None
        try:
            for _round in range(4):
                used.discard(akey)
                summ = self.run_function(fi, recv, recv_cls, args, dict(kwitems), frame, n)
                if akey not in used:
                    break
                if prev_ret is not None and _same_shape(summ.ret, prev_ret):
                    break
                prev_ret = summ.ret
                self.active[akey] = summ
        finally:
            self.approx_used.pop()
            del self.active[akey]
        used.discard(akey)
        if not used:
            self.memo[key if _allocates(summ) else key0] = summ
        self.stats["functions_analysed"] += 1
        return summ

    def _callsite_key(self, caller, n) -> str:
        """allocation sites are distinguished by (a suffix of) the chain of call sites that leads to them"""
        if caller is None or n is None or caller.depth + 1 > 4:
            return ""
        segs = [x for x in caller.callsite_key.split("<") if x]
        # line AND column: `return self._new(), self._new()` are two allocation contexts
        segs.append("%s:%d.%d" % (caller.qname.rsplit(".", 1)[-1], getattr(n, "lineno", 0), getattr(n, "col_offset", 0)))
        return "".join("<" + x for x in segs[-3:])

    def bind_params(self, fi: FuncInfo, recv, args, kwargs, st: State, fr: Frame, entry=False):
        a = fi.node.args
        params = [x for x in a.posonlyargs + a.args]
        defaults = [None] * (len(params) - len(a.defaults)) + list(a.defaults)
        pos = list(args)
        names = [p.arg for p in params]
        start = 0
        if fi.kind in ("method", "property", "setter", "class") and names:
            st.env[names[0]] = recv if recv is not None else TOP
            start = 1
        elif fi.kind == "function" and isinstance(fi.node, ast.Lambda):
            start = 0
        i = start
        for p, d in list(zip(params, defaults))[start:]:
            if pos:
                st.env[p.arg] = pos.pop(0)
            elif p.arg in kwargs:
                st.env[p.arg] = kwargs.pop(p.arg)
            elif d is not None:
                dfr = Frame(None, self.prog.modules[fi.module], None, None, fr.depth + 1)
                dv = self.eval(d, State(), dfr)
                fr.n_unresolved += dfr.n_unresolved
                if entry:
                    # entry point: the caller may pass anything the annotation allows, or leave the default
                    pv = self.param_av(fi, p)
                    dv = replace(join(pv, replace(dv, const=NOCONST)), alias=pv.alias | dv.alias, deps=pv.deps | dv.deps)
                st.env[p.arg] = dv
            elif entry:
                st.env[p.arg] = self.param_av(fi, p)
            else:
                self.unresolved(fr, st, fi.node, "missing argument %s" % p.arg)
                st.env[p.arg] = TOP
            i += 1
        for p, d in zip(a.kwonlyargs, a.kw_defaults):
            if p.arg in kwargs:
                st.env[p.arg] = kwargs.pop(p.arg)
            elif d is not None:
                dfr = Frame(None, self.prog.modules[fi.module], None, None, fr.depth + 1)
                st.env[p.arg] = self.eval(d, State(), dfr)
        if a.vararg is not None:
            # *args: the surplus positional arguments, position by position
            st.env[a.vararg.arg] = AV(types=frozenset({"tuple"}), elem=_strip(join_all(pos)) if pos else None,
                                      items=tuple(pos) if len(pos) <= 8 else None,
                                      quals=frozenset({EMPTYQ}) if not pos else frozenset())
            pos = []
        if a.kwarg is not None:
            st.env[a.kwarg.arg] = AV(types=frozenset({"dict"}))
            kwargs.clear()
        if pos or kwargs:
            self.unresolved(fr, st, fi.node, "extra arguments in call of %s" % fi.qname)

    def run_function(self, fi: FuncInfo, recv, recv_cls, args, kwargs, caller: Frame, n, entry=False) -> Summary:
        mod = self.prog.modules[fi.module]
        depth = (caller.depth + 1) if caller is not None else 0
        ck = self._callsite_key(caller, n)
        fr = Frame(fi, mod, recv_cls or (fi.cls.qname if fi.cls is not None and recv is not None else None), recv,
                   depth, ck)
        if fi.cls is not None and fi.kind in ("method", "property", "setter"):
            fr.recv_cls = recv_cls or fi.cls.qname
        st = State()
        self.bind_params(fi, recv, args, kwargs, st, fr, entry=entry)
        if isinstance(fi.node, ast.Lambda):
            val = self.eval(fi.node.body, st, fr)
            fr.returns.append((val, st))
            out = st
        else:
            out = self.exec_block(fi.node.body, st, fr)
        exits = [s for (_, s) in fr.returns]
        rets = [v for (v, _) in fr.returns]
        if out.reachable:
            rets.append(t("None", const=None).with_deps(out.xctrl))
            exits.append(out)
        may_return = bool(rets)
        if fi.is_generator:
            el = join_all(fr.yields) if fr.yields else None
            ret = AV(types=frozenset({"generator"}), alias=frozenset({self.fresh_loc(fr, fi.node, "gen")}),
                     elem=_strip(el), deps=(el.deps if el is not None else frozenset()))
            may_return = True
        else:
            ret = join_all(rets) if rets else BOTTOM
        # fields of self at exit
        self_out = {}
        if recv is not None and len(recv.alias) == 1 and exits:
            base = "@" + repr(next(iter(recv.alias))) + "."
            keys = set()
            for s in exits:
                keys |= {k for k in s.env if k.startswith(base)}
            for k in keys:
                strong = all(k in s.env for s in exits)
                val = join_all(s.env[k] for s in exits if k in s.env)
                self_out[k[len(base):]] = (val, strong)
        summ = Summary(fi, fr.recv_cls, ret, fr.events, _dedupe_mut(fr.mutations), self_out,
                       may_return=may_return, n_unresolved=fr.n_unresolved, incomplete=fr.incomplete)
        return summ

    # ---------------------------------------------------------- constructor
    def construct(self, cls_q, args, kwargs, n, st, frame) -> AV:
        ci = self.prog.classes[cls_q]
        obj = AV(types=frozenset({cls_q}), alias=frozenset({self.fresh_loc(frame, n, "new")}))
        # (a tuple / list handed to a constructor carries the dependences of its components: State((a.value, b.value)))
        argdeps = frozenset().union(*[all_deps(a) if (a.items is not None or a.elem is not None) else a.deps
                                      for a in list(args) + list(kwargs.values())]) if (args or kwargs) else frozenset()
        init = self.prog.find_method(cls_q, "__init__")
        self.ev(frame, st, "new", n, callee=cls_q, args=tuple(args), kwargs=tuple(sorted(kwargs.items())), result=obj)
        if init is not None:
            self.call_function(init, obj, args, dict(kwargs), n, st, frame, via="init")
        elif args or kwargs:
            if not any(b for b in ci.ext_bases if "Exception" in b or "Error" in b):
                self.unresolved(frame, st, n, "constructor arguments without __init__: %s" % cls_q)
        tag = getattr(self, "ctor_tags", {}).get(cls_q)
        if tag is not None:
            argdeps = argdeps | {tag}
            self.tagged_sites.setdefault(tag, set()).update(l[0] for l in obj.alias)
        return replace(obj, deps=argdeps)

    # -------------------------------------------------------------- lambdas
    def call_lambda(self, fn, args, kwargs, n, st, frame) -> AV:
        _, node, def_frame, envref = fn
        active = self._lambda_active
        if active.get(id(node), 0) >= 2:
            # recursive nested function: widen (the approximation of the outer activation covers the effects)
            self.stats["nested_recursion_widened"] += 1
            deps = frozenset().union(*[a.deps for a in args]) if args else frozenset()
            return AV(types=None, deps=deps)
        active[id(node)] = active.get(id(node), 0) + 1
        try:
            return self._call_lambda(fn, args, kwargs, n, st, frame)
        finally:
            active[id(node)] -= 1

    def _call_lambda(self, fn, args, kwargs, n, st, frame) -> AV:
        _, node, def_frame, envref = fn
        base_env = dict(envref.env)
        if frame is def_frame:
            # called in the function that defined it: the captured variables have their CURRENT values (a dict the
            # closure fills over several calls is the same dict each time), not those of the moment of the `def`
            for k, v in st.env.items():
                base_env[k] = v
        sub = State(base_env, st.facts, st.ctrl, True, st.xctrl)
        a = node.args
        fr = Frame(def_frame.func, def_frame.module, def_frame.recv_cls, def_frame.self_av, frame.depth + 1,
                   def_frame.callsite_key)
        fr.local_imports = def_frame.local_imports
        bound = set()
        for p, v in zip(a.args, args):
            sub.env[p.arg] = v
            bound.add(p.arg)
        for k, v in (kwargs or {}).items():
            if any(p.arg == k for p in a.args + a.kwonlyargs):
                sub.env[k] = v
                bound.add(k)
        for d, p in zip(a.defaults[::-1], a.args[::-1]):
            if p.arg not in bound:
                sub.env[p.arg] = self.eval(d, sub, fr)
        for d, p in zip(a.kw_defaults, a.kwonlyargs):
            if p.arg not in bound and d is not None:
                sub.env[p.arg] = self.eval(d, sub, fr)
        if isinstance(node, ast.Lambda):
            res = self.eval(node.body, sub, fr)
        else:
            out = self.exec_block(node.body, sub, fr)
            rets = [v for (v, _) in fr.returns]
            if out.reachable:
                rets.append(t("None", const=None))
            is_gen = any(isinstance(x, (ast.Yield, ast.YieldFrom)) for x in _own_nodes(node))
            if is_gen:
                # a nested generator function: calling it gives an iterator over what it yields
                el = join_all(fr.yields) if fr.yields else None
                res = AV(types=frozenset({"generator"}), alias=frozenset({self.fresh_loc(frame, n, "gen")}),
                         elem=_strip(el) if el is not None else None, deps=(el.deps if el is not None else frozenset()))
            else:
                res = join_all(rets)
        frame.events.extend(fr.events)
        frame.n_unresolved += fr.n_unresolved
        for m in fr.mutations:
            apply_mutation(st, *m)
            frame.mutations.append(m)
        return res

    # --------------------------------------------------------------- dunder
    INTERESTING_EQ_CACHE = {}

    def try_dunder(self, recv: AV, name, args, n, st, frame, kwargs=None, only_interesting=False):
        if recv.types is None or not recv.types:
            return None
        outs = []
        found = False
        for ty in sorted(recv.types):
            if ty not in self.prog.classes:
                if found:
                    outs.append(None)
                continue
            fi = self.prog.find_method(ty, name)
            if fi is None:
                continue
            if only_interesting and not self._interesting_eq(fi):
                continue
            found = True
            outs.append(self.call_function(fi, replace(recv, types=frozenset({ty})), list(args), dict(kwargs or {}),
                                           n, st, frame, via="dunder"))
        if not found:
            return None
        vals = [o for o in outs if o is not None]
        res = join_all(vals) if vals else TOP
        if any(o is None for o in outs):
            res = replace(res, types=None)
        return res

    def _interesting_eq(self, fi: FuncInfo) -> bool:
        """__eq__ bodies that call something besides isinstance/len (delegation)."""
        if fi.qname in self.INTERESTING_EQ_CACHE:
            return self.INTERESTING_EQ_CACHE[fi.qname]
        res = False
        for sub in ast.walk(fi.node):
            if isinstance(sub, ast.Call):
                f = sub.func
                if isinstance(f, ast.Name) and f.id in ("isinstance", "len", "hash"):
                    continue
                res = True
        self.INTERESTING_EQ_CACHE[fi.qname] = res
        return res

    # ------------------------------------------------------------ iteration
    def iterate(self, it: AV, node, st, frame) -> AV:
        """Element obtained by `for x in it`."""
        if it.types is not None:
            repo = [ty for ty in it.types if ty in self.prog.classes]
            if repo:
                outs = []
                for ty in sorted(it.types):
                    if ty not in self.prog.classes:
                        outs.append(elem_of(replace(it, types=frozenset({ty}))))
                        continue
                    one = replace(it, types=frozenset({ty}))
                    fi = self.prog.find_method(ty, "__iter__")
                    if fi is None:
                        if len(it.types) > 1:
                            # a may-type that cannot be iterated: that path raises TypeError, it contributes no element
                            self.ev(frame, st, "attr", node, recv=one, attr="__iter__", note="non-iterable:" + ty)
                            continue
                        self.unresolved(frame, st, node, "iteration over %s" % ty)
                        outs.append(TOP)
                        continue
                    r = self.call_function(fi, one, [], {}, node, st, frame, via="dunder")
                    if r.only("generator") or (r.types is not None and not (r.types & set(self.prog.classes))):
                        outs.append(elem_of(r).with_deps(it.deps))
                    else:
                        nouts = []
                        for ty2 in sorted(r.types or ()):
                            nx = self.prog.find_method(ty2, "__next__") if ty2 in self.prog.classes else None
                            if nx is None:
                                nouts.append(TOP)
                            else:
                                nouts.append(self.call_function(nx, replace(r, types=frozenset({ty2})), [], {}, node,
                                                                st, frame, via="dunder"))
                        outs.append(join_all(nouts).with_deps(it.deps) if nouts else TOP)
                return join_all(outs)
        if it.only("dict"):
            k = it.key if it.key is not None else TOP
            return replace(k, deps=k.deps | it.deps,
                           alias=k.alias | frozenset(loc_ext(l, "[]") for l in it.alias))
        e = elem_of(it)
        return replace(e, const=NOCONST)

    # --------------------------------------------------------------- targets
    def bind_target(self, tgt, val: AV, st: State, frame):
        if isinstance(tgt, ast.Name):
            self.kill_facts(st, tgt.id)
            st.env[tgt.id] = val
        elif isinstance(tgt, (ast.Tuple, ast.List)):
            n = len(tgt.elts)
            for i, sub in enumerate(tgt.elts):
                if isinstance(sub, ast.Starred):
                    self.bind_target(sub.value, AV(types=frozenset({"list"}), elem=_strip(elem_of(val))), st, frame)
                    continue
                if val.items is not None and len(val.items) == n:
                    it = val.items[i]
                    piece = replace(it, deps=it.deps | val.deps,
                                    alias=it.alias | frozenset(loc_ext(l, "[]") for l in val.alias))
                else:
                    piece = replace(elem_of(val), const=NOCONST)
                self.bind_target(sub, piece, st, frame)
        elif isinstance(tgt, ast.Attribute):
            base = self.eval(tgt.value, st, frame)
            self.write_attr(base, tgt.attr, val, tgt, st, frame)
        elif isinstance(tgt, ast.Subscript):
            base = self.eval(tgt.value, st, frame)
            idx = self.eval(tgt.slice, st, frame) if not isinstance(tgt.slice, ast.Slice) else TOP
            r = self.try_dunder(base, "__setitem__", [idx, val], tgt, st, frame)
            self.write_subscript(base, idx, val, tgt, st, frame)
        elif isinstance(tgt, ast.Starred):
            self.bind_target(tgt.value, val, st, frame)
        else:
            self.unresolved(frame, st, tgt, "assignment target %s" % type(tgt).__name__)

    def write_attr(self, base: AV, attr, val: AV, node, st, frame):
        # property setter?
        if base.types is not None:
            for ty in sorted(base.types):
                if ty in self.prog.classes:
                    sfi = self.prog.find_setter(ty, attr)
                    if sfi is not None:
                        self.call_function(sfi, replace(base, types=frozenset({ty})), [val], {}, node, st, frame,
                                           via="setter")
                        return
        locs = frozenset(loc_ext(l, attr) for l in base.alias)
        val = val.with_deps(st.ctrl)
        self.ev(frame, st, "write", node, recv=base, attr=attr, value=val, target=locs, wkind="attr")
        if locs:
            frame.mutations.append((locs, val, "setattr"))
            apply_mutation(st, locs, val, "setattr")
        if len(base.alias) == 1:
            st.env["@" + repr(next(iter(base.alias))) + "." + attr] = val
        else:
            for l in base.alias:
                k = "@" + repr(l) + "." + attr
                if k in st.env:
                    st.env[k] = join(st.env[k], val)
        self.record_field_write(base, attr, val, frame)

    def write_subscript(self, base: AV, idx: AV, val: AV, node, st, frame, wkind="subscript"):
        locs = frozenset(base.alias)
        if not self.field_table_ready:
            self.record_field_elem(locs, val, "add", frame, key=idx)
        val2 = val.with_deps(st.ctrl | all_deps(idx))
        self.ev(frame, st, "write", node, recv=base, args=(idx,), value=val2, target=locs, wkind=wkind)
        if locs:
            frame.mutations.append((locs, val2, "add"))
            apply_mutation(st, locs, val2, "add")
        if base.only("dict") and idx is not None:
            self._add_key(st, locs, idx)

    def _add_key(self, st, locs, keyav):
        for name, v in list(st.env.items()):
            if v is not None and v.alias & locs and v.only("dict"):
                st.env[name] = replace(v, key=_strip(join(v.key, keyav)))

    # ----------------------------------------------------------------- facts
    def kill_facts(self, st: State, name: str):
        if not st.facts:
            return
        keep = frozenset(f for f in st.facts if name not in f[2])
        if len(keep) != len(st.facts):
            st.facts = keep

    def cond_facts(self, test):
        """(facts when true, facts when false); a fact is (source, polarity, names)."""
        def names(e):
            return frozenset(x.id for x in ast.walk(e) if isinstance(x, ast.Name))

        def fact(e, pol):
            try:
                return (ast.unparse(e), pol, names(e))
            except Exception:  # pragma: no cover
                return None

        tf, ff = set(), set()
        if isinstance(test, ast.UnaryOp) and isinstance(test.op, ast.Not):
            a, b = self.cond_facts(test.operand)
            return b, a
        if isinstance(test, ast.BoolOp) and isinstance(test.op, ast.And):
            for v in test.values:
                a, _ = self.cond_facts(v)
                tf |= a
            ff.add(fact(test, False))
            return frozenset(tf), frozenset(x for x in ff if x)
        if isinstance(test, ast.BoolOp) and isinstance(test.op, ast.Or):
            for v in test.values:
                _, b = self.cond_facts(v)
                ff |= b
            tf.add(fact(test, True))
            return frozenset(x for x in tf if x), frozenset(ff)
        tf.add(fact(test, True))
        ff.add(fact(test, False))
        return frozenset(x for x in tf if x), frozenset(x for x in ff if x)

    def narrow(self, test, polarity: bool, st: State, frame):
        """Refine variable types along a branch."""
        if isinstance(test, ast.UnaryOp) and isinstance(test.op, ast.Not):
            return self.narrow(test.operand, not polarity, st, frame)
        if isinstance(test, ast.BoolOp):
            if (isinstance(test.op, ast.And) and polarity) or (isinstance(test.op, ast.Or) and not polarity):
                for v in test.values:
                    self.narrow(v, polarity, st, frame)
            return
        if isinstance(test, ast.Call) and isinstance(test.func, ast.Attribute) and test.func.attr == "is_deterministic" \
                and isinstance(test.func.value, ast.Name) and not test.args:
            # typestate DET: on the true edge of x.is_deterministic() (false edge of `not ...`) x is structurally
            # deterministic
            var = test.func.value.id
            cur = st.env.get(var)
            if cur is not None and polarity:
                st.env[var] = cur.with_quals({"DET"})
            return
        if isinstance(test, ast.Call) and isinstance(test.func, ast.Name) and test.func.id == "isinstance" \
                and len(test.args) == 2 and isinstance(test.args[0], ast.Name):
            var = test.args[0].id
            cur = st.env.get(var)
            if cur is None:
                return
            names = self.isinstance_types(test.args[1], st, frame)
            if names is None:
                return
            if polarity:
                if cur.types is None:
                    new = frozenset(names)
                else:
                    new = frozenset(x for x in cur.types if x in names)
                st.env[var] = replace(cur, types=new, const=cur.const)
            else:
                if cur.types is not None:
                    st.env[var] = replace(cur, types=frozenset(x for x in cur.types if x not in names))
            return
        if isinstance(test, ast.Compare) and len(test.ops) == 1 and isinstance(test.left, ast.Name) \
                and isinstance(test.comparators[0], ast.Constant) and test.comparators[0].value is None:
            var = test.left.id
            cur = st.env.get(var)
            if cur is None:
                return
            isnone = isinstance(test.ops[0], ast.Is)
            if cur.types is None:
                if isinstance(test.ops[0], (ast.Is, ast.IsNot)) and isnone == polarity:
                    st.env[var] = AV(types=frozenset({"None"}), const=None, deps=cur.deps)
                return
            if isinstance(test.ops[0], (ast.Is, ast.IsNot)):
                if isnone == polarity:
                    st.env[var] = replace(cur, types=cur.types & {"None"}, const=None if "None" in cur.types else cur.const)
                else:
                    st.env[var] = replace(cur, types=cur.types - {"None"},
                                          const=NOCONST if cur.const is None else cur.const)
            return
        if isinstance(test, ast.Name) and polarity:
            cur0 = st.env.get(test.id)
            if cur0 is not None:
                for q in cur0.quals:
                    if isinstance(q, tuple) and q[0] == "DET_TEST_OF" and q[1] in st.env and st.env[q[1]] is not None:
                        st.env[q[1]] = st.env[q[1]].with_quals({"DET"})
            cur = st.env.get(test.id)
            if cur is not None and cur.types is not None and "None" in cur.types and len(cur.types) > 1:
                st.env[test.id] = replace(cur, types=cur.types - {"None"})

    def isinstance_types(self, node, st, frame):
        nodes = node.elts if isinstance(node, ast.Tuple) else [node]
        out = set()
        for nd in nodes:
            v = self.eval(nd, st, frame)
            if v.fn is not None and v.fn[0] == "class":
                subs = set(self.prog.subclasses(v.fn[1]))
                conc = subs - self.abstract_classes()
                out |= (conc or subs)
            elif v.fn is not None and v.fn[0] == "builtin" and v.fn[1] in ("str", "int", "list", "set", "dict",
                                                                             "tuple", "float", "bool", "frozenset"):
                out.add(v.fn[1])
                if v.fn[1] == "int":
                    out.add("bool")
            else:
                return None
        return out

    # ------------------------------------------------------ builtin methods
    def _is_builtin_method_name(self, name):
        return name in BUILTIN_METHOD_NAMES

    def call_cha(self, recv: AV, name, args, kwargs, n, st, frame) -> AV:
        """Method call on a receiver of unknown type."""
        owners = self.attr_owners(name, "method")
        if name in BUILTIN_METHOD_NAMES:
            # colliding name: generic container semantics (both the builtin and the repo methods of these names
            # mutate / read their receiver the same way)
            e = self.ev(frame, st, "call", n, callee="?." + name, recv=recv, args=tuple(args), note="ambiguous-receiver")
            e.result = self.call_builtin_method(recv, name, args, kwargs, n, st, frame, generic=True)
            return e.result
        if not owners or len(owners) > 6:
            self.unresolved(frame, st, n, "method %s on unknown receiver (%d candidates)" % (name, len(owners)))
            deps = recv.deps.union(*[a.deps for a in args]) if args else recv.deps
            return AV(types=None, deps=deps)
        owners = [fi for fi in owners if _arity_ok(fi, len(args), kwargs)]
        # of several classes that have a method of this name, those whose annotated parameters cannot take the arguments
        # at hand are not the receiver (`x.subsumes(state)` is State.subsumes, not FeatureStructure.subsumes)
        if len(owners) > 1:
            def _fits(fi):
                ps = [p for p in (fi.node.args.posonlyargs + fi.node.args.args)][1:]
                for p_, a in zip(ps, args):
                    if p_.annotation is None or a.types is None or not a.types:
                        continue
                    want = self.annotation_av(fi, p_.annotation).types
                    if want is None or not want:
                        continue
                    repo_w = {w for w in want if w in self.prog.classes}
                    repo_a = {x for x in a.types if x in self.prog.classes}
                    if repo_w and repo_a and not any(w in self.prog.classes[x].mro for x in repo_a for w in repo_w):
                        return False
                return True
            fitting = [fi for fi in owners if _fits(fi)]
            if fitting:
                owners = fitting
        outs = []
        for fi in owners:
            outs.append(self.call_function(fi, replace(recv, types=frozenset({fi.cls.qname})), list(args), dict(kwargs),
                                           n, st, frame, via="cha"))
        return join_all(outs)

    def mutate(self, recv: AV, added, how, n, st, frame, name):
        locs = frozenset(recv.alias)
        if added is not None and how in ("add", "update") and not self.field_table_ready:
            self.record_field_elem(locs, added, how, frame)
        if added is not None:
            added = added.with_deps(st.ctrl)
            # `cells[k].append(v)` / `cells.setdefault(k, []).append(v)`: the cell that receives v is selected by k, so what
            # ends up in a given cell depends on k
            rnode = getattr(getattr(n, "func", None), "value", None)
            sel = getattr(frame, "sel_deps", None)
            if sel and isinstance(rnode, ast.Subscript) and id(rnode) in sel:
                added = added.with_deps(sel[id(rnode)])
        self.ev(frame, st, "write", n, recv=recv, value=added, target=locs, wkind="mutate:" + name)
        if locs:
            frame.mutations.append((locs, added, how))
            apply_mutation(st, locs, added, how)

    def call_builtin_method(self, recv: AV, name, args, kwargs, n, st, frame, generic=False) -> AV:
        e = None
        if not generic:
            e = self.ev(frame, st, "bcall", n, callee=name, recv=recv, args=tuple(args))
        r = self._call_builtin_method(recv, name, args, kwargs, n, st, frame, generic)
        if e is not None:
            e.result = r
        return r

    def _call_builtin_method(self, recv: AV, name, args, kwargs, n, st, frame, generic=False) -> AV:
        if recv.fn is not None and recv.fn[0] == "builtin" and recv.fn[1] in ("str", "list", "set", "dict", "tuple") and args:
            # unbound use of a builtin type's method (`map(str.strip, lines)`, `str.join(sep, parts)`): the first argument
            # is the receiver
            a_recv = args[0]
            if recv.fn[1] == "str" and not a_recv.only("str"):
                a_recv = replace(a_recv, types=frozenset({"str"}))
            return self._call_builtin_method(a_recv, name, list(args[1:]), kwargs, n, st, frame, generic)
        deps = recv.deps.union(*[a.deps for a in args]) if args else recv.deps
        fresh = frozenset({self.fresh_loc(frame, n)})
        is_str = recv.only("str")
        if is_str:
            if name in STR_METHODS_TO_STR:
                return AV(types=frozenset({"str"}), deps=deps)
            if name in STR_METHODS_TO_BOOL:
                return AV(types=frozenset({"bool"}), deps=deps)
            if name in ("split", "splitlines", "rsplit"):
                return AV(types=frozenset({"list"}), alias=fresh, elem=AV(types=frozenset({"str"}), deps=deps), deps=deps)
            if name in ("find", "index", "count"):
                if name == "index":
                    self._index_may_raise(n, args, st, frame)
                return AV(types=frozenset({"int"}), deps=deps)
            if name == "partition":
                s = AV(types=frozenset({"str"}), deps=deps)
                return AV(types=frozenset({"tuple"}), items=(s, s, s), deps=deps)
            if name == "encode":
                return AV(types=frozenset({"bytes"}), deps=deps)
        how = MUTATORS.get(name)
        e = elem_of(recv)
        if how is not None and not is_str:
            added = None
            if how == "add":
                added = args[-1] if args else None
            elif how == "update":
                added = args[0] if args else None
            elif how == "setdefault":
                added = args[1] if len(args) > 1 else t("None")
                how = "add"
                if args:
                    self._add_key(st, frozenset(recv.alias), args[0])
            self.mutate(recv, added, how, n, st, frame, name)
            if name in ("pop", "popleft", "get_nowait", "popitem"):
                if recv.only("dict") and len(args) > 1:
                    return replace(join(e, args[1]), deps=deps | e.deps, const=NOCONST)
                return replace(e, deps=deps | e.deps, const=NOCONST)
            if name == "setdefault":
                d = args[1] if len(args) > 1 else t("None")
                alias = frozenset(loc_ext(l, "[]") for l in recv.alias) | d.alias | e.alias
                out = join(e, d)
                return replace(out, alias=alias, deps=out.deps | deps, const=NOCONST)
            return t("None", const=None)
        if name == "get":
            if recv.only("queue"):
                self.mutate(recv, None, "del", n, st, frame, name)
                return replace(e, deps=deps | e.deps, const=NOCONST)
            d = args[1] if len(args) > 1 else t("None", const=None)
            out = join(e, d)
            return replace(out, deps=out.deps | deps, const=NOCONST)
        if name == "copy":
            return replace(recv, alias=fresh, deps=deps, const=NOCONST).with_quals(
                {("SHALLOW_COPY_OF", l) for l in recv.alias})
        if name == "union":
            out_elem = e
            quals = recv.quals
            for a in args:
                out_elem = join(out_elem, elem_of(a))
                quals = _union_quals(AV(quals=quals), a)
            ty = recv.types if recv.types is not None else frozenset({"set"})
            return AV(types=ty, alias=fresh, elem=_strip(out_elem), deps=deps, quals=quals)
        if name in ("intersection", "difference", "symmetric_difference"):
            ty = recv.types if recv.types is not None else frozenset({"set"})
            return AV(types=ty, alias=fresh, elem=_strip(e), deps=deps)
        if name in ("issubset", "issuperset", "isdisjoint", "empty"):
            return AV(types=frozenset({"bool"}), deps=deps)
        if name == "items":
            k = recv.key if recv.key is not None else TOP
            v = recv.elem if recv.elem is not None else TOP
            v = replace(v, alias=v.alias | frozenset(loc_ext(l, "[]") for l in recv.alias))
            pair = AV(types=frozenset({"tuple"}), items=(k, v), deps=recv.deps)
            return AV(types=frozenset({"dict_items"}), elem=pair, deps=deps, alias=fresh)
        if name == "keys":
            return AV(types=frozenset({"dict_keys"}), elem=recv.key if recv.key is not None else TOP, deps=deps, alias=fresh)
        if name == "values":
            v = recv.elem if recv.elem is not None else TOP
            v = replace(v, alias=v.alias | frozenset(loc_ext(l, "[]") for l in recv.alias))
            return AV(types=frozenset({"dict_values"}), elem=v, deps=deps, alias=fresh)
        if name in ("index", "count"):
            if name == "index":
                self._index_may_raise(n, args, st, frame)
            return AV(types=frozenset({"int"}), deps=deps)
        if name == "__iter__":
            return AV(types=frozenset({"iterator"}), elem=_strip(e), deps=deps, alias=fresh)
        if name == "__hash__":
            return AV(types=frozenset({"int"}), deps=deps)
        if name == "join":
            return AV(types=frozenset({"str"}), deps=deps)
        if recv.types is not None and recv.types & {"ext", "extobj"}:
            # method of an external object (networkx graph, compiled pattern ...): may update its receiver - except the
            # documented read-only views / queries of networkx graphs and of re patterns
            if name in EXT_READ_ONLY:
                return AV(types=frozenset({"extobj"}), deps=deps | all_deps(recv), alias=fresh)
            self.mutate(recv, join_all(args) if args else None, "add", n, st, frame, "ext:" + name)
            return AV(types=frozenset({"extobj"}), deps=deps, alias=fresh)
        if recv.is_top() and name in STR_METHODS_TO_STR | STR_METHODS_TO_BOOL | {"split", "splitlines", "find"}:
            return self.call_builtin_method(replace(recv, types=frozenset({"str"})), name, args, kwargs, n, st, frame,
                                            generic=True)
        self.unresolved(frame, st, n, "builtin method %s on %s" % (name, recv.short()))
        return AV(types=None, deps=deps)

    # ------------------------------------------------------ builtin functions
    def call_builtin(self, name, args, kwargs, n, st, frame) -> AV:
        deps = frozenset().union(*[a.deps for a in args]) if args else frozenset()
        for v in kwargs.values():
            deps |= v.deps
        fresh = frozenset({self.fresh_loc(frame, n)})
        a0 = args[0] if args else None
        self.ev(frame, st, "bcall", n, callee=name, args=tuple(args))
        if name == "isinstance":
            const = NOCONST
            if a0 is not None and a0.types is not None and isinstance(n, ast.Call) and len(n.args) == 2:
                names = self.isinstance_types(n.args[1], st, frame)
                if names is not None and a0.types:
                    if a0.types <= names:
                        const = True
                    elif not (a0.types & names):
                        const = False
            return AV(types=frozenset({"bool"}), deps=deps, const=const)
        if name == "len":
            r = self.try_dunder(a0, "__len__", [], n, st, frame) if a0 is not None else None
            if r is not None:
                return replace(r, types=frozenset({"int"}))
            const = NOCONST
            if a0 is not None and a0.has_const() and isinstance(a0.const, (str, tuple, list)):
                const = len(a0.const)
            elif a0 is not None and a0.items is not None and a0.only("tuple"):
                const = len(a0.items)
            return AV(types=frozenset({"int"}), deps=deps, const=const)
        if name in ("str", "repr"):
            if a0 is None:
                return t("str", const="")
            r = self.str_of(a0, n, st, frame)
            if a0.has_const() and isinstance(a0.const, (str, int)):
                r = replace(r, const=str(a0.const))
            return r
        if name in ("int", "ord", "hash", "id", "abs"):
            if name == "hash" and a0 is not None:
                r = self.try_dunder(a0, "__hash__", [], n, st, frame)
            return AV(types=frozenset({"int"}), deps=deps)
        if name == "float":
            return AV(types=frozenset({"float"}), deps=deps)
        if name == "chr":
            return AV(types=frozenset({"str"}), deps=deps)
        if name == "bool":
            if a0 is not None:
                self.try_dunder(a0, "__bool__", [], n, st, frame)
            return AV(types=frozenset({"bool"}), deps=deps)
        if name in ("list", "set", "tuple", "frozenset", "sorted", "reversed"):
            kind = {"sorted": "list", "reversed": "iterator"}.get(name, name)
            if a0 is None:
                return AV(types=frozenset({kind}), alias=fresh, quals=frozenset({EMPTYQ}),
                          const=(() if kind == "tuple" else NOCONST))
            e = self.iterate(a0, n, st, frame)
            for kv in kwargs.values():
                if kv.fn is not None:
                    self.call_value(kv, [e], {}, n, st, frame)
            quals = a0.quals if kind in ("set", "frozenset", "list") else frozenset()
            quals = frozenset(q for q in quals if q != EMPTYQ or True)
            out = AV(types=frozenset({kind}), alias=fresh, elem=_strip(e), deps=deps, quals=quals)
            if name in ("list", "set", "tuple", "frozenset"):
                out = out.with_quals({("SHALLOW_COPY_OF", l) for l in a0.alias})
            if name in ("list", "sorted", "tuple", "reversed"):
                out = out.with_quals({("PERM_OF", l) for l in a0.alias} | {q for q in a0.quals if isinstance(q, tuple) and q[0] == "PERM_OF"})
            if name == "tuple" and a0.items is not None:
                out = replace(out, items=a0.items)
            return out
        if name == "dict":
            if a0 is None:
                return AV(types=frozenset({"dict"}), alias=fresh, quals=frozenset({EMPTYQ}))
            if a0.only("dict"):
                return replace(a0, alias=fresh, const=NOCONST).with_quals({("SHALLOW_COPY_OF", l) for l in a0.alias})
            e = self.iterate(a0, n, st, frame)
            k = e.items[0] if e.items and len(e.items) == 2 else TOP
            v = e.items[1] if e.items and len(e.items) == 2 else TOP
            return AV(types=frozenset({"dict"}), alias=fresh, key=_strip(k), elem=_strip(v), deps=deps)
        if name == "dict.fromkeys":
            e = self.iterate(a0, n, st, frame) if a0 is not None else TOP
            v = args[1] if len(args) > 1 else t("None", const=None)
            return AV(types=frozenset({"dict"}), alias=fresh, key=_strip(e), elem=_strip(v), deps=deps)
        if name == "enumerate":
            e = self.iterate(a0, n, st, frame) if a0 is not None else TOP
            pair = AV(types=frozenset({"tuple"}), items=(AV(types=frozenset({"int"})), e))
            return AV(types=frozenset({"iterator"}), elem=pair, deps=deps, alias=fresh)
        if name == "zip":
            es = [self.iterate(a, n, st, frame) for a in args]
            pair = AV(types=frozenset({"tuple"}), items=tuple(es))
            return AV(types=frozenset({"iterator"}), elem=pair, deps=deps, alias=fresh)
        if name == "range":
            const = NOCONST
            return AV(types=frozenset({"range"}), elem=AV(types=frozenset({"int"}), deps=deps), deps=deps)
        if name in ("any", "all"):
            e = self.iterate(a0, n, st, frame) if a0 is not None else TOP
            return AV(types=frozenset({"bool"}), deps=deps | e.deps)
        if name in ("sum", "min", "max"):
            e = self.iterate(a0, n, st, frame) if a0 is not None else TOP
            if name == "sum":
                return AV(types=frozenset({"int"}), deps=deps | e.deps)
            for kv in kwargs.values():
                if kv.fn is not None:
                    self.call_value(kv, [e], {}, n, st, frame)
            return replace(e, deps=deps | e.deps, const=NOCONST)
        if name == "map":
            e = self.iterate(args[1], n, st, frame) if len(args) > 1 else TOP
            r = self.call_value(a0, [e], {}, n, st, frame)
            return AV(types=frozenset({"iterator"}), elem=_strip(r), deps=deps, alias=fresh)
        if name == "filter":
            e = self.iterate(args[1], n, st, frame) if len(args) > 1 else TOP
            if a0 is not None and a0.fn is not None:
                self.call_value(a0, [e], {}, n, st, frame)
            return AV(types=frozenset({"iterator"}), elem=_strip(e), deps=deps, alias=fresh)
        if name == "iter":
            e = self.iterate(a0, n, st, frame)
            return AV(types=frozenset({"iterator"}), elem=_strip(e), deps=deps, alias=fresh)
        if name == "next":
            if a0 is not None:
                r = self.try_dunder(a0, "__next__", [], n, st, frame)
                if r is not None:
                    return r
                e = replace(elem_of(a0), const=NOCONST)
                if len(args) >= 2:
                    # next(it, default): the default comes back exactly when the iterator is exhausted - a choice that
                    # depends on everything the iterator (and its filters) was computed from
                    dflt = replace(args[1], const=NOCONST).with_deps(a0.deps | all_deps(a0.elem))
                    return join(e, dflt)
                self.ev(frame, st, "raise", n, exc=("StopIteration",), note="implicit:next")
                return e
            return TOP
        if name == "print":
            return t("None", const=None)
        if name == "type":
            return AV(types=frozenset({"classobj"}), deps=deps)
        if name in ("getattr", "hasattr", "callable", "issubclass"):
            if name == "getattr":
                # getattr(obj, "name"[, default]) with a constant name is the attribute access obj.name (joined with the
                # default, which is what comes back when the attribute is missing)
                if len(args) >= 2 and args[1].has_const() and isinstance(args[1].const, str):
                    mark = frame.n_unresolved
                    emark = len(frame.events)
                    got = self.get_attr(args[0], args[1].const, n, st, frame, call=True)
                    if len(args) >= 3 and frame.n_unresolved > mark:
                        # the attribute may be missing on some receiver class: that is what the default is for
                        frame.n_unresolved = mark
                        del frame.events[emark:]
                        return join(AV(types=None, deps=deps), args[2])
                    if len(args) >= 3 and args[2].has_const() and args[2].const is None and got.types is not None:
                        return replace(got, types=got.types | {"None"}, const=NOCONST)     # keeps the callable
                    return join(got, args[2]) if len(args) >= 3 else got
                self.unresolved(frame, st, n, "getattr")
                return AV(types=None, deps=deps)
            return AV(types=frozenset({"bool"}), deps=deps)
        if name == "object.__init__":
            return t("None", const=None)
        if name in ("NotImplementedError", "ValueError", "StopIteration", "Exception", "KeyError", "IndexError",
                    "TypeError", "RuntimeError", "AttributeError"):
            return AV(types=frozenset({"exc:" + name}), deps=deps)
        if name == "object":
            return AV(types=frozenset({"object"}), alias=fresh)
        self.unresolved(frame, st, n, "builtin %s" % name)
        return AV(types=None, deps=deps)

    # ------------------------------------------------------- external calls
    EXT_PURE = {
        "copy.deepcopy": "deepcopy", "copy.copy": "copy", "itertools.product": "product", "itertools.chain": "chain",
        "collections.deque": "deque", "json.dumps": "str", "json.loads": "top", "re.compile": "extobj",
        "re.sub": "str", "numpy.empty": "ndarray", "numpy.zeros": "ndarray", "queue.Queue": "queue",
        "random.shuffle": "shuffle", "unicodedata.lookup": "str", "abc.abstractmethod": "top",
    }

    def call_external(self, name, args, kwargs, n, st, frame) -> AV:
        deps = frozenset().union(*[a.deps for a in args]) if args else frozenset()
        for v in kwargs.values():
            deps |= v.deps
        fresh = frozenset({self.fresh_loc(frame, n)})
        a0 = args[0] if args else None
        self.ev(frame, st, "ecall", n, callee=name, args=tuple(args), kwargs=tuple(sorted(kwargs.items())))
        kind = self.EXT_PURE.get(name)
        if name in ("operator.methodcaller", "operator.attrgetter") and a0 is not None and a0.has_const() and \
                isinstance(a0.const, str) and (name.endswith("methodcaller") or len(args) == 1):
            return AV(types=frozenset({"function"}), fn=(name.split(".")[1], a0.const, tuple(args[1:])), deps=deps)
        if name.startswith("operator.") and a0 is not None:
            # operator.or_(a, b) is a | b: dispatch to the dunder of the left operand
            dunder = {"or_": "__or__", "and_": "__and__", "add": "__add__", "sub": "__sub__", "xor": "__xor__",
                      "invert": "__invert__", "neg": "__neg__", "inv": "__invert__", "concat": "__add__"}.get(name.split(".", 1)[1])
            if dunder is not None:
                r = self.try_dunder(a0, dunder, list(args[1:]), n, st, frame)
                if r is not None:
                    return r
        if name in ("heapq.heappush", "heapq.heappop", "heapq.heapify", "heapq.heappushpop", "heapq.heapreplace") and a0 is not None:
            # the heap is a plain list that these functions update in place
            if name in ("heapq.heappush", "heapq.heappushpop", "heapq.heapreplace") and len(args) > 1:
                self.mutate(a0, args[1], "add", n, st, frame, "append")
            if name == "heapq.heappush":
                return t("None", const=None)
            if name == "heapq.heapify":
                return t("None", const=None)
            self.mutate(a0, None, "del", n, st, frame, "pop")
            return replace(elem_of(a0), const=NOCONST)
        if kind in ("deepcopy", "copy"):
            return _refresh(a0, fresh, deep=(kind == "deepcopy")) if a0 is not None else TOP
        if kind == "product":
            es = [self.iterate(a, n, st, frame) for a in args]
            if es and "repeat" not in kwargs:
                # one component per argument, like nested for loops
                return AV(types=frozenset({"iterator"}), elem=AV(types=frozenset({"tuple"}), items=tuple(es)), deps=deps,
                          alias=fresh)
            e = join_all(es) if es else TOP
            return AV(types=frozenset({"iterator"}), elem=AV(types=frozenset({"tuple"}), elem=_strip(e)), deps=deps,
                      alias=fresh)
        if kind == "chain":
            es = [self.iterate(a, n, st, frame) for a in args]
            e = join_all(es) if es else None
            return AV(types=frozenset({"iterator"}), elem=_strip(e) if e is not None else None, deps=deps, alias=fresh)
        if kind == "deque":
            e = self.iterate(a0, n, st, frame) if a0 is not None else None
            return AV(types=frozenset({"deque"}), alias=fresh, elem=_strip(e) if e is not None else None, deps=deps,
                      quals=frozenset({EMPTYQ}) if a0 is None else frozenset())
        if kind == "queue":
            return AV(types=frozenset({"queue"}), alias=fresh, quals=frozenset({EMPTYQ}))
        if kind == "str":
            return AV(types=frozenset({"str"}), deps=deps)
        if kind == "ndarray":
            return AV(types=frozenset({"ndarray"}), alias=fresh, deps=deps)
        if kind == "shuffle":
            if a0 is not None:
                self.mutate(a0, None, "none", n, st, frame, "shuffle")
            return t("None", const=None)
        if kind == "top":
            return AV(types=None, deps=deps)
        if kind == "extobj":
            return AV(types=frozenset({"extobj"}), deps=deps, alias=fresh)
        top = name.split(".")[0]
        if top in ("networkx", "numpy", "re", "json", "string", "unicodedata", "random", "typing", "itertools",
                   "collections", "queue", "copy", "abc", "operator", "functools"):
            return AV(types=frozenset({"extobj"}), deps=deps, alias=fresh)
        self.unresolved(frame, st, n, "external call %s" % name)
        return AV(types=None, deps=deps)


def _allocates(summ) -> bool:
    """Does the summary expose objects allocated during the call (returned or stored into operands)?"""
    def fresh_in(av, depth=0):
        if av is None or depth > 3:
            return False
        if any(l[0].startswith("fresh:") for l in av.alias):
            return True
        if fresh_in(av.elem, depth + 1) or fresh_in(av.key, depth + 1):
            return True
        return any(fresh_in(i, depth + 1) for i in (av.items or ()))
    if fresh_in(summ.ret):
        return True
    for locs, added, how in summ.mutations:
        if fresh_in(added):
            return True
    return False


def _arity_ok(fi, nargs, kwargs) -> bool:
    a = fi.node.args
    params = [x.arg for x in a.posonlyargs + a.args]
    if fi.kind in ("method", "property", "class") and params:
        params = params[1:]
    required = len(params) - len(a.defaults)
    given = nargs + len(kwargs)
    if a.vararg is not None:
        return given >= required
    return required <= given <= len(params)


def _generalise_ret(ret: AV, deps) -> AV:
    """Result of a recursive call, from the previous round of the enclosing activation: keep the shape, forget
    identities (they are expressed in the outer activation's terms)."""
    return replace(ret, deps=ret.deps | deps, const=NOCONST)


def _same_shape(a: AV, b: AV) -> bool:
    return a.types == b.types and a.deps == b.deps and a.quals == b.quals and a.alias == b.alias


def _refresh(a: AV, fresh, deep=True) -> AV:
    """(Deep) copy: the result and - for a deep copy - everything inside it are new objects."""
    out = replace(a, alias=frozenset(fresh), const=a.const)
    if deep:
        root = next(iter(fresh))[0] if fresh else None
        inner = frozenset({(root, ("[]",))}) if root is not None else frozenset()
        if a.elem is not None:
            out = replace(out, elem=_refresh(a.elem, inner, True))
        if a.key is not None:
            out = replace(out, key=_refresh(a.key, inner, True))
        if a.items is not None:
            out = replace(out, items=tuple(_refresh(i, inner, True) for i in a.items))
    return out


def _dedupe_mut(muts):
    seen = set()
    out = []
    for m in muts:
        k = (m[0], m[1], m[2])
        try:
            if k in seen:
                continue
            seen.add(k)
        except TypeError:
            pass
        out.append(m)
    return out


def _own_nodes(fn_node):
    """nodes of a function body, not descending into functions / lambdas / classes nested in it"""
    todo = list(fn_node.body)
    while todo:
        x = todo.pop()
        yield x
        for ch in ast.iter_child_nodes(x):
            if not isinstance(ch, (ast.FunctionDef, ast.AsyncFunctionDef, ast.Lambda, ast.ClassDef)):
                todo.append(ch)
