"""The abstract interpreter: statements, loops to fixpoint, entry-point driver,
field table (L2), call graph facts (L3).  See DESIGN.md section 2."""
from __future__ import annotations

import ast
import sys
from collections import defaultdict
from dataclasses import replace

from .av import (AV, BOTTOM, TOP, NOCONST, EMPTYQ, t, join, join_all, elem_of, loc_ext)
from .index import Program, ClassInfo, FuncInfo, AnalysisError
from .state import State, Frame, Summary, Event, join_states, apply_mutation
from .interp_expr import ExprMixin, const_av, _strip
from .interp_call import CallMixin

sys.setrecursionlimit(20000)

MAX_LOOP_ITER = 12


class Interp(ExprMixin, CallMixin):

    def __init__(self, prog: Program, model_hooks=None):
        self.prog = prog
        self.memo = {}
        self.in_progress = {}
        self.recursive_keys = set()
        self.active = {}
        self.approx_used = []
        self.stats = defaultdict(int)
        self.model_hooks = model_hooks or {}
        self._constdef_cache = {}
        self.field_table = {}            # (cls_q, field) -> AV
        self.field_writes = defaultdict(list)   # (cls_q, field) -> [AV]
        self.field_table_ready = False
        self._attr_index = None
        self._entry_cache = {}
        self._abstract = None
        self.tagged_sites = {}
        self._lambda_active = {}

    # ------------------------------------------------------------ attr index
    def _build_attr_index(self):
        idx = defaultdict(lambda: defaultdict(list))
        for ci in self.prog.classes.values():
            for name, fi in ci.methods.items():
                idx[name]["property" if fi.kind == "property" else "method"].append(fi)
        # fields: every `self.x = ...` in any method
        for ci in self.prog.classes.values():
            for fi in ci.methods.values():
                for sub in ast.walk(fi.node):
                    if isinstance(sub, ast.Attribute) and isinstance(sub.ctx, ast.Store) and \
                            isinstance(sub.value, ast.Name) and sub.value.id == "self":
                        idx[sub.attr]["field"].append(ci)
            slots = ci.class_attrs.get("__slots__")
            if isinstance(slots, (ast.List, ast.Tuple)):
                for e in slots.elts:
                    if isinstance(e, ast.Constant):
                        idx[e.value]["field"].append(ci)
        self._attr_index = idx

    def attr_kinds(self, attr):
        if self._attr_index is None:
            self._build_attr_index()
        return set(self._attr_index.get(attr, {}).keys())

    def attr_owners(self, attr, kind):
        if self._attr_index is None:
            self._build_attr_index()
        return list(self._attr_index.get(attr, {}).get(kind, []))

    def class_fields(self, cls_q):
        """Names of instance fields assigned anywhere in the hierarchy of cls_q."""
        if self._attr_index is None:
            self._build_attr_index()
        out = set()
        mro = set(self.prog.classes[cls_q].mro)
        for name, kinds in self._attr_index.items():
            for ci in kinds.get("field", []):
                if ci.qname in mro:
                    out.add(name)
        return out

    # ------------------------------------------------------------ field table
    def record_field_write(self, base: AV, attr, val: AV, frame):
        if base.types is None:
            return
        for ty in base.types:
            if ty in self.prog.classes:
                self.field_writes[(ty, attr)].append(val)

    def field_table_get(self, cls_q, attr):
        v = self.field_table.get((cls_q, attr))
        if v is not None:
            return v
        return None

    def build_field_table(self):
        """Two rounds over every function that assigns an attribute: round one
        with unknown fields, round two with the types found in round one.  For a
        concrete class the value left by its own __init__ (strong, in statement
        order, through super().__init__) takes precedence over inherited
        assignments; assignments outside constructors are joined in."""
        targets = []
        for ci in self.prog.classes.values():
            for q in ci.mro:
                pass
            init = self.prog.find_method(ci.qname, "__init__")
            if init is not None:
                targets.append((ci, init))
        writers = []
        for fi in self.prog.functions.values():
            if fi.name == "__init__" or isinstance(fi.node, ast.Lambda):
                continue
            if any(isinstance(s, ast.Attribute) and isinstance(s.ctx, ast.Store) for s in ast.walk(fi.node)) or \
                    _mutates_self_field(fi.node):
                writers.append(fi)
        for rnd in range(3):
            self.memo.clear()
            self.field_writes.clear()
            init_out = {}
            for ci, init in targets:
                self_av = AV(types=frozenset({ci.qname}), alias=frozenset({("self", ())}))
                summ = self.run_entry(init, ci.qname, cache=False)
                init_out[ci.qname] = summ.self_out
            for fi in writers:
                if fi.cls is not None:
                    for sub in self.prog.subclasses(fi.cls.qname):
                        if self.prog.find_method(sub, fi.name) is fi:
                            self.run_entry(fi, sub, cache=False)
                else:
                    self.run_entry(fi, None, cache=False)
            table = {}
            for cq, out in init_out.items():
                for f, (val, strong) in out.items():
                    table[(cq, f)] = _generalise(val)
            for (cq, f), vals in self.field_writes.items():
                # writes recorded while analysing __init__ of cq itself are already in init_out (strong);
                # other writes are weak
                pass
            non_init = defaultdict(list)
            for key, vals in self._non_init_writes.items():
                non_init[key].extend(vals)
            for (cq, f), vals in non_init.items():
                # writers are analysed once per concrete receiver class: the write belongs to exactly that class
                cur = table.get((cq, f))
                table[(cq, f)] = join(cur, _generalise(join_all(vals)))
            for (cq, f), vals in self._elem_writes.items():
                cur = table.get((cq, f))
                if cur is None:
                    continue
                el = cur.elem
                ky = cur.key
                for v, k in vals:
                    el = join(el, _generalise(v))
                    if k is not None:
                        ky = join(ky, _generalise(k))
                table[(cq, f)] = replace(cur, elem=el, key=ky)
            self.field_table = table
            self._non_init_writes.clear()
            self._elem_writes.clear()
        self.field_table_ready = True
        self.memo.clear()
        self._entry_cache.clear()

    _non_init_writes = defaultdict(list)

    def record_field_write(self, base: AV, attr, val: AV, frame):  # noqa: F811
        if base.types is None or frame.func is None:
            return
        in_init = frame.func.name == "__init__"
        # a private helper analysed on its own stores what it is handed (`regex.head = head`): the value is unknown here,
        # but every caller is analysed with the helper inlined and records what it really passes - an unknown value taken
        # straight from a parameter of a private function therefore says nothing about the field
        fname = frame.func.name
        if fname.startswith("_") and not (fname.startswith("__") and fname.endswith("__")) and val.types is None and \
                val.alias and all(l[0].startswith("p:") for l in val.alias) and frame.depth == 0:
            return
        for ty in base.types:
            if ty in self.prog.classes:
                if not (in_init and frame.self_av is not None and base.alias == frame.self_av.alias):
                    self._non_init_writes[(ty, attr)].append(val)

    _elem_writes = defaultdict(list)

    def record_field_elem(self, locs, added: AV, how, frame, key=None):
        """While the field table is being built: an element put into a container stored directly in a field of the
        entry receiver (self.<f>.add(x), self.<f>[k] = v) contributes to that field's element abstraction."""
        cls_q = self._entry_recv_cls
        if cls_q is None:
            return
        for l in locs:
            if l[0] == "self" and len(l[1]) == 1:
                el = added
                if how == "update":
                    from .av import elem_of
                    el = elem_of(added)
                self._elem_writes[(cls_q, l[1][0])].append((el, key))

    _entry_recv_cls = None

    # ----------------------------------------------------------- entry points
    def param_av(self, fi: FuncInfo, p: ast.arg) -> AV:
        alias = frozenset({("p:" + p.arg, ())})
        ann = p.annotation
        base = self.annotation_av(fi, ann) if ann is not None else TOP
        over = self.param_overrides.get((fi.qname, p.arg))
        if over is not None:
            base = over
        if base.types is None and ann is None:
            base = self.delegation_type(fi, p.arg, set())
        return replace(base, alias=alias, deps=frozenset(alias))

    def delegation_type(self, fi: FuncInfo, pname: str, seen) -> AV:
        """Type of an unannotated parameter that the function only forwards: `return self.m(other)` takes the
        annotation of m's parameter (operator forms: __and__ -> get_intersection(other: "EpsilonNFA"))."""
        if (fi.qname, pname) in seen or fi.cls is None:
            return TOP
        seen.add((fi.qname, pname))
        found = None
        for sub in ast.walk(fi.node):
            if not (isinstance(sub, ast.Call) and isinstance(sub.func, ast.Attribute)
                    and isinstance(sub.func.value, ast.Name) and sub.func.value.id == "self"):
                continue
            target = self.prog.find_method(fi.cls.qname, sub.func.attr)
            if target is None or target.kind != "method":
                continue
            tparams = target.node.args.args[1:]
            for i, a in enumerate(sub.args):
                if isinstance(a, ast.Name) and a.id == pname and i < len(tparams):
                    tp = tparams[i]
                    if tp.annotation is not None:
                        cand = self.annotation_av(target, tp.annotation)
                    else:
                        cand = self.delegation_type(target, tp.arg, seen)
                    over = self.param_overrides.get((target.qname, tp.arg))
                    if over is not None:
                        cand = over
                    if cand.types is not None:
                        found = cand if found is None else join(found, cand)
        return found if found is not None else TOP

    param_overrides = {}

    def annotation_av(self, fi: FuncInfo, ann) -> AV:
        mod = self.prog.modules[fi.module]
        if isinstance(ann, ast.Constant) and isinstance(ann.value, str):
            try:
                ann2 = ast.parse(ann.value, mode="eval").body
            except SyntaxError:
                return TOP
            ent = self.prog.resolve_expr(mod, ann)
            if isinstance(ent, ClassInfo):
                return AV(types=self.concrete_subclasses(ent.qname))
            return self.annotation_av(fi, ann2)
        if isinstance(ann, ast.Name):
            if ann.id in ("str", "int", "bool", "float"):
                return t(ann.id)
            if ann.id in ("list", "set", "dict", "tuple"):
                return t(ann.id)
            if ann.id == "Any":
                return TOP
        if isinstance(ann, (ast.Name, ast.Attribute)):
            ent = self.prog.resolve_expr(mod, ann)
            if isinstance(ent, ClassInfo):
                return AV(types=self.concrete_subclasses(ent.qname))
            return TOP
        if isinstance(ann, ast.Subscript) and isinstance(ann.value, ast.Name):
            head = ann.value.id
            inner = ann.slice
            kinds = {"List": "list", "Set": "set", "AbstractSet": None, "Dict": "dict", "Tuple": "tuple",
                     "Iterable": None, "Optional": "opt", "Union": None}
            k = kinds.get(head)
            if k == "opt":
                a = self.annotation_av(fi, inner)
                return a if a.types is None else replace(a, types=a.types | {"None"})
            if k in ("list", "set"):
                return AV(types=frozenset({k}), elem=self.annotation_av(fi, inner))
            if k == "dict":
                # value annotations of dictionaries are not trusted (RuleOrdering's `Dict[Any, ConsumptionRule]`
                # really holds lists of rules)
                return AV(types=frozenset({"dict"}))
            if k == "tuple":
                return AV(types=frozenset({"tuple"}))
        return TOP

    def abstract_classes(self):
        if self._abstract is None:
            from .model import abstract_classes
            self._abstract = abstract_classes(self.prog)
        return self._abstract

    def concrete_subclasses(self, q):
        subs = set(self.prog.subclasses(q))
        return frozenset((subs - self.abstract_classes()) or subs)

    def entry_self(self, cls_q) -> AV:
        return AV(types=frozenset({cls_q}), alias=frozenset({("self", ())}), deps=frozenset({("self", ())}))

    def run_entry(self, fi: FuncInfo, recv_cls=None, cache=True, args=None) -> Summary:
        """Analyse `fi` as an entry point: self is exactly `recv_cls`, the other
        parameters come from annotations (unknown = TOP) and are rooted at
        ``p:<name>``."""
        key = (fi.qname, fi.kind, recv_cls)
        if cache and args is None and key in self._entry_cache:
            return self._entry_cache[key]
        recv = None
        self._entry_recv_cls = (recv_cls or (fi.cls.qname if fi.cls is not None else None)) \
            if fi.kind in ("method", "property", "setter") else None
        if fi.kind in ("method", "property", "setter"):
            recv = self.entry_self(recv_cls or fi.cls.qname)
        elif fi.kind == "class":
            recv = AV(types=frozenset({"classobj"}), fn=("class", recv_cls or fi.cls.qname))
        self.active.clear()
        self.approx_used = []
        akey = (fi.qname, fi.kind, recv_cls)
        used = set()
        prev_ret = None
        summ = None
        self.active[akey] = None
        self.approx_used.append(used)
        try:
            for _round in range(4):
                used.discard(akey)
                summ = self.run_function(fi, recv, recv_cls, tuple(args or ()), {}, None, None, entry=True)
                if akey not in used:
                    break
                if prev_ret is not None and summ.ret == prev_ret:
                    break
                prev_ret = summ.ret
                self.active[akey] = summ
        finally:
            self.approx_used.pop()
            self.active.pop(akey, None)
        if cache and args is None:
            self._entry_cache[key] = summ
        return summ

    # -------------------------------------------------------------- statements
    def exec_block(self, stmts, st: State, frame) -> State:
        for s in stmts:
            if not st.reachable:
                break
            st = self.exec_stmt(s, st, frame)
        return st

    def exec_stmt(self, s, st: State, frame) -> State:
        m = getattr(self, "s_" + type(s).__name__, None)
        if m is None:
            self.unresolved(frame, st, s, "statement kind %s" % type(s).__name__)
            return st
        return m(s, st, frame)

    def s_Expr(self, s, st, frame):
        self.eval(s.value, st, frame)
        return st

    def s_Pass(self, s, st, frame):
        return st

    def s_Global(self, s, st, frame):
        return st

    s_Nonlocal = s_Global

    def s_Import(self, s, st, frame):
        frame.local_imports.update(self.prog.import_bindings(frame.module, s))
        return st

    s_ImportFrom = s_Import

    def s_FunctionDef(self, s, st, frame):
        from .interp_expr import _EnvRef
        st.env[s.name] = AV(types=frozenset({"function"}), fn=("lambda", s, frame, _EnvRef(st.env)))
        return st

    def s_ClassDef(self, s, st, frame):
        self.unresolved(frame, st, s, "nested class")
        return st

    def s_Assert(self, s, st, frame):
        self.eval(s.test, st, frame)
        return st

    def s_Return(self, s, st, frame):
        v = self.eval(s.value, st, frame) if s.value is not None else t("None", const=None)
        v = v.with_deps(st.ctrl | st.xctrl)
        self.ev(frame, st, "ret", s, value=v)
        frame.returns.append((v, st.copy()))
        st.reachable = False
        return st

    def s_Raise(self, s, st, frame):
        names = ()
        val = None
        if s.exc is not None:
            val = self.eval(s.exc, st, frame)
            names = self.exc_names(val)
        else:
            names = ("<reraise>",)
        self.ev(frame, st, "raise", s, exc=names, value=val)
        st.reachable = False
        return st

    def exc_names(self, val: AV):
        out = []
        if val.fn is not None and val.fn[0] == "class":
            out.append(val.fn[1])
        elif val.fn is not None and val.fn[0] == "builtin":
            out.append(val.fn[1])
        elif val.types is not None:
            for ty in val.types:
                out.append(ty[4:] if ty.startswith("exc:") else ty)
        else:
            out.append("?")
        return tuple(sorted(out))

    def s_Assign(self, s, st, frame):
        v = self.eval(s.value, st, frame)
        if isinstance(s.value, ast.Call) and isinstance(s.value.func, ast.Attribute) and \
                s.value.func.attr == "is_deterministic" and isinstance(s.value.func.value, ast.Name):
            # flag = x.is_deterministic(): a later test of the flag refines x (typestate DET)
            v = v.with_quals({("DET_TEST_OF", s.value.func.value.id)})
        if st.ctrl:
            v = v.with_deps(st.ctrl)
        for tgt in s.targets:
            self.bind_target(tgt, v, st, frame)
        return st

    def s_AnnAssign(self, s, st, frame):
        if s.value is not None:
            v = self.eval(s.value, st, frame).with_deps(st.ctrl)
            self.bind_target(s.target, v, st, frame)
        return st

    def s_AugAssign(self, s, st, frame):
        tgt = s.target
        load = _as_load(tgt)
        cur = self.eval(load, st, frame)
        rhs = self.eval(s.value, st, frame)
        inplace = cur.types is not None and cur.types and cur.types <= {"list", "set", "dict", "deque"}
        if inplace or (cur.types is None and isinstance(s.op, (ast.Add, ast.BitOr)) and not rhs.only("str", "int", "float", "bool")
                       and rhs.types is not None and rhs.types & {"list", "set"}):
            # in-place container update: same object
            self.mutate(cur, rhs, "update", s, st, frame, "augassign")
            new = None
            if isinstance(tgt, ast.Name):
                new = st.env.get(tgt.id)
            return st
        res = self.binop(s.op, cur, rhs, s, st, frame).with_deps(st.ctrl)
        if isinstance(tgt, ast.Name):
            self.kill_facts(st, tgt.id)
            st.env[tgt.id] = res
        elif isinstance(tgt, ast.Attribute):
            base = self.eval(tgt.value, st, frame)
            self.write_attr(base, tgt.attr, res, tgt, st, frame)
        elif isinstance(tgt, ast.Subscript):
            base = self.eval(tgt.value, st, frame)
            idx = self.eval(tgt.slice, st, frame) if not isinstance(tgt.slice, ast.Slice) else TOP
            self.write_subscript(base, idx, res, tgt, st, frame, wkind="augassign")
        return st

    def s_Delete(self, s, st, frame):
        for tgt in s.targets:
            if isinstance(tgt, ast.Subscript):
                base = self.eval(tgt.value, st, frame)
                idx = self.eval(tgt.slice, st, frame) if not isinstance(tgt.slice, ast.Slice) else TOP
                self.ev(frame, st, "write", tgt, recv=base, args=(idx,), target=frozenset(base.alias), wkind="del")
                if base.alias:
                    frame.mutations.append((frozenset(base.alias), None, "del"))
            elif isinstance(tgt, ast.Attribute):
                base = self.eval(tgt.value, st, frame)
                locs = frozenset(loc_ext(l, tgt.attr) for l in base.alias)
                self.ev(frame, st, "write", tgt, recv=base, attr=tgt.attr, target=locs, wkind="del")
                if locs:
                    frame.mutations.append((locs, None, "del"))
            elif isinstance(tgt, ast.Name):
                st.env.pop(tgt.id, None)
        return st

    # ---------------------------------------------------------------- branches
    def s_If(self, s, st, frame):
        c = self.eval(s.test, st, frame)
        self.truth(s.test, self._bare_value(s.test, c, st, frame), st, frame)
        tf, ff = self.cond_facts(s.test)
        if c.has_const() and not isinstance(c.const, (AV,)):
            self.ev(frame, st, "branch", s, value=c, note="pruned:%s" % bool(c.const))
            branch = s.body if c.const else s.orelse
            sub = st
            sub.facts = sub.facts | (tf if c.const else ff)
            return self.exec_block(branch, sub, frame)
        self.ev(frame, st, "branch", s, value=c)
        s1 = st.copy()
        s1.facts = s1.facts | tf
        s1.ctrl = s1.ctrl | c.deps
        self.narrow(s.test, True, s1, frame)
        s2 = st.copy()
        s2.facts = s2.facts | ff
        s2.ctrl = s2.ctrl | c.deps
        self.narrow(s.test, False, s2, frame)
        o1 = self.exec_block(s.body, s1, frame)
        o2 = self.exec_block(s.orelse, s2, frame)
        if not o1.reachable and not o2.reachable:
            o1.reachable = False
            return o1
        out = join_states(o1, o2)
        # after a branch that always leaves, the rest is control dependent on the test; otherwise restore ctrl
        if o1.reachable and o2.reachable:
            out.ctrl = st.ctrl | (out.ctrl - o1.ctrl - o2.ctrl)
            out.ctrl = st.ctrl
        else:
            out.ctrl = st.ctrl
            out.xctrl = out.xctrl | c.deps
        return out

    def _loop(self, s, st, frame, head_fn):
        """Generic loop to fixpoint.  head_fn(state) -> (body_in_state, exit_state_when_not_entered)"""
        entry = st
        head = entry.copy()
        mark = len(frame.events)
        mmark = len(frame.mutations)
        rmark = len(frame.returns)
        ymark = len(frame.yields)
        result = None
        for it in range(MAX_LOOP_ITER):
            del frame.events[mark:]
            del frame.mutations[mmark:]
            del frame.returns[rmark:]
            del frame.yields[ymark:]
            ctx = {"breaks": [], "continues": []}
            frame.loop_stack.append(ctx)
            body_in, exit_st = head_fn(head.copy())
            out = self.exec_block(s.body, body_in, frame) if body_in is not None else None
            frame.loop_stack.pop()
            back = None
            if out is not None and out.reachable:
                back = out
            for cs in ctx["continues"]:
                back = join_states(back, cs)
            new_head = join_states(entry, back) if back is not None else entry.copy()
            new_head.ctrl = entry.ctrl
            result = (exit_st, ctx["breaks"], new_head)
            if new_head.same(head):
                break
            head = new_head
        else:
            self.unresolved(frame, st, s, "loop did not stabilise")
        exit_st, breaks, new_head = result
        # state after normal termination of the loop: evaluated on the stable head
        frame.loop_stack.append({"breaks": [], "continues": []})
        _, exit_st = head_fn(new_head.copy(), quiet=True)
        frame.loop_stack.pop()
        if s.orelse and exit_st is not None and exit_st.reachable:
            exit_st = self.exec_block(s.orelse, exit_st, frame)
        out = exit_st
        for b in breaks:
            out = join_states(out, b)
        if out is None:
            out = new_head.copy()
            out.reachable = False
        return out

    def s_For(self, s, st, frame):
        # `for k in (0, 1): ...` over a short display of constants is the body written out once per constant: run it
        # that way (the loop variable keeps its constant in each round)
        if isinstance(s.iter, (ast.Tuple, ast.List)) and 0 < len(s.iter.elts) <= 4 and not s.orelse and \
                all(isinstance(e, ast.Constant) for e in s.iter.elts) and \
                not any(isinstance(x, (ast.Break, ast.Continue)) for b in s.body for x in ast.walk(b)):
            cur = st
            for elt in s.iter.elts:
                v = self.eval(elt, cur, frame)
                self.bind_target(s.target, v, cur, frame)
                cur = self.exec_block(s.body, cur, frame)
                if cur is None or not cur.reachable:
                    break
            return cur

        def head_fn(h, quiet=False):
            mark = len(frame.events)
            it = self.eval(s.iter, h, frame)
            e = self.iterate(it, s.iter, h, frame)
            if quiet:
                del frame.events[mark:]
            else:
                self.ev(frame, h, "iter", s, recv=it, result=e)
            exit_st = h.copy()
            body = h
            body.ctrl = body.ctrl | it.deps
            self.bind_target(s.target, e, body, frame)
            exit_st.ctrl = st.ctrl
            return body, exit_st
        return self._loop(s, st, frame, head_fn)

    def s_While(self, s, st, frame):
        assigned = _assigned_names(s.body)

        def head_fn(h, quiet=False):
            mark = len(frame.events)
            c = self.eval(s.test, h, frame)
            if quiet:
                del frame.events[mark:]
            tf, ff = self.cond_facts(s.test)
            body = h.copy()
            body.facts = body.facts | tf
            body.ctrl = body.ctrl | c.deps
            self.narrow(s.test, True, body, frame)
            exit_st = h
            exit_st.facts = exit_st.facts | ff
            exit_st.ctrl = st.ctrl | c.deps
            self.narrow(s.test, False, exit_st, frame)
            if c.has_const() and c.const is True:
                exit_st = None
            return body, exit_st
        return self._loop(s, st, frame, head_fn)

    def s_Break(self, s, st, frame):
        if frame.loop_stack:
            frame.loop_stack[-1]["breaks"].append(st.copy())
        st.reachable = False
        return st

    def s_Continue(self, s, st, frame):
        if frame.loop_stack:
            frame.loop_stack[-1]["continues"].append(st.copy())
        st.reachable = False
        return st

    def s_With(self, s, st, frame):
        for item in s.items:
            v = self.eval(item.context_expr, st, frame)
            if item.optional_vars is not None:
                self.bind_target(item.optional_vars, v, st, frame)
        return self.exec_block(s.body, st, frame)

    def s_Try(self, s, st, frame):
        mark = len(frame.events)
        entry = st.copy()
        out = self.exec_block(s.body, st, frame)
        body_events = frame.events[mark:]
        # handlers see any state reachable inside the body: join of entry and exit
        hin = join_states(entry, out) if out.reachable else entry
        outs = []
        if out.reachable:
            if s.orelse:
                out = self.exec_block(s.orelse, out, frame)
            outs.append(out)
        for h in s.handlers:
            caught = self.handler_classes(h, entry, frame)
            self.mark_caught(body_events, caught)
            hs = hin.copy()
            hs.reachable = True
            if h.name:
                hs.env[h.name] = TOP
            ho = self.exec_block(h.body, hs, frame)
            if ho.reachable:
                outs.append(ho)
        res = None
        for o in outs:
            res = join_states(res, o)
        if res is None:
            res = entry
            res.reachable = False
        if s.finalbody:
            res.reachable = True if outs else res.reachable
            res = self.exec_block(s.finalbody, res, frame)
        return res

    def handler_classes(self, h, st, frame):
        if h.type is None:
            return None          # bare except: everything
        nodes = h.type.elts if isinstance(h.type, ast.Tuple) else [h.type]
        out = []
        for nd in nodes:
            v = self.eval(nd, st, frame)
            if v.fn is not None and v.fn[0] == "class":
                out.append(v.fn[1])
            elif v.fn is not None and v.fn[0] == "builtin":
                out.append(v.fn[1])
            elif v.has_const() and hasattr(v.const, "name"):
                out.append(v.const.name)
            else:
                out.append("?")
        return out

    def exc_matches(self, name, caught) -> bool:
        if caught is None:
            return True
        for c in caught:
            if c == name or c in ("Exception", "BaseException"):
                return True
            if name in self.prog.classes and c in self.prog.classes and self.prog.is_subclass(name, c):
                return True
            if name in self.prog.classes and c in self.prog.classes[name].ext_bases:
                return True
            if c.endswith("." + name) or name.endswith("." + c):
                return True
        return False

    def mark_caught(self, events, caught):
        for ev in events:
            if ev.kind == "raise" and not ev.caught:
                if all(self.exc_matches(x, caught) for x in ev.exc) and ev.exc:
                    ev.caught = True
            if ev.sub is not None:
                # events of inlined callees are shared between call sites: record the catch on the call event
                if ev.kind == "call":
                    ev.note = (ev.note + "|" if ev.note else "") + "caught:" + ",".join(caught or ["*"])


_MUT_NAMES = {"add", "append", "update", "extend", "insert", "setdefault", "appendleft", "put"}


def _mutates_self_field(fn) -> bool:
    for sub in ast.walk(fn):
        if isinstance(sub, ast.Call) and isinstance(sub.func, ast.Attribute) and sub.func.attr in _MUT_NAMES:
            v = sub.func.value
            if isinstance(v, ast.Attribute) and isinstance(v.value, ast.Name) and v.value.id == "self":
                return True
        if isinstance(sub, ast.Subscript) and isinstance(sub.ctx, ast.Store):
            v = sub.value
            while isinstance(v, ast.Subscript):
                v = v.value
            if isinstance(v, ast.Attribute) and isinstance(v.value, ast.Name) and v.value.id == "self":
                return True
    return False


def _as_load(tgt):
    import copy
    n = copy.copy(tgt)
    n.ctx = ast.Load()
    return n


def _assigned_names(stmts):
    out = set()
    for s in stmts:
        for sub in ast.walk(s):
            if isinstance(sub, ast.Name) and isinstance(sub.ctx, ast.Store):
                out.add(sub.id)
    return out


def _generalise(av: AV) -> AV:
    """Field-table entry: keep types / element structure, drop identity and
    dependencies of the particular analysis run."""
    if av is None:
        return None
    return AV(types=av.types,
              elem=_generalise(av.elem) if av.elem is not None else None,
              key=_generalise(av.key) if av.key is not None else None,
              items=tuple(_generalise(i) for i in av.items) if av.items is not None else None,
              fn=av.fn if av.fn is not None and av.fn[0] in ("class",) else None)
