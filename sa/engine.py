"""Engine bootstrap shared by all checks: program index + interpreter + field
table.  The field table is cached on disk keyed by the digest of every analysed
module (and of the engine itself), so a changed source always rebuilds it."""
from __future__ import annotations

import hashlib
import os
import pickle
import time

from . import model
from .index import Program
from .interp import Interp

CACHE_DIR = os.path.join(os.path.dirname(os.path.dirname(os.path.abspath(__file__))), ".cache")


def _engine_digest() -> str:
    h = hashlib.sha256()
    here = os.path.dirname(os.path.abspath(__file__))
    for fn in sorted(os.listdir(here)):
        if fn.endswith(".py"):
            with open(os.path.join(here, fn), "rb") as fh:
                h.update(fh.read())
    return h.hexdigest()


class Engine:
    def __init__(self, root=None, use_cache=True):
        t0 = time.time()
        self.prog = Program(root)
        self.interp = Interp(self.prog)
        model.install(self.interp)
        self.model_problems = model.validate(self.prog)
        key = hashlib.sha256((self.prog.digest() + _engine_digest()).encode()).hexdigest()[:24]
        path = os.path.join(CACHE_DIR, "fields-%s.pkl" % key)
        loaded = False
        if use_cache and os.path.exists(path):
            try:
                with open(path, "rb") as fh:
                    self.interp.field_table = pickle.load(fh)
                self.interp.field_table_ready = True
                loaded = True
            except Exception:
                loaded = False
        if not loaded:
            self.interp.build_field_table()
            if use_cache:
                try:
                    os.makedirs(CACHE_DIR, exist_ok=True)
                    tmp = path + ".%d.tmp" % os.getpid()
                    with open(tmp, "wb") as fh:
                        pickle.dump(self.interp.field_table, fh)
                    os.replace(tmp, path)
                except Exception:
                    pass
        self.abstract = model.abstract_classes(self.prog)
        self.setup_s = time.time() - t0

    def concrete_receivers(self, cls_q):
        """Concrete classes through which a method of cls_q can be reached."""
        return [q for q in self.prog.subclasses(cls_q) if q not in self.abstract]

    def entry(self, cls_name, meth, recv=None):
        ci = self.prog.cls(cls_name)
        fi = self.prog.method(cls_name, meth)
        rq = self.prog.cls(recv).qname if recv else ci.qname
        fi = self.prog.find_method(rq, meth) or fi
        return fi, self.interp.run_entry(fi, rq)

    def stats(self):
        s = dict(self.interp.stats)
        return {"modules_parsed": len(self.prog.modules), "classes": len(self.prog.classes),
                "functions_indexed": len(self.prog.functions),
                "functions_analysed": s.get("functions_analysed", 0), "summary_cache_hits": s.get("memo_hits", 0),
                "recursive_calls_widened": s.get("recursive_calls", 0)}
