"""Interpreter state, frames, events and function summaries."""
from __future__ import annotations

import ast
from dataclasses import dataclass, field
from typing import Dict, List, Optional, Tuple

from .av import AV, join, is_prefix, loc_ext, all_deps
from .index import FuncInfo, norm_stmt


class State:
    """Flow-sensitive state at a program point."""
    __slots__ = ("env", "facts", "ctrl", "reachable", "xctrl")

    def __init__(self, env=None, facts=frozenset(), ctrl=frozenset(), reachable=True, xctrl=frozenset()):
        self.env: Dict[str, AV] = env if env is not None else {}
        self.facts: frozenset = facts
        self.ctrl: frozenset = ctrl          # control dependence on enclosing branches / loops
        self.reachable: bool = reachable
        self.xctrl: frozenset = xctrl        # control dependence through earlier conditional exits

    def copy(self) -> "State":
        return State(dict(self.env), self.facts, self.ctrl, self.reachable, self.xctrl)

    def same(self, other: "State") -> bool:
        return (self.reachable == other.reachable and self.facts == other.facts and self.ctrl == other.ctrl
                and self.xctrl == other.xctrl and self.env == other.env)


def join_states(a: Optional[State], b: Optional[State]) -> Optional[State]:
    if a is None or not a.reachable:
        return b.copy() if b is not None else (a.copy() if a is not None else None)
    if b is None or not b.reachable:
        return a.copy()
    env = {}
    for k in a.env.keys() | b.env.keys():
        if k in a.env and k in b.env:
            env[k] = join(a.env[k], b.env[k])
        elif k.startswith("@"):
            # pseudo-variable of a field: only kept when known on both sides
            continue
        else:
            env[k] = a.env.get(k) or b.env.get(k)
    return State(env, a.facts & b.facts, a.ctrl | b.ctrl, True, a.xctrl | b.xctrl)


@dataclass
class Site:
    file: str
    func: str
    text: str
    line: int

    def key(self):
        return (self.func, self.text)

    def __str__(self):
        return "%s:%d in %s: %s" % (self.file, self.line, self.func, self.text)

    def to_json(self):
        return {"file": self.file, "line": self.line, "function": self.func, "construct": self.text}


@dataclass
class Event:
    """Something observable that happened at a program point of some function.

    kind: call | write | raise | subscript | attr | member | ret | unresolved | iter | compare
    """
    kind: str
    site: Site
    node: ast.AST
    func: FuncInfo
    recv_cls: Optional[str] = None         # receiver class of the analysed function (for methods)
    callee: Optional[str] = None           # call: resolved callee qname / builtin name
    recv: Optional[AV] = None              # call / attr / subscript base
    args: Tuple[AV, ...] = ()
    kwargs: Tuple[Tuple[str, AV], ...] = ()
    result: Optional[AV] = None
    value: Optional[AV] = None             # write: value stored; raise: exception value
    target: frozenset = frozenset()        # write: locations written
    wkind: str = ""                        # write: attr | subscript | del | mutate:<method> | augassign
    attr: str = ""                         # attr / write attr name
    exc: Tuple[str, ...] = ()              # raise: exception class names
    caught: bool = False
    facts: frozenset = frozenset()
    ctrl: frozenset = frozenset()
    xctrl: frozenset = frozenset()
    sub: Optional["Summary"] = None        # call: summary of the inlined callee
    note: str = ""

    def brief(self) -> str:
        return "%s %s @ %s" % (self.kind, self.callee or self.attr or self.wkind or ",".join(self.exc), self.site)


@dataclass
class Summary:
    """Result of analysing one function in one context."""
    func: Optional[FuncInfo]
    recv_cls: Optional[str]
    ret: AV
    events: List[Event] = field(default_factory=list)
    # flattened (transitive) facts used for replay in callers:
    mutations: List[Tuple[frozenset, Optional[AV], str]] = field(default_factory=list)   # (locs, added, how)
    self_out: Dict[str, Tuple[AV, bool]] = field(default_factory=dict)                  # field -> (value, strong)
    raises_escape: bool = False
    may_return: bool = True
    n_unresolved: int = 0
    incomplete: bool = False               # recursion cut / budget: result is an under-approximation

    def walk(self, chain=()):
        """All events of the closure with their call chain (tuple of the enclosing call events, outermost first)."""
        for ev in self.events:
            yield ev, chain
            if ev.sub is not None:
                yield from ev.sub.walk(chain + (ev,))

    def walk_own(self):
        for ev in self.events:
            yield ev


class Frame:
    """One function activation being analysed."""

    def __init__(self, func: Optional[FuncInfo], module, recv_cls: Optional[str], self_av: Optional[AV], depth: int,
                 callsite_key: str = ""):
        self.func = func
        self.module = module
        self.recv_cls = recv_cls
        self.self_av = self_av
        self.depth = depth
        self.events: List[Event] = []
        self.returns: List[Tuple[AV, State]] = []
        self.yields: List[AV] = []
        self.local_imports: Dict[str, tuple] = {}
        self.loop_stack: List[dict] = []
        self.callsite_key = callsite_key
        self.mutations: List[Tuple[frozenset, Optional[AV], str]] = []
        self.n_unresolved = 0
        self.incomplete = False
        self.raised_states: List[State] = []

    @property
    def qname(self) -> str:
        return self.func.qname if self.func is not None else "<module>"

    def site(self, node) -> Site:
        return Site(self.module.relpath, self.qname, norm_stmt(node), getattr(node, "lineno", 0))


def apply_mutation(st: State, locs: frozenset, added: Optional[AV], how: str):
    """Weak update of every variable that is (or contains) a mutated object."""
    if not locs:
        return
    add_deps = all_deps(added) if added is not None else frozenset()
    for name, val in list(st.env.items()):
        if val is None or not val.alias:
            continue
        new = val
        for lm in locs:
            for lx in val.alias:
                if not is_prefix(lx, lm):
                    continue
                suffix = lm[1][len(lx[1]):]
                if how == "clear" and not suffix:
                    continue
                if add_deps and not add_deps <= new.deps:
                    new = _replace(new, deps=new.deps | add_deps)
                if added is not None and all(s == "[]" for s in suffix):
                    new = _add_elem(new, added, len(suffix), how)
                break
        if new is not val:
            st.env[name] = new


def _replace(av: AV, **kw) -> AV:
    from dataclasses import replace
    return replace(av, **kw)


def _add_elem(container: AV, added: AV, depth: int, how: str) -> AV:
    from .av import EMPTYQ
    if depth == 0:
        quals = container.quals
        if how in ("add", "update"):
            # set-level qualifiers survive only if the added part has them too
            if EMPTYQ in quals:
                # an empty container that receives all of `added` IS `added` as far as set-level facts go
                # (res = set(); res.update(closure) is epsilon-closed when closure is)
                quals = frozenset(q for q in added.quals if q != EMPTYQ) if how == "update" else frozenset()
            else:
                quals = frozenset(q for q in quals if q in (added.quals if how == "update" else frozenset()))
        if how == "update":
            new_elem = join(container.elem, added.elem if added.elem is not None else None)
            if added.items:
                for it in added.items:
                    new_elem = join(new_elem, it)
        elif how == "setkey":
            new_elem = join(container.elem, added)
        else:
            new_elem = join(container.elem, added)
        items = None
        return _replace(container, elem=new_elem, items=items if container.items is None else None, quals=quals,
                        const=_noconst())
    inner = container.elem
    if inner is None:
        return container
    return _replace(container, elem=_add_elem(inner, added, depth - 1, how), const=_noconst())


def _noconst():
    from .av import NOCONST
    return NOCONST
