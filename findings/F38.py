"""F38 (C12 / C09): to_normal_form's fast path is taken when `len(unit_pairs) == len(variables)`, which is meant to say
"there is no unit production" - but a reflexive unit production A -> A adds no pair beyond (A, A).  The "normal form"
then keeps A -> A, and get_words, which reads every one-symbol body as a terminal word, yields words that contain
variables.  Exit 0 = the defect is absent."""
import sys
from pyformlang.cfg import CFG, Variable, Terminal

bad = []
for text, expect in (("S -> S | a", [["a"]]),
                     ("S -> A b\nA -> A | a", [["a", "b"]])):
    g = CFG.from_text(text)
    words = list(g.get_words(3))
    if any(not isinstance(x, Terminal) or isinstance(x, Variable) for w in words for x in w):
        bad.append((text, "get_words yields a variable", words))
    if sorted([x.value for x in w] for w in words) != sorted(expect):
        bad.append((text, "get_words", words))
    nf = CFG.from_text(text).to_normal_form()
    if not nf.is_normal_form():
        bad.append((text, "to_normal_form() is not in normal form", sorted(map(str, nf.productions))))
    if not CFG.from_text(text).is_finite():
        bad.append((text, "is_finite() is False on a finite language", None))
for b in bad:
    print("DEFECT", b)
sys.exit(1 if bad else 0)
