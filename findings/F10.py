# F10 (C11): CFG.intersection indexes the successor *set* of a deterministic-shaped epsilon-NFA
from pyformlang.cfg import CFG
from pyformlang.finite_automaton import EpsilonNFA
g = CFG.from_text("S -> a b")
e = EpsilonNFA()
e.add_start_state(0)
e.add_transition(0, "a", 1)
e.add_transition(1, "b", 2)
e.add_final_state(2)
assert e.is_deterministic()
try:
    ok = g.intersection(e).contains(["a", "b"])
except TypeError as exc:
    print("raised TypeError:", exc)
    ok = False
assert ok, "DEFECT: intersection with a structurally deterministic EpsilonNFA raises TypeError"
