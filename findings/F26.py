# F26 (C19): index_cfg_converter left on shared value objects by one conversion is trusted by the next.
# All names are integers so that no set order depends on PYTHONHASHSEED.
from pyformlang.cfg import CFG, Production, Variable, Terminal
from pyformlang.finite_automaton import DeterministicFiniteAutomaton, State, Symbol


def dfa_for(word):
    d = DeterministicFiniteAutomaton()
    d.add_start_state(State(0))
    for i, c in enumerate(word):
        d.add_transition(State(i), Symbol(c), State(i + 1))
    d.add_final_state(State(len(word)))
    return d


def grammar(shared):
    """S -> A B, A -> 1001, B -> 1002 ; `shared` supplies the Variable objects used inside the production bodies."""
    S, A, B = Variable(100), Variable(101), Variable(102)
    a, b = Terminal(1001), Terminal(1002)
    body_a, body_b = shared.get(101, A), shared.get(102, B)
    prods = [Production(S, [body_a, body_b]), Production(A, [a]), Production(B, [b])]
    return CFG(variables={S, A, B}, terminals={a, b}, start_symbol=S, productions=prods)


fresh_answer = grammar({}).intersection(dfa_for([1001, 1002])).contains([1001, 1002])

# history: the same Variable objects are first used by another (bigger) grammar that gets intersected
shared = {101: Variable(101), 102: Variable(102)}
other_prods = []
for i in range(10):                       # 300 -> 200 210, 200 -> 201 211, ... : all reachable and generating
    head = Variable(300) if i == 0 else Variable(199 + i)
    other_prods.append(Production(head, [Variable(200 + i), Variable(210 + i)]))
    other_prods.append(Production(Variable(210 + i), [Terminal(1001)]))
other_prods += [Production(Variable(209), [shared[101], shared[102]]),
                Production(shared[101], [Terminal(1001)]), Production(shared[102], [Terminal(1002)])]
big = CFG(variables=set(shared.values()) | {Variable(300)}, start_symbol=Variable(300), productions=other_prods)
big.intersection(dfa_for([1001, 1002]))
try:
    got = grammar(shared).intersection(dfa_for([1001, 1002])).contains([1001, 1002])
except Exception as exc:
    got = "raised %s" % type(exc).__name__
print("fresh equal grammar:", fresh_answer, "| after the history:", got)
assert got == fresh_answer, "DEFECT: the answer depends on an earlier intersection of a grammar sharing Variable objects"
