# F02 (C03): get_complement flips final states of a nondeterministic automaton
from pyformlang.finite_automaton import NondeterministicFiniteAutomaton
n = NondeterministicFiniteAutomaton()
n.add_start_state(0)
n.add_transition(0, "a", 1)
n.add_transition(0, "a", 2)
n.add_final_state(1)
c = n.get_complement()
print("automaton accepts a:", n.accepts(["a"]), "| complement accepts a:", c.accepts(["a"]))
assert c.accepts(["a"]) != n.accepts(["a"]), "DEFECT: the complement accepts a word the automaton accepts"
