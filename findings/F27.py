# F27 (C19): IndexedGrammar.is_empty inserts keys into the rules' consumption table
from pyformlang.indexed_grammar import Rules, ProductionRule, EndRule, IndexedGrammar
rules = Rules([ProductionRule("S", "A", "f"), EndRule("A", "a")], optim=0)
g = IndexedGrammar(rules)
before = rules.length
g.is_empty()
print("length before/after:", before, rules.length)
assert rules.length == before, "DEFECT: is_empty changed Rules.length"
