# F35 (C20): the hidden start-stack node name of PDA.to_networkx is not fresh against state names
from pyformlang.pda import PDA
p = PDA()
p.add_transition("INITIAL_STACK_HIDDEN", "a", "Z", "q", ["Z"])
p.set_start_state("INITIAL_STACK_HIDDEN")
try:
    q = PDA.from_networkx(p.to_networkx())
    ok = q.get_number_transitions() == 1
except Exception as exc:
    print("raised", type(exc).__name__, exc)
    ok = False
assert ok, "DEFECT: a PDA with a state named INITIAL_STACK_HIDDEN (no start stack symbol) does not round-trip"
