# F01 (C01): merged DFA state names are not injective
from pyformlang.finite_automaton import NondeterministicFiniteAutomaton, State
n = NondeterministicFiniteAutomaton()
n.add_start_state(State("s"))
n.add_transition("s", "a", "a;b")
n.add_transition("s", "b", "a")
n.add_transition("s", "b", "b")
n.add_transition("a;b", "c", "f")
n.add_final_state("f")
d = n.to_deterministic()
bad = [w for w in (["b", "c"], ["a", "c"]) if d.accepts(w) != n.accepts(w)]
print("words on which the DFA and the NFA disagree:", bad)
assert not bad, "DEFECT: to_deterministic changed the language (state {'a;b'} merged with {'a','b'})"
