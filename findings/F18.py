# F18 (C17): the product with a regular language hard-codes the start variable "S"
from pyformlang.indexed_grammar import Rules, EndRule, IndexedGrammar
from pyformlang.regular_expression import Regex
g = IndexedGrammar(Rules([EndRule("A", "a")]), start_variable="A")       # generates the word a
assert not g.is_empty()
inter = g.intersection(Regex("a"))
print("intersection with the regex `a` is empty:", inter.is_empty())
assert not inter.is_empty(), "DEFECT: the intersection is reported empty because the root rule uses the literal S"
