# F11 (C13): the stack symbol invented for a terminal is not fresh against variable names
from pyformlang.cfg import CFG, Production, Variable, Terminal
S, T = Variable("S"), Variable("#TERM#a")
a, b = Terminal("a"), Terminal("b")
# S -> a T, T -> b : L = {ab}
g = CFG(start_symbol=S, productions={Production(S, [a, T]), Production(T, [b])})
back = g.to_pda().to_cfg()
print("original contains aa:", g.contains(["a", "a"]), "| to_pda().to_cfg() contains aa:", back.contains(["a", "a"]))
assert back.contains(["a", "a"]) == g.contains(["a", "a"]), \
    "DEFECT: the stack symbol of terminal 'a' and of variable '#TERM#a' coincide: the PDA accepts 'aa'"
