# F16 (C16): FiniteAutomaton.to_fst writes the token "epsilon" on epsilon edges
from pyformlang.regular_expression import Regex
fst = Regex("a b").to_epsilon_nfa().to_fst()
out = list(fst.translate(["a", "b"]))
print("identity transducer of `a b` translates ab to:", out)
assert out and all(o == ["a", "b"] for o in out), "DEFECT: the identity transducer outputs epsilon tokens"
