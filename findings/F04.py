# F04 (C03): product state names are not injective
from pyformlang.finite_automaton import EpsilonNFA
a = EpsilonNFA()
a.add_start_state("s0")
a.add_transition("s0", "y", "a; b")
a.add_final_state("a")              # unreachable final state: L(a) is empty
b = EpsilonNFA()
b.add_start_state("t0")
b.add_transition("t0", "y", "c")
b.add_final_state("b; c")           # unreachable final state: L(b) is empty
inter = a.get_intersection(b)
print("a accepts y:", a.accepts(["y"]), "| b accepts y:", b.accepts(["y"]), "| intersection accepts y:", inter.accepts(["y"]))
assert not inter.accepts(["y"]), "DEFECT: the intersection accepts a word both operands reject (('a; b','c') and ('a','b; c') share the name 'a; b; c')"
