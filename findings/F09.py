# F09 (C09): the variable invented for a lifted terminal is not fresh
from pyformlang.cfg import CFG, Production, Variable, Terminal
S, X = Variable("S"), Variable("a#CNF#")
a, b = Terminal("a"), Terminal("b")
g = CFG(start_symbol=S, productions={Production(S, [a, X]), Production(X, [b])})
# L(g) = {ab}
print("contains ab:", g.contains(["a", "b"]), "| contains aa:", g.contains(["a", "a"]))
assert not g.contains(["a", "a"]), "DEFECT: the normal form captures the user variable 'a#CNF#': 'aa' is accepted"
