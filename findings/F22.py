# F22 (C19): Regex.to_epsilon_nfa returns the automaton kept in the private cache
from pyformlang.regular_expression import Regex
r = Regex("a")
assert not r.accepts(["b"])
enfa = r.to_epsilon_nfa()
assert r.accepts(["a"])           # fills the cache
enfa2 = r.to_epsilon_nfa()
r.accepts(["a"])
# mutate the object handed out by the conversion
cached = r.to_epsilon_nfa()
r._enfa is cached
for s in list(cached.start_states):
    for f in list(cached.final_states):
        cached.add_transition(s, "b", f)
print("accepts b after mutating the returned automaton:", r.accepts(["b"]))
assert r.accepts(["b"]) is False, "DEFECT: mutating the result of to_epsilon_nfa changed what the regex accepts"
