# F12 (C14): the LL(1) parser reads .value on the bare "$" stack sentinel
from pyformlang.cfg import CFG, LLOneParser
from pyformlang.cfg.cfg import NotParsableException
g = CFG.from_text("S -> a")
p = LLOneParser(g)
assert p.is_llone_parsable()
try:
    p.get_llone_parse_tree(["a", "a"])
    outcome = "accepted"
except NotParsableException:
    outcome = "NotParsableException"
except Exception as exc:
    outcome = type(exc).__name__
print("parsing the non-member aa ->", outcome)
assert outcome == "NotParsableException", "DEFECT: a non-member is refused with %s" % outcome
