# F33 (C16): renaming of colliding FST states concatenates the state with a string
from pyformlang.fst import FST
a, b = FST(), FST()
for t in (a, b):
    t.add_start_state(0)
    t.add_final_state(1)
a.add_transition(0, "a", 1, ["x"])
b.add_transition(0, "b", 1, ["y"])
try:
    u = a.union(b)
    ok = list(u.translate(["a"])) == [["x"]] and list(u.translate(["b"])) == [["y"]]
except TypeError as exc:
    print("raised TypeError:", exc)
    ok = False
assert ok, "DEFECT: union of two transducers over the integer states 0, 1 raises TypeError"
