# F28 (C20): a capitalised terminal does not survive CFG.to_text / from_text
from pyformlang.cfg import CFG, Production, Variable, Terminal
S = Variable("S")
g = CFG(start_symbol=S, productions={Production(S, [Terminal("Hello"), Terminal("world")])})
assert g.contains(["Hello", "world"])
text = g.to_text()
back = CFG.from_text(text, S)
print("text:", text.strip(), "| re-read grammar contains the word:", back.contains(["Hello", "world"]))
assert back.contains(["Hello", "world"]), "DEFECT: '\"TER:Hello\"' is read back as a variable"
