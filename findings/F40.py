"""F40 (C12 / C09): _get_generating_or_nullable pushes every terminal on its worklist without asking whether it is
already known.  A raw Epsilon() kept in a body (Production(..., filtering=False)) is also a terminal of the grammar and
equals the Epsilon seed, so it is popped twice and counts the body `eps X` down twice: S -> eps X with X deriving
nothing is called generating and the grammar non-empty.  Exit 0 = the defect is absent."""
import sys
from pyformlang.cfg import CFG, Variable, Terminal, Production, Epsilon

S, X = Variable("S"), Variable("X")
bad = []
for prods in ({Production(S, [Epsilon(), X], filtering=False), Production(X, [X])},
              {Production(S, [Epsilon(), X], filtering=False), Production(X, [X, Terminal("a")])}):
    g = CFG({S, X}, set(), S, prods)
    if S in g.get_generating_symbols():
        bad.append(("S is called generating", sorted(map(str, prods))))
    if not CFG({S, X}, set(), S, prods).is_empty():
        bad.append(("is_empty() is False on an empty language", sorted(map(str, prods))))
# and a generating one stays generating
g = CFG({S, X}, set(), S, {Production(S, [Epsilon(), X], filtering=False), Production(X, [Terminal("a")])})
if g.is_empty() or S not in g.get_generating_symbols():
    bad.append(("a non-empty grammar is called empty", None))
for b in bad:
    print("DEFECT", b)
sys.exit(1 if bad else 0)
