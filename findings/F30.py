# F30 (C20): a PDA state whose name starts with "starting_" loses its transitions in the networkx round trip
from pyformlang.pda import PDA
p = PDA()
p.set_start_state("starting_q")
p.set_start_stack_symbol("Z")
p.add_transition("starting_q", "a", "Z", "starting_q", ["Z"])
q = PDA.from_networkx(p.to_networkx())
print("transitions before / after the round trip:", p.get_number_transitions(), q.get_number_transitions())
assert q.get_number_transitions() == p.get_number_transitions(), "DEFECT: the reader skips every node named starting_*"
