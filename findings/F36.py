# F36 (C08): Variable.__eq__ accepts a Terminal with the same value, Terminal.__eq__ never accepts a Variable:
# contains() does not return for a grammar in which a variable and a terminal share a value.
import faulthandler
from pyformlang.cfg import CFG, Variable, Terminal, Production

assert (Variable("A") == Terminal("A")) == (Terminal("A") == Variable("A")), \
    "DEFECT: Variable('A') == Terminal('A') is %s but Terminal('A') == Variable('A') is %s (both hash alike)" % (
        Variable("A") == Terminal("A"), Terminal("A") == Variable("A"))
S, A, a = Variable("S"), Variable("A"), Terminal("A")
g = CFG(productions=[Production(S, [A, a]), Production(A, [Terminal("b")])], start_symbol=S)
faulthandler.dump_traceback_later(10, exit=True)      # S -> A "TER:A", A -> b : contains loops in to_normal_form
assert g.contains([Terminal("b"), Terminal("A")])
assert not g.contains([Terminal("b")])
print("ok")
