# F05 (C05): ill-formed text "()" is refused with IndexError instead of MisformedRegexError
from pyformlang.regular_expression import Regex, MisformedRegexError
try:
    Regex("()")
    outcome = "accepted"
except MisformedRegexError:
    outcome = "MisformedRegexError"
except Exception as exc:
    outcome = type(exc).__name__
print("Regex('()') ->", outcome)
assert outcome in ("accepted", "MisformedRegexError"), "DEFECT: Regex('()') fails with " + outcome
