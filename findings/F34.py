# F34 (C14): a grammar symbol spelled "$" consumes the parser's end sentinel
from pyformlang.cfg import CFG, LLOneParser, Production, Variable, Terminal
from pyformlang.cfg.cfg import NotParsableException
S, D = Variable("S"), Variable("$")
b = Terminal("b")
g = CFG(start_symbol=S, productions={Production(S, [D, D]), Production(D, [b])})   # L = {bb}
p = LLOneParser(g)
try:
    p.get_llone_parse_tree(["b"])           # a proper prefix of the only member
    outcome = "accepted"
except NotParsableException:
    outcome = "NotParsableException"
except Exception as exc:
    outcome = type(exc).__name__
print("parsing the proper prefix b ->", outcome)
assert outcome == "NotParsableException", "DEFECT: refused with %s instead of NotParsableException" % outcome
