# F23 (C19): a parent's conversion stores its automaton in each son's cache
from pyformlang.regular_expression import Regex
r0, r1 = Regex("a"), Regex("b")
u = r0 | r1
u.accepts(["a"])
print("r0 accepts b:", r0.accepts(["b"]))
assert r0.accepts(["b"]) is False, "DEFECT: r0 = Regex('a') accepts 'b' after (r0|r1).accepts(...)"
