# F37 (C15): the two derivation listings disagree on sons that add no step of their own
#   a) get_leftmost_derivation keeps a variable that was rewritten to epsilon in the prefix
#   b) get_rightmost_derivation drops a terminal leaf that has a variable to its left
from pyformlang.cfg import CFG
from pyformlang.cfg.llone_parser import LLOneParser


def last_form(txt, word, which):
    g = CFG.from_text(txt)
    tree = LLOneParser(g).get_llone_parse_tree(word)
    d = tree.get_leftmost_derivation() if which == "L" else tree.get_rightmost_derivation()
    return [str(x.value) for x in d[-1]], d


got, d = last_form("S -> A B\nA -> $\nB -> b", ["b"], "L")
assert got == ["b"], "DEFECT a: leftmost derivation of 'b' for S -> A B, A -> eps, B -> b ends in %s: %s" % (got, d)
got, d = last_form("S -> A c B\nA -> a\nB -> b", ["a", "c", "b"], "R")
assert got == ["a", "c", "b"], "DEFECT b: rightmost derivation of 'a c b' for S -> A c B ends in %s: %s" % (got, d)
print("ok")
