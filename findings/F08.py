# F08 (C06): to_regex raises ValueError for an automaton with several start states
from pyformlang.finite_automaton import EpsilonNFA
e = EpsilonNFA()
e.add_start_state(0)
e.add_start_state(1)
e.add_transition(0, "a", 2)
e.add_transition(1, "b", 2)
e.add_final_state(2)
try:
    r = e.to_regex()
    ok = r.accepts(["a"]) and r.accepts(["b"])
except ValueError as exc:
    print("raised ValueError:", exc)
    ok = False
assert ok, "DEFECT: to_regex fails on an automaton with two start states"
