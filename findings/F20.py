# F20 (C17): ConsumptionRule.__eq__ calls the property f_parameter
from pyformlang.indexed_grammar import Rules, ConsumptionRule, EndRule, IndexedGrammar
try:
    rules = Rules([ConsumptionRule("f", "S", "A"), ConsumptionRule("f", "S", "A"), EndRule("A", "a")])
    ok = True
except TypeError as exc:
    print("raised TypeError:", exc)
    ok = False
assert ok, "DEFECT: listing the same consumption rule twice raises TypeError"
