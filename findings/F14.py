# F14 (C15): Earley chart states share one mutable parse tree
from pyformlang.fcfg import FCFG
g = FCFG.from_text("""
S -> A C
A -> a | a a
C -> a | a a
""")
tree = g.get_parse_tree(["a", "a", "a"])
print("children of the root:", [str(s.value) for s in tree.sons])
assert len(tree.sons) == 2, "DEFECT: the root S of `S -> A C` has %d children" % len(tree.sons)
