# F24 (C19): DeterministicFiniteAutomaton.to_deterministic returns self
from pyformlang.finite_automaton import DeterministicFiniteAutomaton, State
d = DeterministicFiniteAutomaton()
d.add_start_state(State(0)); d.add_transition(0, "a", 1); d.add_final_state(1)
res = d.to_deterministic()
res.add_final_state(0)
print("source accepts []:", d.accepts([]))
assert d.accepts([]) is False, "DEFECT: mutating the result of to_deterministic changed the source"
