# F17 (C17): remove_useless_rules drops the start variable
from pyformlang.indexed_grammar import Rules, EndRule, ProductionRule, ConsumptionRule, IndexedGrammar
rules = Rules([EndRule("A", "a")])
g = IndexedGrammar(rules, start_variable="A")
before = g.is_empty()
after = g.remove_useless_rules().is_empty()
print("is_empty before:", before, "| after remove_useless_rules:", after)
assert before == after, "DEFECT: remove_useless_rules changes the emptiness verdict (start variable A is forgotten)"
