# F29 (C18): the Earley dummy head "Gamma" is not fresh against the grammar's variables
from pyformlang.fcfg import FCFG
from pyformlang.cfg import CFG
text = "S -> Gamma b | a\nGamma -> c\n"
plain = CFG.from_text(text)
feat = FCFG.from_text(text)
w = ["a", "b"]
print("CFG.contains(ab):", plain.contains(w), "| FCFG.contains(ab):", feat.contains(w))
assert feat.contains(w) == plain.contains(w), "DEFECT: completing the dummy rule Gamma -> S advances the user's `S -> Gamma . b`"
