# F32 (C10): substitute builds names with `+` on the variable's value: grammars whose variables are integers
# (every grammar produced by intersection() or PDA.to_cfg()) cannot be combined
from pyformlang.cfg import CFG
from pyformlang.regular_expression import Regex
g = CFG.from_text("S -> a S b | a b")
h = CFG.from_text("S -> c")
inter = g.intersection(Regex("a b"))          # variables of `inter` are integers
try:
    u = inter.union(h)
    ok = u.contains(["a", "b"]) and u.contains(["c"])
except TypeError as exc:
    print("raised TypeError:", exc)
    ok = False
assert ok, "DEFECT: union of an intersection result with another grammar raises TypeError"
