# F21 (C18): the Earley completer inserts into the chart index it is iterating
from pyformlang.fcfg import FCFG
from pyformlang.cfg import CFG
text = "S -> A a\nA -> epsilon\n"
plain = CFG.from_text(text)
feat = FCFG.from_text(text)
try:
    got = feat.contains(["a"])
except RuntimeError as exc:
    print("raised RuntimeError:", exc)
    got = "RuntimeError"
print("CFG.contains(a):", plain.contains(["a"]), "| FCFG.contains(a):", got)
assert got == plain.contains(["a"]), "DEFECT: a feature-free FCFG with an epsilon production does not agree with CFG"
