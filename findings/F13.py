# F13 (C14): nullable productions with a non-empty body get no FIRST entries in the LL(1) table
from pyformlang.cfg import CFG, LLOneParser
from pyformlang.cfg.cfg import NotParsableException
g = CFG.from_text("""
S -> A
A -> B C
B -> b | epsilon
C -> epsilon
""")
assert g.contains(["b"])
p = LLOneParser(g)
try:
    p.get_llone_parse_tree(["b"])
    outcome = "parsed"
except NotParsableException:
    outcome = "NotParsableException"
print("LL(1):", p.is_llone_parsable(), "| member b ->", outcome)
assert outcome == "parsed", "DEFECT: the member 'b' of an LL(1) grammar is refused (table cell [S][b] / [A][b] missing)"
