# F19 (C17): the arborescence ordering subscripts its graph with the literal "S"
from pyformlang.indexed_grammar import Rules, EndRule, IndexedGrammar
outcomes = {}
for optim in range(0, 9):
    try:
        outcomes[optim] = IndexedGrammar(Rules([EndRule("S", "a")], optim=optim)).is_empty()
    except Exception as exc:
        outcomes[optim] = type(exc).__name__
print(outcomes)
assert len(set(map(str, outcomes.values()))) == 1, "DEFECT: the verdict / outcome depends on the ordering option"
