# F25 (C19): PDA.to_dict hands out the internal transition table
from pyformlang.pda import PDA
p = PDA()
p.add_transition("q", "a", "Z", "q", ["Z"])
n = p.get_number_transitions()
p.to_dict().clear()
print("transitions before/after:", n, p.get_number_transitions())
assert p.get_number_transitions() == n, "DEFECT: clearing the result of to_dict emptied the PDA"
